"""C10 - k-mer indices find exactly the matching k-mers; selectors obey their definitions.

E2: complete enumeration of small alphabets x k x spacing models x reference sets x masks x
queries x table variants (direct / bucketed, every constructor, pickle) on the real
KmerTable / BucketKmerTable / KmerAlphabet / selectors, compared with nested-loop reference
models written from the documentation.  Malformed inputs run in forked children (E4).
"""

import itertools
import json
from collections import Counter
from fractions import Fraction

import numpy as np

ID = "C10"
LEVEL = "model_checking"
RULE = (
    "pair: every (reference, reference mask, query, query mask) over the stated alphabet/length/mask-bit bounds x "
    "every spacing model (every k-subset of [0, k+2), plus None) x table variant (KmerTable, BucketKmerTable with "
    "each listed bucket count); per case match(), match_table() and match_kmer_selection() are compared as "
    "multisets of triples with the nested-loop model; the table content (get_kmers, count, [], in, iteration) is "
    "compared once per (reference, mask, variant). multi/triple: every multiset of 2 references (and every ordered "
    "triple of a listed pool) x reference-id schemes x single-bit masks, each built through from_sequences, "
    "from_kmers, from_kmer_selection, from_positions, from_tables (both orders), pickle, deepcopy. sim: every "
    "threshold of the score range of the listed matrices. selectors: every sequence up to the length bound x window "
    "/ (k, s, offset subsets) / compression x listed permutations. alias: every constructor / method of the family x "
    "every mutable argument (spacing model as int64/int32/uint8 ndarray and list, in sorted and reversed order, for every "
    "model; k-mer, position, id, count, offset and matrix arrays, masks, sequence code arrays, argument lists and dicts) x "
    "every in-place mutation of the caller's object (each element, reverse, sort, zeros, clear/pop) after the call, plus "
    "zeroing every array the object returns: the complete observation of the object must not move, must equal that of a "
    "twin built from private copies, and the call must leave its arguments as passed. size: every listed count around each "
    "capacity / width switch (rows of a match result 1..4160 straddling every doubling of the buffer that starts at 1, "
    "255/256/257 and 65535/65536/65537 entries per k-mer and references, every n_buckets 1..20 and 31..33 around n^k, every "
    "default bucket count for 1..42 k-mers, k-mer alphabets around 2^32 and 2^63 k-mers, 255/256/257 symbols, windows "
    "around 64 and 256 on three sequences of 700-1033 symbols). reuse: every ordered pair of the listed operations "
    "(including refused calls) on one object, second result and final observation equal to those of a fresh object. "
    "flavour: every site x every listed array flavour / numpy scalar type / empty piece, result equal to that of the "
    "contiguous array of the documented dtype. order: every permutation of references, tables, selection pairs, dict keys "
    "and rows, result equal as multiset. derived: every listed producer (create_kmers, get_kmers, selector output, "
    "{kmer: table[kmer]}, count(), spacing, similar_kmers, sliced / stepped / reversed / masked / index-selected / copied / "
    "concatenated sequences) x every consumer whose argument type fits, result equal to that for an equal-valued object "
    "built directly. ambient: every listed process-wide state change (working directory - also before the first use of the "
    "prime table -, numpy error state, warnings as errors, print options, locale / TMPDIR) x every listed operation, in a "
    "forked child, result equal to that in the default state. A case is counted once; it is non-trivial when "
    "the model's result set (triples / selected positions / similar k-mers) is non-empty and, for tables, at least "
    "one k-mer of the reference is stored."
)
ASSUMPTIONS = [
    "a k-mer with a masked informative position must be excluded, a k-mer whose span is mask-free must be "
    "included; a spaced k-mer whose only masked positions are non-informative gap positions is unspecified (EITHER)",
    "sequences shorter than the k-mer span (reference or query), fewer k-mers than the minimizer window and s=1 "
    "are unspecified: a clean exception or the empty/model result (EITHER)",
    "with a similarity rule, triples of identical k-mers whose self score is below the threshold are unspecified "
    "(allowed, not required); triples of similar k-mers are required",
    "order of rows in match results / positions arrays is not part of the statement: compared as multisets "
    "(duplicates are violations)",
    "== is demanded only between a table and its pickle/deepcopy/same-order rebuild (True) and a table with a "
    "different entry multiset (False)",
    "MincodeSelector: 'below the threshold' is exact rational comparison; a permuted value within float64 rounding "
    "of the threshold would be EITHER (none occurs in the enumerated space)",
    "array flavours: memory layouts of an array of the documented dtype (strided, negative stride, column view, read-only, "
    "ndarray subclass, Fortran / strided rows) must give the result of the contiguous array; other integer dtypes, lists, "
    "tuples, ranges and non-integral numpy scalars are EITHER unless the documentation names them",
    "k-mer alphabets with 2^63 or more k-mers (codes do not fit int64) are EITHER",
    "malformed inputs (k-mer codes outside [0, n^k), n_buckets <= 0, positions/ids outside uint32, wrong lengths "
    "and dtypes): a clean exception is demanded where the documentation names one or no model value exists",
]
EXHAUSTIVE = True
SHARD_TIMEOUT = {"quick": 600, "thorough": 2400}

LCG_A = 0xD1342543DE82EF95  # Steele & Vigna 2021, the multiplier named in the RandomPermutation notes

# ---------------------------------------------------------------------------
# palettes (VERIF_SEED selects the symbols / sequence class, never the codes)
# ---------------------------------------------------------------------------
PALETTES = {
    2: [("letter", "ab"), ("letter", "01"), ("general", [10, 20])],
    3: [("letter", "abc"), ("letter", "012"), ("general", [10, 20, 30])],
    4: [("nuc", None), ("letter", "wxyz"), ("general", ["p", "qq", 3, (4,)])],
    5: [("letter", "abcde"), ("letter", "vwxyz"), ("general", [0, 1, 2, 3, 4])],
}


def make_alphabet(n, pal):
    """-> (alphabet, factory(codes) -> Sequence)"""
    import biotite.sequence as seq

    kind, sym = PALETTES[n][pal % len(PALETTES[n])]
    if kind == "nuc":
        alph = seq.NucleotideSequence.alphabet_unamb

        def mk(codes):
            s = seq.NucleotideSequence()
            s.code = np.array(codes, dtype=np.uint8)
            return s

        return alph, mk
    alph = seq.LetterAlphabet(sym) if kind == "letter" else seq.Alphabet(sym)

    def mk(codes):
        s = seq.GeneralSequence(alph)
        s.code = np.array(codes, dtype=np.uint8)
        return s

    return alph, mk


def extended_alphabet(alph, extra=1):
    """an alphabet that extends `alph` by `extra` further symbols"""
    import biotite.sequence as seq

    sym = list(alph.get_symbols())
    add = ["Z", "Y", "X"] if all(isinstance(x, str) and len(x) == 1 for x in sym) else ["ext1", "ext2", "ext3"]
    new = sym + [a for a in add if a not in sym][:extra]
    if isinstance(alph, seq.LetterAlphabet):
        return seq.LetterAlphabet(new)
    return seq.Alphabet(new)


# ---------------------------------------------------------------------------
# reference model (plain Python)
# ---------------------------------------------------------------------------
def offsets(k, sp):
    return list(range(k)) if sp is None else sorted(sp)


def model_kmers(codes, n, offs):
    """k-mer code at every start position (documented radix formula)."""
    span = offs[-1] + 1
    out = []
    for i in range(len(codes) - span + 1):
        c = 0
        for o in offs:
            c = c * n + codes[i + o]
        out.append(c)
    return out


def model_status(L, mask, offs):
    """per start position: 'R' (must be kept), 'O' (only gap positions masked: unspecified), 'X' (must be dropped)"""
    span = offs[-1] + 1
    out = []
    ms = set(mask or ())
    for i in range(L - span + 1):
        if any((i + o) in ms for o in offs):
            out.append("X")
        elif any(i <= m < i + span for m in ms):
            out.append("O")
        else:
            out.append("R")
    return out


def all_seqs(n, lo, hi):
    out = []
    for L in range(lo, hi + 1):
        out.extend(itertools.product(range(n), repeat=L))
    return out


def all_masks(L, bits):
    out = [()]
    for b in range(1, bits + 1):
        out.extend(itertools.combinations(range(L), b))
    return out


def spacing_models(k, extra):
    """None + every k-subset of [0, k+extra)"""
    out = [None]
    for c in itertools.combinations(range(k + extra), k):
        out.append(list(c))
    return out


def sp_arg(sp, form):
    """concrete `spacing` argument for a model"""
    if sp is None:
        return None
    o = sorted(sp)
    if form == "str":
        return "".join("1" if i in o else "0" for i in range(o[-1] + 1))
    if form == "str_star":  # the documentation writes gaps as '*'
        return "".join("1" if i in o else "*" for i in range(o[-1] + 1))
    if form == "str_mixed":  # any character but '1' is a gap, trailing gaps do not extend the span
        return "".join("1" if i in o else "-x 2"[i % 4] for i in range(o[-1] + 1)) + "-0"
    if form == "list":
        return list(o)
    if form == "rlist":
        return list(reversed(o))
    if form == "array":
        return np.array(o, dtype=np.int32)
    if form == "tuple":
        return tuple(o)
    raise ValueError(form)


def mask_array(L, mask):
    a = np.zeros(L, dtype=bool)
    for m in mask:
        a[m] = True
    return a


def cmp_multiset(obs, req, opt=()):
    """obs, req, opt: lists of hashable rows. None if req <= obs <= req+opt (as multisets), else (mode, missing, extra)."""
    if not opt:
        if len(obs) == len(req) and (not obs or sorted(obs) == sorted(req)):
            return None
    co, cr = Counter(obs), Counter(req)
    missing = cr - co
    extra = co - (cr + Counter(opt))
    if not missing and not extra:
        return None
    if missing and extra:
        mode = "wrong_rows"
    elif missing:
        mode = "missing_rows"
    else:
        allowed = set(cr) | set(opt)
        mode = "duplicate_rows" if all(e in allowed for e in extra) else "extra_rows"
    return mode, sorted(missing.elements())[:12], sorted(extra.elements())[:12]


def rows(a, ncol):
    """ndarray result -> list of tuples; shape problems -> None"""
    sh = a.shape
    if len(sh) != 2 or sh[1] != ncol:
        if a.size == 0:
            return []
        return None
    if sh[0] == 0:
        return []
    return list(map(tuple, a.tolist()))


# ---------------------------------------------------------------------------
# environment: one (alphabet, k, spacing model)
# ---------------------------------------------------------------------------
class Env:
    def __init__(self, n, pal, k, sp, form="str", table_n=None):
        import biotite.sequence.align as align

        self.n, self.pal, self.k, self.sp, self.form = n, pal, k, sp, form
        self.alph, self.mk = make_alphabet(n, pal)
        self.tn = table_n or n  # radix of the table alphabet (>= n when the table alphabet extends)
        self.talph, self.mk_t = self.alph, self.mk
        if self.tn != n:
            import biotite.sequence as seq

            self.talph = ta = extended_alphabet(self.alph, self.tn - n)

            def mk_t(codes):
                s = seq.GeneralSequence(ta)
                s.code = np.array(codes, dtype=np.uint8)
                return s

            self.mk_t = mk_t
        self.offs = offsets(k, sp)
        self.span = self.offs[-1] + 1
        self.N = self.tn**k
        self.sparg = sp_arg(sp, form)
        self.kalph = align.KmerAlphabet(self.talph, k, sp_arg(sp, form))
        self._seq, self._km, self._st, self._ok = {}, {}, {}, {}
        self.allcodes = np.arange(self.N, dtype=np.int64)

    def seq(self, codes):
        s = self._seq.get(codes)
        if s is None:
            s = self._seq[codes] = self.mk(codes)
        return s

    def codes_ok(self, ctx, codes):
        """pre-flight: the k-mer codes biotite computes for this sequence are the model's (a table fed with wrong
        codes could write out of bounds); a mismatch is reported once per sequence and the sequence is left out"""
        r = self._ok.get(codes)
        if r is None:
            r = True
            if len(codes) >= self.span:
                try:
                    got = np.asarray(self.kalph.create_kmers(self.seq(codes).code)).tolist()
                except Exception as e:  # noqa: BLE001
                    got = "raised " + type(e).__name__
                r = got == self.kmers(codes)
                if not r:
                    ctx.violation("KmerAlphabet.create_kmers|wrong_codes|%s" % ("continuous" if self.sp is None else "spacing_arg"),
                                  "k-mer codes differ from sum n^(k-i-1) s_i over the informative positions",
                                  {"kind": "kalph", "n": self.tn, "k": self.k, "sp": self.sp, "form": self.form,
                                   "dtype": "uint8", "seqs": [list(codes)]}, self.kmers(codes), got)
            self._ok[codes] = r
        return r

    def kmers(self, codes):
        r = self._km.get(codes)
        if r is None:
            r = self._km[codes] = model_kmers(codes, self.tn, self.offs)
        return r

    def status(self, L, mask):
        key = (L, mask)
        r = self._st.get(key)
        if r is None:
            r = self._st[key] = model_status(L, mask, self.offs)
        return r

    def entries(self, codes, mask):
        """-> (required [(pos, kmer)], optional [(pos, kmer)])"""
        km = self.kmers(codes)
        if not mask:
            return list(enumerate(km)), []
        st = self.status(len(codes), mask)
        req = [(i, c) for i, c in enumerate(km) if st[i] == "R"]
        opt = [(i, c) for i, c in enumerate(km) if st[i] == "O"]
        return req, opt


def table_kinds(N, tier, full=False):
    """bucket counts: 1, 2, 3, a prime below N, a prime above N (capped to N by the class)"""
    primes = [2, 3, 5, 7, 11, 13, 17, 19, 23, 29, 31, 37, 41, 43, 47, 53, 59, 61, 67, 71]
    below = [p for p in primes if 3 < p < N]
    above = [p for p in primes if p > N]
    ks = ["K", "B1", "B2", "B3"]
    if below:
        ks.append("B%d" % below[-1])
    ks.append("B%d" % above[0])
    if full:
        ks.append("Bdef")
    return ks


def kind_nb(tk):
    if tk == "K":
        return None
    return None if tk == "Bdef" else int(tk[1:])


def table_class(tk):
    import biotite.sequence.align as align

    return align.KmerTable if tk == "K" else align.BucketKmerTable


def cls_name(tk):
    return "KmerTable" if tk == "K" else "BucketKmerTable"


def nb_kw(tk):
    if tk == "K" or tk == "Bdef":
        return {}
    return {"n_buckets": int(tk[1:])}


def build_from_sequences(env, tk, seqs, masks=None, ids=None, alphabet=None):
    kw = dict(nb_kw(tk))
    if env.sparg is not None:
        kw["spacing"] = env.sparg
    if masks is not None and any(masks):
        kw["ignore_masks"] = [mask_array(len(s), m) if m else None for s, m in zip(seqs, masks)]
    if ids is not None:
        kw["ref_ids"] = ids
    if alphabet is not None:
        kw["alphabet"] = alphabet
    elif env.tn != env.n:
        kw["alphabet"] = env.talph
    return table_class(tk).from_sequences(env.k, [env.seq(s) for s in seqs], **kw)


def check_content(ctx, env, tk, table, req, opt, site, icls, case):
    """Compare every lookup view of `table` with the entry multiset.
    req / opt: lists of (kmer, ref_id, pos).  Returns the observed {kmer: [(ref, pos)]} or None after a violation."""
    N = env.N
    name = cls_name(tk)

    def bad(view, mode, exp, got):
        ctx.violation("%s.%s|%s:%s|%s" % (name, site, view, mode, icls),
                      "%s of a table built by %s disagrees with the reference entries" % (view, site), case,
                      expected=exp, observed=got)
        return None

    if len(table) != N:
        return bad("len", "wrong_value", N, len(table))
    obs = {}
    flat = []
    for c in range(N):
        r = rows(table[c], 2)
        if r is None:
            return bad("getitem", "wrong_shape", "(m,2)", str(np.asarray(table[c]).shape))
        if r:
            obs[c] = r
            flat.extend((c, a, b) for a, b in r)
    d = cmp_multiset(flat, req, opt)
    if d is not None:
        return bad("getitem", d[0], {"missing": d[1]}, {"unexpected": d[2], "all": flat[:24]})
    present = sorted(obs)
    gk = np.asarray(table.get_kmers())
    if gk.tolist() != present:
        return bad("get_kmers", "wrong_value", present, gk.tolist())
    cnt = np.asarray(table.count(env.allcodes)).tolist()
    want = [len(obs.get(c, ())) for c in range(N)]
    if cnt != want:
        return bad("count", "wrong_value", want, cnt)
    if present:
        sub = np.array(present[::-1] + present[:1], dtype=np.int64)
        c2 = np.asarray(table.count(sub)).tolist()
        w2 = [len(obs[c]) for c in sub.tolist()]
        if c2 != w2:
            return bad("count_subset", "wrong_value", w2, c2)
    if tk == "K":
        c0 = np.asarray(table.count()).tolist()
        if c0 != want:
            return bad("count_all", "wrong_value", want, c0)
        it = [int(x) for x in table]
        if it != present:
            return bad("iter", "wrong_value", present, it)
        rv = [int(x) for x in reversed(table)]
        if rv != present[::-1]:
            return bad("reversed", "wrong_value", present[::-1], rv)
        inn = [c for c in range(N) if c in table]
        if inn != present:
            return bad("contains", "wrong_value", present, inn)
    else:
        want_nb = kind_nb(tk)
        if want_nb is not None and table.n_buckets != min(want_nb, N):
            return bad("n_buckets", "wrong_value", min(want_nb, N), int(table.n_buckets))
    if table.k != env.k or table.kmer_alphabet != env.kalph or table.alphabet != env.talph:
        return bad("attributes", "wrong_value", [env.k, repr(env.kalph)], [table.k, repr(table.kmer_alphabet)])
    return obs


def expected_triples(qents, obs):
    out = []
    for p, c in qents:
        e = obs.get(c)
        if e:
            out.extend((p, a, b) for a, b in e)
    return out


# ---------------------------------------------------------------------------
# T1  pair:  one reference x one query, all three match operations
# ---------------------------------------------------------------------------
QID = 7  # reference id of the query table in match_table


def icls_of(sp, rmask, qmask):
    parts = ["continuous" if sp is None else "spacing_arg"]
    if rmask:
        parts.append("refmask")
    if qmask:
        parts.append("qmask")
    return "+".join(parts)


def pair_cfg(tier):
    """list of groups: n, k, ref length range, query length range, mask policy, spacing extra, kinds"""
    if tier == "quick":
        return [
            {"g": "a", "n": 2, "k": 2, "lr": [0, 4], "lq": [0, 4], "mb": [2, 2, 4], "spx": 2, "parts": 1},
            {"g": "b", "n": 2, "k": 3, "lr": [0, 5], "lq": [0, 5], "mb": [1, 1, 2], "spx": 2, "parts": 3,
             "kinds": ["K", "B1", "B3", "B7", "B11"]},
            {"g": "c", "n": 3, "k": 2, "lr": [0, 3], "lq": [0, 3], "mb": [1, 1, 2], "spx": 2, "parts": 1},
            {"g": "d", "n": 4, "k": 2, "lr": [0, 3], "lq": [0, 3], "mb": [1, 1, 1], "spx": 1, "parts": 1},
            {"g": "e", "n": 4, "k": 3, "lr": [3, 4], "lq": [3, 4], "mb": [0, 0, 0], "spx": 1, "parts": 2,
             "models": [None, [0, 1, 3], [0, 2, 3]], "kinds": ["K", "B7", "B67"]},
        ]
    return [
        {"g": "a", "n": 2, "k": 2, "lr": [0, 5], "lq": [0, 5], "mb": [2, 2, 2], "spx": 2, "parts": 4},
        {"g": "a22", "n": 2, "k": 2, "lr": [0, 4], "lq": [0, 4], "mb": [2, 2, 4], "mbmin": 3, "spx": 2, "parts": 1},
        {"g": "b", "n": 2, "k": 3, "lr": [0, 5], "lq": [0, 5], "mb": [2, 2, 2], "spx": 2, "parts": 4},
        {"g": "b6", "n": 2, "k": 3, "lr": [6, 6], "lq": [3, 6], "mb": [1, 1, 1], "spx": 2, "parts": 2,
         "kinds": ["K", "B3", "B11"]},
        {"g": "b4", "n": 2, "k": 4, "lr": [3, 6], "lq": [3, 6], "mb": [1, 1, 1], "spx": 1, "parts": 3},
        {"g": "c", "n": 3, "k": 2, "lr": [0, 4], "lq": [0, 4], "mb": [1, 1, 1], "spx": 2, "parts": 4},
        {"g": "c11", "n": 3, "k": 2, "lr": [0, 3], "lq": [0, 3], "mb": [1, 1, 2], "mbmin": 2, "spx": 2, "parts": 1},
        {"g": "c3", "n": 3, "k": 3, "lr": [2, 4], "lq": [2, 4], "mb": [1, 1, 1], "spx": 1, "parts": 3},
        {"g": "d", "n": 4, "k": 2, "lr": [0, 4], "lq": [0, 3], "mb": [1, 1, 1], "spx": 2, "parts": 4},
        {"g": "e", "n": 4, "k": 3, "lr": [3, 4], "lq": [3, 4], "mb": [0, 0, 0], "spx": 1, "parts": 4,
         "kinds": ["K", "B1", "B7", "B67"]},
        {"g": "f", "n": 5, "k": 2, "lr": [2, 3], "lq": [2, 3], "mb": [0, 0, 0], "spx": 1, "parts": 2,
         "kinds": ["K", "B3", "B23", "B29"]},
    ]


def pair_models(g):
    return g.get("models") or spacing_models(g["k"], g["spx"])


def pair_kinds(g, tier):
    return g.get("kinds") or table_kinds(g["n"] ** g["k"], tier)


def pair_cases(n, lo, hi, bits):
    out = []
    for s in all_seqs(n, lo, hi):
        for m in all_masks(len(s), bits):
            out.append((s, m))
    return out


def pair_shards(tier):
    out = []
    for g in pair_cfg(tier):
        for sp in pair_models(g):
            for tk in pair_kinds(g, tier):
                for p in range(g["parts"]):
                    out.append({"kind": "pair", "g": g["g"], "sp": sp, "tk": tk, "part": p})
    return out


def _group(tier, name):
    for g in pair_cfg(tier):
        if g["g"] == name:
            return g
    raise KeyError(name)


class QCase:
    __slots__ = ("codes", "mask", "seq", "marr", "req", "opt", "table", "selpos", "selkm", "short")


def prep_query(env, tk, codes, mask, with_table=True):
    q = QCase()
    q.codes, q.mask = codes, mask
    q.seq = env.seq(codes)
    q.marr = mask_array(len(codes), mask) if mask else None
    q.short = len(codes) < env.span
    q.req, q.opt = env.entries(codes, mask)
    q.selpos = np.array([p for p, _ in q.req], dtype=np.uint32)
    q.selkm = np.array([c for _, c in q.req], dtype=np.int64)
    q.table = None
    if with_table and not q.short:
        # the query side table for match_table is built from explicit k-mers of the model: its content is
        # exactly the required entries (independent of from_sequences' mask handling)
        kw = nb_kw(tk)
        q.table = table_class(tk).from_kmer_selection(env.kalph, [q.selpos], [q.selkm], ref_ids=[QID], **kw)
    return q


def match_ops(ctx, env, tk, table, obs, q, icls, mkcase, counts=True):
    """match / match_table / match_kmer_selection of one query case against a table whose validated content is obs."""
    name = cls_name(tk)
    icls0 = icls.replace("+qmask", "")
    req = expected_triples(q.req, obs)
    opt = expected_triples(q.opt, obs) if q.opt else ()
    nviol = ctx.viol_total
    # --- match
    try:
        m = table.match(q.seq, ignore_mask=q.marr) if q.marr is not None else table.match(q.seq)
        exc = None
    except Exception as e:  # noqa: BLE001
        m, exc = None, e
    if q.short:
        ctx.count("either_short_query")
        if exc is None and len(m):
            ctx.violation("%s.match|rows_for_short_query|%s" % (name, icls), "query shorter than the k-mer span "
                          "returned matches", mkcase(), expected="exception or empty", observed=np.asarray(m).tolist())
    elif exc is not None:
        ctx.violation("%s.match|raised_%s|%s" % (name, type(exc).__name__, icls),
                      "match() raised on a legal query: %s" % str(exc)[:200], mkcase(), expected=req[:24],
                      observed=type(exc).__name__)
    else:
        r = rows(m, 3)
        d = cmp_multiset(r, req, opt) if r is not None else ("wrong_shape", [], [])
        if d is not None:
            ctx.violation("%s.match|%s|%s" % (name, d[0], icls), "match() does not return exactly the triples of "
                          "identical k-mers", mkcase(), expected={"required": req[:24], "missing": d[1]},
                          observed={"rows": (r or [])[:24], "unexpected": d[2]})
        elif r and [x[0] for x in r] != sorted(x[0] for x in r):
            ctx.violation("%s.match|not_ordered_by_query_position|%s" % (name, icls), "documented order of match "
                          "rows (first column ascending) violated", mkcase(), expected="sorted first column", observed=r[:24])
    # --- match_kmer_selection with the retained k-mers of the model
    try:
        m = table.match_kmer_selection(q.selpos, q.selkm)
        r = rows(m, 3)
        d = cmp_multiset(r, req) if r is not None else ("wrong_shape", [], [])
        if d is not None:
            ctx.violation("%s.match_kmer_selection|%s|%s" % (name, d[0], icls0),
                          "match_kmer_selection() does not return exactly the triples of identical k-mers", mkcase(),
                          expected={"required": req[:24], "missing": d[1]}, observed={"rows": (r or [])[:24], "unexpected": d[2]})
    except Exception as e:  # noqa: BLE001
        ctx.violation("%s.match_kmer_selection|raised_%s|%s" % (name, type(e).__name__, icls0),
                      "match_kmer_selection() raised on legal input: %s" % str(e)[:200], mkcase(), expected=req[:24],
                      observed=type(e).__name__)
    # --- match_table
    if q.table is not None:
        req4 = [(QID, p, a, b) for p, a, b in req]
        try:
            m = table.match_table(q.table)
            r = rows(m, 4)
            d = cmp_multiset(r, req4) if r is not None else ("wrong_shape", [], [])
            if d is not None:
                ctx.violation("%s.match_table|%s|%s" % (name, d[0], icls0),
                              "match_table() does not return exactly the pairs of entries with identical k-mers",
                              mkcase(), expected={"required": req4[:24], "missing": d[1]},
                              observed={"rows": (r or [])[:24], "unexpected": d[2]})
        except Exception as e:  # noqa: BLE001
            ctx.violation("%s.match_table|raised_%s|%s" % (name, type(e).__name__, icls0),
                          "match_table() raised on legal input: %s" % str(e)[:200], mkcase(), expected=req4[:24],
                          observed=type(e).__name__)
    if counts:
        ctx.ev(1, 1 if (req and obs) else 0)
        ctx.count("match_ops", 3 if q.table is not None else 2)
        if len(ctx.outcomes) < 50000:
            ctx.outcome(tuple(req))
    return ctx.viol_total == nviol


def build_ref(ctx, env, tk, codes, mask, icls, mkcase):
    """from_sequences of one reference + content check. Returns obs dict, or None (violation / refused short)."""
    name = cls_name(tk)
    short = len(codes) < env.span
    try:
        t = build_from_sequences(env, tk, [codes], [mask])
    except Exception as e:  # noqa: BLE001
        if short:
            ctx.count("either_short_reference_refused")
            return None, None
        ctx.violation("%s.from_sequences|raised_%s|%s" % (name, type(e).__name__, icls),
                      "from_sequences raised on legal input: %s" % str(e)[:200], mkcase(), expected="table",
                      observed=type(e).__name__)
        return None, None
    req, opt = env.entries(codes, mask)
    obs = check_content(ctx, env, tk, t, [(c, 0, p) for p, c in req], [(c, 0, p) for p, c in opt],
                        "from_sequences", icls, mkcase())
    ctx.count("tables_built")
    if obs is None:
        ctx.count("skipped_after_content_violation")
        return t, None
    return t, obs


def run_pair(shard, ctx):
    g = _group(ctx.tier, shard["g"])
    sp, tk = shard["sp"], shard["tk"]
    env = Env(g["n"], ctx.seed, g["k"], sp)
    mbr, mbq, mbt = g["mb"]
    mbmin = g.get("mbmin", 0)  # lower bound on the mask bits of a pair (keeps groups disjoint)
    if env.tn != env.n:
        raise RuntimeError("pair shards use the sequence alphabet")
    qcases = [prep_query(env, tk, s, m) for s, m in pair_cases(g["n"], g["lq"][0], g["lq"][1], mbq) if env.codes_ok(ctx, s)]
    refs = [(s, m) for s, m in pair_cases(g["n"], g["lr"][0], g["lr"][1], mbr) if env.codes_ok(ctx, s)]
    base = {"kind": "pair", "g": shard["g"], "n": g["n"], "k": g["k"], "sp": sp, "tk": tk}
    for ri, (rc, rm) in enumerate(refs):
        if ri % g["parts"] != shard["part"]:
            continue
        rcase = dict(base, ref=list(rc), rmask=list(rm))
        pre = json.dumps(rcase)[:-1]
        if not ctx.journal(pre + "}"):
            continue
        t, obs = build_ref(ctx, env, tk, rc, rm, icls_of(sp, rm, ()), lambda: rcase)
        if obs is None:
            continue
        nr = len(rm)
        for q in qcases:
            if nr + len(q.mask) > mbt or nr + len(q.mask) < mbmin:
                continue
            js = pre + ',"q":%s,"qmask":%s}' % (list(q.codes), list(q.mask))
            if not ctx.journal(js):
                continue
            ok = match_ops(ctx, env, tk, t, obs, q, icls_of(sp, (), q.mask), lambda: json.loads(js))
            if ok and len(ctx.samples) < 2 and obs and q.req and rm and q.mask and sp:
                ctx.sample(json.loads(js))


def replay_pair(case, ctx):
    env = Env(case["n"], ctx.seed, case["k"], case["sp"])
    tk = case["tk"]
    rc, rm = tuple(case["ref"]), tuple(case["rmask"])
    if not env.codes_ok(ctx, rc) or ("q" in case and not env.codes_ok(ctx, tuple(case["q"]))):
        return
    t, obs = build_ref(ctx, env, tk, rc, rm, icls_of(case["sp"], rm, ()), lambda: case)
    if obs is None or "q" not in case:
        return
    q = prep_query(env, tk, tuple(case["q"]), tuple(case["qmask"]))
    match_ops(ctx, env, tk, t, obs, q, icls_of(case["sp"], (), q.mask), lambda: case)


# ---------------------------------------------------------------------------
# module contract
# ---------------------------------------------------------------------------
def shards(tier, seed):
    out = []
    for fn in SHARD_SOURCES:
        out.extend(fn(tier))
    if out and seed:
        r = seed % len(out)
        out = out[r:] + out[:r]
    # heaviest kinds first
    order = {"pair": 0, "multi": 1, "sync": 2}
    out.sort(key=lambda s: order.get(s["kind"], 5))
    return out


def run_shard(shard, ctx):
    import os
    import sys
    import time

    t0 = time.process_time()
    RUNNERS[shard["kind"]](shard, ctx)
    if os.environ.get("C10_TIMING"):
        print("C10TIME %.2f %s" % (time.process_time() - t0, json.dumps(shard)), file=sys.stderr)


def replay(case, ctx):
    if isinstance(case, str):
        case = json.loads(case)
    REPLAYERS[case["kind"]](case, ctx)


def crash_class(case):
    if isinstance(case, str):
        try:
            case = json.loads(case)
        except ValueError:
            return "unclassified"
    if not isinstance(case, dict):
        return "unclassified"
    k = case.get("kind", "?")
    if k in ("pair", "multi", "triple", "sim"):
        return "%s|%s|%s" % (k, case.get("tk", "?"), "q" if "q" in case else "build")
    return k


SHARD_SOURCES = [pair_shards]
RUNNERS = {"pair": run_pair}
REPLAYERS = {"pair": replay_pair}


def bounds(tier):
    sc = sel_cfg(tier)
    return {
        "pair": [dict(g, models=len(pair_models(g)), kinds=pair_kinds(g, tier),
                      note="lr/lq = reference/query length range, mb = [max mask bits reference, query, together], "
                           "spx: spacing models = every k-subset of [0, k+spx) plus None") for g in pair_cfg(tier)],
        "multi": multi_cfg(tier),
        "triple": dict(triple_cfg(tier), pool=[list(s) for s in POOL3], id_schemes=list(ID_SCHEMES)),
        "similarity": {"groups": sim_cfg(tier), "matrices": list(MATRICES),
                       "thresholds": "every integer in [k*min(M)-1, k*max(M)+1]"},
        "selectors": {"minimizer": sc["min"], "windows": sc["windows"], "minimizer_arrays": sc["minarr"],
                      "syncmer": sc["sync"], "syncmer_perms": list(sc["sync_perms"]),
                      "syncmer_offsets": "every subset of size 1 or 2 of [-(k-s+1), k-s]",
                      "mincode": sc["mincode"], "compression": sc["compression"], "permutations": list(PERMS)},
        "kmer_alphabet": {"(n, k, max length)": kalph_cfg(tier), "spacing_forms": list(FORMS), "code_dtypes": list(DTYPES)},
        "malformed_probes": "fixed list (see oor_probes), each in a forked child",
        "size": size_cfg(tier),
        "reuse": {"objects": sorted(reuse_objects(0)) if False else "tables (2 classes x continuous/spaced), 4 selectors x 3 permutations, "
                  "3 permutations, 3 similarity rules, 2 k-mer alphabets, the module-level default bucket count; every ordered "
                  "pair of their listed operations (28 for a table)"},
        "flavour": {"layouts": list(LAYOUTS), "other_types": list(OTHER_TYPES), "numpy_scalars": list(SCALARS)},
        "derived": "24 k-mer-array producers x up to 21 consumers, 11 selector outputs x 4 table consumers, table -> from_positions / "
                   "FrequencyPermutation / KmerAlphabet, 10 (12 for nucleotides) derived sequences x 13 sequence consumers",
        "ambient": {"events": list(AMBIENT_EVENTS), "operations": 9},
        "similarity_edge_matrices": list(MATRICES_EDGE),
        "order": "all permutations of 3 references / 3 tables / 4 selection pairs / 3 dict keys x 3 rows; match_table argument swap",
        "alias": {"scenarios": len(alias_scenarios(tier)), "spacing_forms": list(SPACING_FORMS),
                  "spacing_models": "KmerAlphabet: every k-subset of [0, k+2) for k = 2, 3 in sorted and reversed order; table "
                                    "constructors: every model of k = 2 and %s of k = 3" % ("2 listed models" if tier == "quick" else "every model"),
                  "mutations": "each element (+1 / flipped), reverse, sort, zeros; lists also clear / pop; dicts popfirst / clear; "
                               "every returned array zeroed",
                  "unspecified_shared_arguments": sorted("%s(%s)" % k for k in ALIAS_UNSPECIFIED)},
        "palettes": {str(k): [list(map(str, p)) for p in v] for k, v in PALETTES.items()},
    }


# ---------------------------------------------------------------------------
# T2/T3  multi: several references, every constructor, pickle, ==
# ---------------------------------------------------------------------------
ID_SCHEMES = ("default", "perm", "dup", "large")
POOL3 = [(0, 0, 0, 0, 0), (0, 1, 0, 1, 0), (0, 0, 1, 1, 0), (1, 1, 1, 1, 1), (0, 1), (0,)]


def ids_of(scheme, m):
    if scheme == "default":
        return None
    if scheme == "perm":
        return list(range(m - 1, -1, -1))
    if scheme == "dup":
        return [5] * m
    if scheme == "large":
        return [2**31, 2**32 - 1, 2**31 + 5][:m]
    raise ValueError(scheme)


def debruijn(n, k):
    """linearised de Bruijn sequence: contains every continuous k-mer once"""
    a = [0] * (n * k)
    out = []

    def db(t, p):
        if t > k:
            if k % p == 0:
                out.extend(a[1:p + 1])
        else:
            a[t] = a[t - p]
            db(t + 1, p)
            for j in range(a[t - p] + 1, n):
                a[t] = j
                db(t + 1, t)

    db(1, 1)
    return tuple(out + out[:k - 1])


def multi_cfg(tier):
    if tier == "quick":
        return [
            {"g": "m2", "n": 2, "k": 2, "len": [0, 4], "models": [None, [0, 2]], "idkinds": ["K", "B2", "B3", "B5", "Bdef"],
             "maskkinds": ["K", "B3"], "parts": 2},
            {"g": "m3", "n": 2, "k": 3, "len": [0, 4], "models": [None, [0, 1, 3]], "idkinds": ["K", "B2", "B7", "B11", "Bdef"],
             "maskkinds": [], "parts": 2},
        ]
    return [
        {"g": "m2", "n": 2, "k": 2, "len": [0, 5], "models": [None, [0, 2], [1, 3]],
         "idkinds": ["K", "B1", "B2", "B3", "B5", "Bdef"], "maskkinds": ["K", "B3"], "parts": 6},
        {"g": "m3", "n": 2, "k": 3, "len": [0, 5], "models": [None, [0, 1, 3], [0, 2, 4]],
         "idkinds": ["K", "B2", "B7", "B11", "Bdef"], "maskkinds": ["K"], "parts": 8},
        {"g": "m4", "n": 3, "k": 2, "len": [0, 3], "models": [None, [0, 2]], "idkinds": ["K", "B2", "B7", "B11", "Bdef"],
         "maskkinds": ["K", "B7"], "parts": 3},
    ]


def triple_cfg(tier):
    models = [None, [0, 2]] if tier == "quick" else [None, [0, 2], [0, 3], [1, 2]]
    return {"n": 2, "k": 2, "models": models, "kinds": ["K", "B1", "B2", "B3", "B5", "Bdef"],
            "alpha": ["same", "explicit", "ext", "mixed", "mixed_explicit"]}


def multi_shards(tier):
    out = []
    for g in multi_cfg(tier):
        for sp in g["models"]:
            for tk in sorted(set(g["idkinds"]) | set(g["maskkinds"])):
                for p in range(g["parts"]):
                    out.append({"kind": "multi", "g": g["g"], "sp": sp, "tk": tk, "part": p})
    t = triple_cfg(tier)
    for sp in t["models"]:
        for tk in t["kinds"]:
            out.append({"kind": "triple", "sp": sp, "tk": tk})
    return out


def _mgroup(tier, name):
    for g in multi_cfg(tier):
        if g["g"] == name:
            return g
    raise KeyError(name)


class MultiCtx:
    """per shard: queries shared by all table cases"""

    def __init__(self, env, tk, n, k, nb=None, ctx=None):
        self.env, self.tk, self.n, self.k, self.ctx = env, tk, n, k, ctx
        self._sub = {}
        if tk == "Bdef" and nb is None:
            return  # bucket count is chosen by the class: query side tables are made per observed count
        if nb is not None:
            tk = "B%d" % nb
        good = (lambda s: True) if ctx is None else (lambda s: env.codes_ok(ctx, s))
        qs = [s for s in all_seqs(n, k, k + 1) if good(s)]
        cover = debruijn(n, k)
        self.cover = [c for c in (cover, tuple(reversed(cover))) if good(c)]
        self.queries = [prep_query(env, tk, s, ()) for s in qs + self.cover]
        self.altq = [prep_query(env, tk, s, (), with_table=False) for s in self.cover]
        kw = nb_kw(tk)
        self.alltable = table_class(tk).from_kmer_selection(
            env.kalph, [np.arange(env.N, dtype=np.uint32) + 100], [env.allcodes], ref_ids=[QID], **kw)
        self.allpos = np.arange(env.N, dtype=np.uint32) + 100

    def for_table(self, table):
        """context whose query-side tables have the bucket count of `table` (only differs for the default count)"""
        if self.tk != "Bdef":
            return self
        nb = int(table.n_buckets)
        if nb not in self._sub:
            m = MultiCtx(self.env, "Bdef", self.n, self.k, nb=nb, ctx=self.ctx)
            m.tk = "Bdef"
            self._sub[nb] = m
        return self._sub[nb]


def alt_ops(ctx, mc, table, obs, site, icls, case):
    """reduced matching on an alternatively constructed table"""
    env, tk = mc.env, mc.tk
    name = cls_name(tk)
    for q in mc.altq:
        req = expected_triples(q.req, obs)
        try:
            r = rows(np.asarray(table.match(q.seq)), 3)
        except Exception as e:  # noqa: BLE001
            r = "raised " + type(e).__name__
        d = cmp_multiset(r, req) if isinstance(r, list) else ("raised", [], [])
        if d is not None:
            ctx.violation("%s.match|%s|table_by_%s+%s" % (name, d[0], site, icls), "match() on a table made by %s" % site,
                          dict(case, q=list(q.codes)), expected=req[:24], observed=r if isinstance(r, str) else r[:24])
            return False
    req = [(100 + c, a, b) for c in sorted(obs) for a, b in obs[c]]
    try:
        r = rows(np.asarray(table.match_kmer_selection(mc.allpos, env.allcodes)), 3)
    except Exception as e:  # noqa: BLE001
        r = "raised " + type(e).__name__
    d = cmp_multiset(r, req) if isinstance(r, list) else ("raised", [], [])
    if d is not None:
        ctx.violation("%s.match_kmer_selection|%s|table_by_%s+%s" % (name, d[0], site, icls),
                      "match_kmer_selection(all codes) on a table made by %s" % site, case, expected=req[:24],
                      observed=r if isinstance(r, str) else r[:24])
        return False
    req4 = [(QID, p, a, b) for p, a, b in req]
    try:
        r = rows(np.asarray(table.match_table(mc.alltable)), 4)
    except Exception as e:  # noqa: BLE001
        r = "raised " + type(e).__name__
    d = cmp_multiset(r, req4) if isinstance(r, list) else ("raised", [], [])
    if d is not None:
        ctx.violation("%s.match_table|%s|table_by_%s+%s" % (name, d[0], site, icls),
                      "match_table(all-codes table) on a table made by %s" % site, case, expected=req4[:24],
                      observed=r if isinstance(r, str) else r[:24])
        return False
    # and the other direction: the all-codes table matched against this one
    req4 = [(a, b, QID, p) for p, a, b in req]
    try:
        r = rows(np.asarray(mc.alltable.match_table(table)), 4)
    except Exception as e:  # noqa: BLE001
        r = "raised " + type(e).__name__
    d = cmp_multiset(r, req4) if isinstance(r, list) else ("raised", [], [])
    if d is not None:
        ctx.violation("%s.match_table|%s|argument_by_%s+%s" % (name, d[0], site, icls),
                      "all-codes table .match_table(table made by %s)" % site, case, expected=req4[:24],
                      observed=r if isinstance(r, str) else r[:24])
        return False
    ctx.count("alt_match_ops", len(mc.altq) + 3)
    return True


def check_table_case(ctx, mc, case):
    """case: {seqs, masks, ids, alpha}.  Returns nothing; reports through ctx."""
    import copy
    import pickle

    env, tk = mc.env, mc.tk
    name = cls_name(tk)
    T = table_class(tk)
    seqs = [tuple(s) for s in case["seqs"]]
    masks = [tuple(m) for m in case["masks"]]
    m = len(seqs)
    ids = ids_of(case["ids"], m)
    rid = ids if ids is not None else list(range(m))
    alpha = case.get("alpha", "same")
    anymask = any(masks)
    icls = "+".join(["continuous" if env.sp is None else "spacing_arg"]
                    + (["refmask"] if anymask else
                       ["ids_" + case["ids"]] + (["alphabet_" + alpha] if alpha != "same" else [])))
    short = any(len(s) < env.span for s in seqs)
    if not all(env.codes_ok(ctx, s) for s in seqs):
        return
    req, opt, keep = [], [], []
    for j, (s, mk) in enumerate(zip(seqs, masks)):
        r, o = env.entries(s, mk)
        req.extend((c, rid[j], p) for p, c in r)
        opt.extend((c, rid[j], p) for p, c in o)
        keep.append(r)
    ctx.ev(1, 1 if (req and m > 1) else 0)
    # ---- A: from_sequences
    sobjs = [env.seq(s) for s in seqs]
    if alpha in ("mixed", "mixed_explicit"):
        sobjs[0] = env.mk_t(seqs[0])
    kw = dict(nb_kw(tk))
    if env.sparg is not None:
        kw["spacing"] = env.sparg
    if anymask:
        kw["ignore_masks"] = [mask_array(len(s), mk) if mk else None for s, mk in zip(seqs, masks)]
    if ids is not None:
        kw["ref_ids"] = ids if case["ids"] != "perm" else np.array(ids)
    if alpha in ("explicit", "ext", "mixed_explicit"):
        kw["alphabet"] = env.talph  # given explicitly AND differing from (some of) the sequences' alphabets
    try:
        A = T.from_sequences(env.k, sobjs, **kw)
    except Exception as e:  # noqa: BLE001
        if short:
            ctx.count("either_short_reference_refused")
        else:
            ctx.violation("%s.from_sequences|raised_%s|%s" % (name, type(e).__name__, icls),
                          "from_sequences raised on legal input: %s" % str(e)[:200], case, "table", type(e).__name__)
        return
    ctx.count("tables_built")
    obs = check_content(ctx, env, tk, A, req, opt, "from_sequences", icls, case)
    if obs is None:
        ctx.count("skipped_after_content_violation")
        return
    ctx.outcome(tuple(sorted(req)))
    mc0 = mc
    mc = mc.for_table(A)
    for q in mc.queries:
        if not match_ops(ctx, env, tk, A, obs, q, icls, lambda: dict(case, q=list(q.codes), qmask=[]), counts=False):
            return
    ctx.count("match_ops", 3 * len(mc.queries))
    exact = not opt
    nbA = getattr(A, "n_buckets", None)
    alts = []
    # ---- B: from_kmers (k-mer arrays of the model, keep-masks)
    try:
        karr = [np.array(env.kmers(s), dtype=np.int64) for s in seqs]
        kw = dict(nb_kw(tk))
        if anymask:
            km = []
            for s, r in zip(seqs, keep):
                a = np.zeros(len(env.kmers(s)), dtype=bool)
                for p, _ in r:
                    a[p] = True
                km.append(a)
            kw["masks"] = km
        if ids is not None:
            kw["ref_ids"] = ids
        alts.append(("from_kmers", T.from_kmers(env.kalph, karr, **kw), True))
        # ---- C: from_kmer_selection
        pos = [np.array([p for p, _ in r], dtype=np.uint32) for r in keep]
        kms = [np.array([c for _, c in r], dtype=np.int64) for r in keep]
        kw = dict(nb_kw(tk))
        if ids is not None:
            kw["ref_ids"] = ids
        alts.append(("from_kmer_selection", T.from_kmer_selection(env.kalph, pos, kms, **kw), True))
        # ---- D: from_positions (direct table only)
        if tk == "K":
            d = {}
            for c, a, b in req:
                d.setdefault(c, []).append((a, b))
            dd = {c: np.array(v, dtype=np.uint32 if len(d) % 2 else np.int64) for c, v in d.items()}
            for c in range(env.N):
                if c not in dd:
                    dd[c] = np.zeros((0, 2), dtype=np.uint32)  # documented: empty arrays are skipped
                    break
            alts.append(("from_positions", T.from_positions(env.kalph, dd), True))
        # ---- E: from_tables, both orders
        if not short and alpha == "same":
            subs = []
            for j, (s, mk) in enumerate(zip(seqs, masks)):
                kw = dict(nb_kw(tk))
                if env.sparg is not None:
                    kw["spacing"] = env.sparg
                if mk:
                    kw["ignore_masks"] = [mask_array(len(s), mk)]
                sub = T.from_sequences(env.k, [env.seq(s)], ref_ids=[rid[j]], **kw)
                if mk:
                    # a part table is a from_sequences result of its own: validate it before blaming the merge
                    r1, o1 = env.entries(s, mk)
                    if check_content(ctx, env, "Bdef" if tk != "K" else "K", sub, [(c, rid[j], p) for p, c in r1],
                                     [(c, rid[j], p) for p, c in o1], "from_sequences", icls, case) is None:
                        ctx.count("skipped_after_content_violation")
                        return
                subs.append(sub)
            if tk == "Bdef" and len({t.n_buckets for t in subs}) > 1:
                try:
                    T.from_tables(subs)
                    ctx.violation("BucketKmerTable.from_tables|no_error|different_n_buckets", "tables with different "
                                  "bucket counts were merged", case, "ValueError", "returned")
                except Exception:  # noqa: BLE001
                    ctx.count("refused_documented")
            else:
                alts.append(("from_tables", T.from_tables(subs), False))
                if m > 1:
                    alts.append(("from_tables", T.from_tables(subs[::-1]), False))
                alts.append(("from_tables", T.from_tables([A, T.from_kmers(env.kalph, [np.zeros(0, dtype=np.int64)],
                                                                            **({"n_buckets": nbA} if nbA else {}))]), False))
        # ---- F/G: pickle, deepcopy
        alts.append(("pickle", pickle.loads(pickle.dumps(A)), True))
        alts.append(("pickle", pickle.loads(pickle.dumps(A, protocol=2)), True))
        alts.append(("deepcopy", copy.deepcopy(A), True))
    except Exception as e:  # noqa: BLE001
        site = ["from_kmers", "from_kmer_selection", "from_positions", "from_tables", "pickle", "deepcopy"]
        done = [a[0] for a in alts]
        nxt = next((x for x in site if x not in done and not (x == "from_positions" and tk != "K")), "pickle")
        ctx.violation("%s.%s|raised_%s|%s" % (name, nxt, type(e).__name__, icls),
                      "alternative construction raised on legal input: %s" % str(e)[:200], case, "table", type(e).__name__)
        return
    for site, t, same_order in alts:
        ctx.count("tables_built")
        explicit = site in ("from_kmers", "from_kmer_selection", "from_positions")
        want_nb = None
        o2 = check_content(ctx, env, "Bdef" if tk != "K" else "K", t, req, () if explicit else opt, site, icls, case)
        if o2 is None:
            return
        if tk != "K" and site in ("pickle", "deepcopy") and t.n_buckets != nbA:
            ctx.violation("%s.%s|n_buckets:wrong_value|%s" % (name, site, icls), "bucket count changed", case, int(nbA),
                          int(t.n_buckets))
            return
        if tk not in ("K", "Bdef") and t.n_buckets != min(kind_nb(tk), env.N):
            ctx.violation("%s.%s|n_buckets:wrong_value|%s" % (name, site, icls), "bucket count not the requested one",
                          case, min(kind_nb(tk), env.N), int(t.n_buckets))
            return
        if not alt_ops(ctx, mc0.for_table(t), t, o2, site, icls, case):
            return
        if same_order and exact and (tk == "K" or t.n_buckets == nbA):
            if not (A == t) or not (t == A) or (A != t):
                ctx.violation("%s.__eq__|false_for_equal|%s_vs_from_sequences" % (name, site),
                              "a table and its %s twin (same entries, same order) compare unequal" % site, case, True, False)
                return
    # ---- inequality with a table that differs in one entry
    if req and exact:
        kw = dict(nb_kw(tk)) if tk != "Bdef" else {"n_buckets": nbA}
        flat = sorted(req, key=lambda e: (e[1], e[2]))
        absent = [c for c in range(env.N) if c not in {e[0] for e in flat}]
        for variant in ("drop", "shift", "otherid", "add_present_kmer", "add_absent_kmer", "add_many"):
            ent = list(flat)
            if variant == "add_present_kmer":  # the other table is LARGER: one more position of a k-mer both have
                ent.append((flat[-1][0], flat[-1][1], flat[-1][2] + 50))
            elif variant == "add_absent_kmer":  # ... or holds a k-mer this table lacks
                if not absent:
                    continue
                ent.append((absent[-1], flat[-1][1], 0))
            elif variant == "add_many":
                ent += [(c, 77, p) for c in range(env.N) for p in (0, 1, 2)]
            elif variant == "drop":
                ent = ent[:-1]
            elif variant == "shift":
                c, a, b = ent[-1]
                ent[-1] = (c, a, b + 1)
            else:
                c, a, b = ent[0]
                ent[0] = (c, a + 1, b)
            byid = {}
            for c, a, b in ent:
                byid.setdefault(a, []).append((b, c))
            rid2 = sorted(byid)
            if not rid2:
                rid2, byid = [0], {0: []}
            other = T.from_kmer_selection(env.kalph, [np.array([b for b, _ in byid[a]], dtype=np.uint32) for a in rid2],
                                          [np.array([c for _, c in byid[a]], dtype=np.int64) for a in rid2],
                                          ref_ids=rid2, **kw)
            if A == other or not (A != other) or other == A or not (other != A):
                ctx.violation("%s.__eq__|true_for_different|one_entry_%s" % (name, variant),
                              "tables with different entries compare equal (checked in both directions)", case, False, True)
                return
    if len(ctx.samples) < 2 and m > 1 and req and anymask:
        ctx.sample(case)


def run_multi(shard, ctx):
    g = _mgroup(ctx.tier, shard["g"])
    sp, tk = shard["sp"], shard["tk"]
    env = Env(g["n"], ctx.seed, g["k"], sp)
    mc = MultiCtx(env, tk, g["n"], g["k"], ctx=ctx)
    S = all_seqs(g["n"], g["len"][0], g["len"][1])
    base = {"kind": "multi", "g": shard["g"], "n": g["n"], "k": g["k"], "sp": sp, "tk": tk}
    idx = 0
    for i in range(len(S)):
        for j in range(i, len(S)):
            idx += 1
            if idx % g["parts"] != shard["part"]:
                continue
            seqs = [list(S[i]), list(S[j])]
            variants = []
            if tk in g["idkinds"]:
                variants += [([[], []], sch) for sch in ID_SCHEMES]
            if tk in g["maskkinds"]:
                variants += [([[b], []], "default") for b in range(len(S[i]))]
                variants += [([[], [b]], "default") for b in range(len(S[j]))]
            for masks, sch in variants:
                case = dict(base, seqs=seqs, masks=masks, ids=sch)
                if not ctx.journal(case):
                    continue
                check_table_case(ctx, mc, case)
    if shard["part"] == 0 and tk in g["idkinds"]:
        # single references and the empty-mask single-table merge
        for s in S:
            for sch in ("default", "large"):
                case = dict(base, seqs=[list(s)], masks=[[]], ids=sch)
                if ctx.journal(case):
                    check_table_case(ctx, mc, case)


def run_triple(shard, ctx):
    cfg = triple_cfg(ctx.tier)
    sp, tk = shard["sp"], shard["tk"]
    envs = {"same": Env(cfg["n"], ctx.seed, cfg["k"], sp)}
    envs["explicit"] = envs["same"]
    envs["ext"] = Env(cfg["n"], ctx.seed, cfg["k"], sp, table_n=3)
    envs["mixed"] = envs["mixed_explicit"] = envs["ext"]
    mcs = {a: MultiCtx(e, tk, cfg["n"], cfg["k"], ctx=ctx) for a, e in envs.items() if a in ("same", "ext")}
    mcs["explicit"], mcs["mixed"], mcs["mixed_explicit"] = mcs["same"], mcs["ext"], mcs["ext"]
    base = {"kind": "triple", "n": cfg["n"], "k": cfg["k"], "sp": sp, "tk": tk}
    for tri in itertools.product(range(len(POOL3)), repeat=3):
        seqs = [list(POOL3[i]) for i in tri]
        for alpha in cfg["alpha"]:
            for sch in ID_SCHEMES if alpha == "same" else ("default",):
                case = dict(base, seqs=seqs, masks=[[], [], []], ids=sch, alpha=alpha)
                if ctx.journal(case):
                    check_table_case(ctx, mcs[alpha], case)
        # one mask bit in the middle sequence
        if len(seqs[1]) > 2:
            case = dict(base, seqs=seqs, masks=[[], [2], []], ids="perm", alpha="same")
            if ctx.journal(case):
                check_table_case(ctx, mcs["same"], case)


def replay_multi(case, ctx):
    alpha = case.get("alpha", "same")
    env = Env(case["n"], ctx.seed, case["k"], case["sp"], table_n=3 if alpha in ("ext", "mixed", "mixed_explicit") else None)
    mc = MultiCtx(env, case["tk"], case["n"], case["k"], ctx=ctx)
    c = {k: v for k, v in case.items() if k not in ("q", "qmask")}
    check_table_case(ctx, mc, c)


SHARD_SOURCES.append(multi_shards)
RUNNERS.update({"multi": run_multi, "triple": run_triple})
REPLAYERS.update({"multi": replay_multi, "triple": replay_multi})


# ---------------------------------------------------------------------------
# T4  similarity rule
# ---------------------------------------------------------------------------
def sim_matrix(name, n):
    if name == "ident":
        return [[1 if i == j else -1 for j in range(n)] for i in range(n)]
    if name == "diag":
        return [[(2 - (i % 2)) if i == j else 0 for j in range(n)] for i in range(n)]
    if name == "offdiag":  # off-diagonal entries may beat the diagonal; self score of odd symbols is negative
        def e(i, j):
            if i == j:
                return -2 if i % 2 else 0
            return 1 if (i + j) % 2 else -1
        return [[e(i, j) for j in range(n)] for i in range(n)]
    if name == "zeros":  # every k-mer pair scores 0: all candidates tie
        return [[0] * n for _ in range(n)]
    if name == "const":  # all scores equal and positive
        return [[2] * n for _ in range(n)]
    if name == "allneg":  # no non-negative score at all, the diagonal is only the least bad
        return [[-1 if i == j else -3 for j in range(n)] for i in range(n)]
    raise ValueError(name)


MATRICES = ("ident", "diag", "offdiag")
MATRICES_EDGE = ("zeros", "const", "allneg")  # boundary values of the compared score: ties, all zero, all negative


def sim_cfg(tier):
    if tier == "quick":
        return [
            {"g": "s2", "n": 2, "k": 2, "len": [0, 3], "models": [None, [0, 2]], "kinds": ["K", "B2", "B3"], "ext": [0, 1]},
            {"g": "s3", "n": 3, "k": 2, "len": [2, 3], "models": [None], "kinds": ["K", "B7"], "ext": [0]},
            {"g": "s23", "n": 2, "k": 3, "len": [3, 4], "models": [None, [0, 1, 3]], "kinds": ["K", "B3"], "ext": [0]},
        ]
    return [
        {"g": "s2", "n": 2, "k": 2, "len": [0, 4], "models": [None, [0, 2], [1, 3]], "kinds": ["K", "B2", "B3", "B5"],
         "ext": [0, 1]},
        {"g": "s3", "n": 3, "k": 2, "len": [0, 3], "models": [None, [0, 2]], "kinds": ["K", "B2", "B7"], "ext": [0, 1]},
        {"g": "s23", "n": 2, "k": 3, "len": [3, 5], "models": [None, [0, 1, 3]], "kinds": ["K", "B3", "B7"], "ext": [0]},
        {"g": "s4", "n": 4, "k": 2, "len": [2, 3], "models": [None], "kinds": ["K", "B7"], "ext": [0]},
    ]


def sim_shards(tier):
    out = []
    for g in sim_cfg(tier):
        for mname in MATRICES:
            for ext in g["ext"]:
                for sp in g["models"]:
                    for tk in g["kinds"]:
                        out.append({"kind": "sim", "g": g["g"], "matrix": mname, "ext": ext, "sp": sp, "tk": tk})
        if g["g"] == "s2":
            for mname in MATRICES_EDGE:
                for tk in ("K", "B3"):
                    out.append({"kind": "sim", "g": g["g"], "matrix": mname, "ext": 0, "sp": None, "tk": tk})
    ks = [(2, 2), (2, 3), (3, 2), (3, 3), (4, 2)] + ([(4, 3), (2, 4), (5, 2)] if tier == "thorough" else [])
    for n, k in ks:
        out.append({"kind": "simk", "n": n, "k": k})
    return out


def _sgroup(tier, name):
    for g in sim_cfg(tier):
        if g["g"] == name:
            return g
    raise KeyError(name)


def split_code(c, n, k):
    out = []
    for _ in range(k):
        out.append(c % n)
        c //= n
    return out[::-1]


def sim_sets(M, n, k, thr):
    """{kmer: [similar kmers]} by brute force over all pairs"""
    N = n**k
    sp = [split_code(c, n, k) for c in range(N)]
    out = {}
    for a in range(N):
        out[a] = [b for b in range(N) if sum(M[x][y] for x, y in zip(sp[a], sp[b])) >= thr]
    return out


def make_rule(env, mname, ext, thr):
    import biotite.sequence.align as align

    malph = env.talph if not ext else extended_alphabet(env.talph, 1)
    M = sim_matrix(mname, len(malph))
    sm = align.SubstitutionMatrix(malph, malph, np.array(M, dtype=np.int32))
    return align.ScoreThresholdRule(sm, thr), M


def thresholds(M, n, k):
    vals = [M[i][j] for i in range(n) for j in range(n)]
    return list(range(k * min(vals) - 1, k * max(vals) + 2))


def sim_ops(ctx, env, tk, table, obs, q, rule, ss, mkcase):
    name = cls_name(tk)
    req, opt = [], []
    for p, c in q.req:
        sim = ss[c]
        for c2 in sim:
            e = obs.get(c2)
            if e:
                req.extend((p, a, b) for a, b in e)
        if c not in sim and c in obs:
            opt.extend((p, a, b) for a, b in obs[c])
    for p, c in q.opt:  # only gap positions of a spaced k-mer are masked: unspecified
        for c2 in set(ss[c]) | {c}:
            if c2 in obs:
                opt.extend((p, a, b) for a, b in obs[c2])
    if opt:
        ctx.count("either_identical_not_similar")
    for op in ("match", "match_table"):
        if op == "match":
            want, wopt, ncol = req, opt, 3
        else:
            if q.table is None:
                continue
            want = [(QID, p, a, b) for p, a, b in req]
            wopt = [(QID, p, a, b) for p, a, b in opt]
            ncol = 4
        try:
            if op == "match":
                m = table.match(q.seq, similarity_rule=rule, **({"ignore_mask": q.marr} if q.marr is not None else {}))
            else:
                m = table.match_table(q.table, similarity_rule=rule)
        except Exception as e:  # noqa: BLE001
            if op == "match" and q.short:
                ctx.count("either_short_query")
                continue
            ctx.violation("%s.%s|raised_%s|similarity_rule" % (name, op, type(e).__name__),
                          "%s with a similarity rule raised: %s" % (op, str(e)[:200]), mkcase(), want[:24], type(e).__name__)
            return False
        r = rows(np.asarray(m), ncol)
        d = cmp_multiset(r, want, wopt) if r is not None else ("wrong_shape", [], [])
        if d is not None:
            ctx.violation("%s.%s|%s|similarity_rule" % (name, op, d[0]),
                          "%s with a similarity rule does not return exactly the similar k-mer pairs" % op, mkcase(),
                          expected={"required": want[:24], "missing": d[1], "optional": wopt[:12]},
                          observed={"rows": (r or [])[:24], "unexpected": d[2]})
            return False
    ctx.ev(1, 1 if len(req) > len(expected_triples(q.req, obs)) else 0)  # non-trivial: the rule adds triples
    ctx.count("sim_match_ops", 2)
    if len(ctx.outcomes) < 50000:
        ctx.outcome(tuple(req))
    return True


def run_sim(shard, ctx):
    g = _sgroup(ctx.tier, shard["g"])
    sp, tk, mname, ext = shard["sp"], shard["tk"], shard["matrix"], shard["ext"]
    env = Env(g["n"], ctx.seed, g["k"], sp)
    S = [s for s in all_seqs(g["n"], g["len"][0], g["len"][1]) if env.codes_ok(ctx, s)]
    qs = [prep_query(env, tk, s, ()) for s in S]
    lmax = g["len"][1]
    # two features in one call: similarity rule AND ignore mask (separate copy of the mask test in the rule branch)
    qs_masked = [prep_query(env, tk, s, (b,)) for s in S if len(s) == lmax for b in range(lmax)]
    _, M = make_rule(env, mname, ext, 0)
    base = {"kind": "sim", "g": shard["g"], "n": g["n"], "k": g["k"], "sp": sp, "tk": tk, "matrix": mname, "ext": ext}
    tabs = []
    for rc in S:
        rcase = dict(base, ref=list(rc), rmask=[])
        if not ctx.journal(rcase):
            continue
        t, obs = build_ref(ctx, env, tk, rc, (), icls_of(sp, (), ()), lambda: rcase)
        if obs is not None:
            tabs.append((rc, t, obs))
    for thr in thresholds(M, g["n"], g["k"]):
        rule, _ = make_rule(env, mname, ext, thr)
        ss = sim_sets(M, g["n"], g["k"], thr)
        for rc, t, obs in tabs:
            pre = json.dumps(dict(base, ref=list(rc), rmask=[], thr=thr))[:-1]
            for q in qs + (qs_masked if len(rc) == lmax else []):
                js = pre + ',"q":%s,"qmask":%s}' % (list(q.codes), list(q.mask))
                if not ctx.journal(js):
                    continue
                ok = sim_ops(ctx, env, tk, t, obs, q, rule, ss, lambda: json.loads(js))
                if ok and len(ctx.samples) < 1 and obs and len(q.req) > 1 and thr == 0:
                    ctx.sample(json.loads(js))


def replay_sim(case, ctx):
    env = Env(case["n"], ctx.seed, case["k"], case["sp"])
    tk = case["tk"]
    rc = tuple(case["ref"])
    t, obs = build_ref(ctx, env, tk, rc, (), icls_of(case["sp"], (), ()), lambda: case)
    if obs is None or "q" not in case:
        return
    rule, M = make_rule(env, case["matrix"], case["ext"], case["thr"])
    ss = sim_sets(M, case["n"], case["k"], case["thr"])
    q = prep_query(env, tk, tuple(case["q"]), tuple(case.get("qmask", ())))
    sim_ops(ctx, env, tk, t, obs, q, rule, ss, lambda: case)


def check_simk(ctx, case):
    """ScoreThresholdRule.similar_kmers against brute force for every k-mer"""
    import biotite.sequence.align as align

    n, k, mname, ext, thr = case["n"], case["k"], case["matrix"], case["ext"], case["thr"]
    env = Env(n, ctx.seed, k, None)
    rule, M = make_rule(env, mname, ext, thr)
    ss = sim_sets(M, n, k, thr)
    for c in range(env.N):
        ctx.ev(1, 1 if 1 < len(ss[c]) < env.N else 0)
        try:
            got = np.asarray(rule.similar_kmers(env.kalph, c)).tolist()
        except Exception as e:  # noqa: BLE001
            ctx.violation("ScoreThresholdRule.similar_kmers|raised_%s|valid_kmer" % type(e).__name__, str(e)[:200],
                          dict(case, kmer=c), ss[c], type(e).__name__)
            return
        ctx.outcome((n, k, tuple(ss[c])))
        d = cmp_multiset(got, ss[c])
        if d is not None:
            ctx.violation("ScoreThresholdRule.similar_kmers|%s|valid_kmer" % d[0], "similar k-mers differ from the brute-force "
                          "set {b : sum M[a_i, b_i] >= threshold}", dict(case, kmer=c), ss[c], got)
            return
    _ = align


def run_simk(shard, ctx):
    n, k = shard["n"], shard["k"]
    for mname in MATRICES + MATRICES_EDGE:
        for ext in (0, 1):
            if ext and n >= 5:
                continue
            M = sim_matrix(mname, n + ext)
            for thr in thresholds(M, n, k):
                case = {"kind": "simk", "n": n, "k": k, "matrix": mname, "ext": ext, "thr": thr}
                if ctx.journal(case):
                    check_simk(ctx, case)
    # documented refusal: asymmetric matrix
    import biotite.sequence.align as align

    env = Env(n, ctx.seed, k, None)
    A = np.array(sim_matrix("ident", n), dtype=np.int32)
    A[0, 1] = 5
    try:
        align.ScoreThresholdRule(align.SubstitutionMatrix(env.alph, env.alph, A), 0)
        ctx.violation("ScoreThresholdRule.__init__|no_error|asymmetric_matrix", "asymmetric matrix accepted",
                      {"kind": "simk", "n": n, "k": k, "matrix": "asym", "ext": 0, "thr": 0}, "ValueError", "returned")
    except ValueError:
        ctx.count("refused_documented")


def replay_simk(case, ctx):
    if case["matrix"] != "asym":
        check_simk(ctx, case)


SHARD_SOURCES.append(sim_shards)
RUNNERS.update({"sim": run_sim, "simk": run_simk})
REPLAYERS.update({"sim": replay_sim, "simk": replay_simk})


# ---------------------------------------------------------------------------
# selectors
# ---------------------------------------------------------------------------
PERMS = ("none", "freq_rev", "freq_ties", "freq_cyc", "freq_table", "random", "neg")
INT64_MAX, INT64_MIN = 2**63 - 1, -(2**63)


def freq_seq(n, k):
    return debruijn(n, k) + (0,) * k + (n - 1, 0) * 2


def perm_order(name, n, k, N):
    """model: sort key of every k-mer code (documented definitions)"""
    if name == "none":
        return list(range(N))
    if name == "neg":
        return [-c for c in range(N)]
    if name == "extreme":  # injective keys that contain both ends of the documented int64 range (the values RandomPermutation.min/max name)
        return [[5, INT64_MAX, INT64_MIN, INT64_MAX - 1][c % 4] + (0 if c < 4 else (c // 4) * 7 * (1 if c % 4 == 0 else 0)) for c in range(N)] if N <= 4 else \
            [INT64_MAX if c == 1 else (INT64_MIN if c == 2 else 10 * c) for c in range(N)]
    if name == "random":
        out = []
        for c in range(N):
            v = (LCG_A * c + 1) % 2**64
            out.append(v - 2**64 if v >= 2**63 else v)
        return out
    if name == "freq_rev":
        counts = [N - 1 - c for c in range(N)]
    elif name == "freq_ties":
        counts = [c % 2 for c in range(N)]
    elif name == "freq_zero":  # all counts equal (and zero): every candidate ties, the documented stable order decides
        counts = [0] * N
    elif name == "freq_cyc":  # a rank order that is not its own inverse
        counts = [(c + 1) % N for c in range(N)]
    elif name == "freq_table":
        counts = [0] * N
        for c in model_kmers(freq_seq(n, k), n, list(range(k))):
            counts[c] += 1
    else:
        raise ValueError(name)
    ranked = sorted(range(N), key=lambda c: (counts[c], c))  # less frequent first, ties by code (stable)
    order = [0] * N
    for r, c in enumerate(ranked):
        order[c] = r
    return order


def perm_range(name, N):
    if name == "none":
        return 0, N - 1
    if name == "neg":
        return -(N - 1), 0
    if name in ("random", "extreme"):
        return -(2**63), 2**63 - 1
    return 0, N - 1


def perm_impl(name, kalph, n, k, N, pal):
    import biotite.sequence.align as align

    if name == "none":
        return None
    if name == "neg":
        class Neg(align.Permutation):
            @property
            def min(self):
                return -(N - 1)

            @property
            def max(self):
                return 0

            def permute(self, kmers):
                return -np.asarray(kmers).astype(np.int64)

        return Neg()
    if name == "random":
        return align.RandomPermutation()
    if name == "extreme":
        table = np.array(perm_order("extreme", n, k, N), dtype=np.int64)

        class Extreme(align.Permutation):
            @property
            def min(self):
                return INT64_MIN

            @property
            def max(self):
                return INT64_MAX

            def permute(self, kmers):
                return table[np.asarray(kmers)]

        return Extreme()
    if name == "freq_rev":
        return align.FrequencyPermutation(kalph, np.array([N - 1 - c for c in range(N)], dtype=np.int64))
    if name == "freq_ties":
        return align.FrequencyPermutation(kalph, np.array([c % 2 for c in range(N)], dtype=np.int64))
    if name == "freq_zero":
        return align.FrequencyPermutation(kalph, np.zeros(N, dtype=np.int64))
    if name == "freq_cyc":
        return align.FrequencyPermutation(kalph, np.array([(c + 1) % N for c in range(N)], dtype=np.int64))
    if name == "freq_table":
        _, mk = make_alphabet(n, pal)
        t = align.KmerTable.from_sequences(k, [mk(freq_seq(n, k))])
        return align.FrequencyPermutation.from_table(t)
    raise ValueError(name)


def check_selection(ctx, site, icls, case, got, want):
    """got: (positions, kmers) arrays; want: list of (position, kmer).  True if it agrees."""
    pos, km = got
    pos = np.asarray(pos)
    km = np.asarray(km)
    if pos.dtype == np.bool_:
        ctx.violation("%s|positions_are_boolean_mask|any_input" % site, "the first return value is a boolean mask over "
                      "the k-mers, documented: the indices (uint32) where the selected k-mers start", case,
                      expected=[p for p, _ in want], observed=pos.tolist())
        pos = np.where(pos)[0]
    if pos.ndim != 1 or km.ndim != 1 or len(pos) != len(km):
        ctx.violation("%s|wrong_shape|%s" % (site, icls), "positions / k-mers arrays differ in shape", case,
                      expected=want, observed=[pos.tolist(), km.tolist()])
        return False
    r = list(zip(pos.tolist(), km.tolist()))
    d = cmp_multiset(r, want)
    if d is not None:
        ctx.violation("%s|%s|%s" % (site, d[0], icls), "selected (position, k-mer) pairs differ from the definition", case,
                      expected=want, observed=r)
        return False
    return True


def sel_call(ctx, site, icls, case, fn, want, either):
    """run one selector call; `either`: exception allowed (then `want` must be what a non-raising call returns)"""
    try:
        got = fn()
    except Exception as e:  # noqa: BLE001
        if either:
            ctx.count("either_" + either)
            return True
        ctx.violation("%s|raised_%s|%s" % (site, type(e).__name__, icls), "selector raised on legal input: %s" % str(e)[:200],
                      case, expected=want, observed=type(e).__name__)
        return False
    return check_selection(ctx, site, icls, case, got, want)


def model_minimizers(vals, window):
    pos = set()
    for i in range(len(vals) - window + 1):
        w = vals[i:i + window]
        pos.add(i + w.index(min(w)))
    return sorted(pos)


def sel_cfg(tier):
    q = tier == "quick"
    return {
        "min": [
            {"n": 2, "k": 2, "models": [None, [0, 2]], "L": 11 if q else 12, "perms": PERMS},
            {"n": 2, "k": 3, "models": [None, [0, 1, 3]], "L": 10 if q else 12, "perms": PERMS},
            {"n": 3, "k": 2, "models": [None], "L": 6 if q else 8, "perms": PERMS},
            {"n": 4, "k": 2, "models": [None], "L": 5 if q else 7, "perms": ("none", "freq_cyc", "random", "neg") if q else PERMS},
        ],
        "windows": [2, 3, 4, 5] if q else [2, 3, 4, 5, 6, 7],
        "minarr": {"N": 4, "len": 7 if q else 9, "perms": ("none", "neg", "random", "freq_ties", "extreme", "freq_zero")},
        "sync": [
            {"n": 2, "ks": [(3, 2), (4, 2), (4, 3)] if q else [(3, 2), (4, 2), (4, 3), (5, 2), (5, 3), (5, 4), (6, 3)],
             "L": 8 if q else 10},
            {"n": 3, "ks": [(3, 2)] if q else [(3, 2), (4, 2), (4, 3)], "L": 5 if q else 6},
            {"n": 4, "ks": [(3, 2)], "L": 5 if q else 6},
        ],
        "sync_perms": ("none", "freq_cyc", "random", "neg"),
        "sync_extreme": {"n": 2, "ks": [(4, 2)], "L": 8 if q else 10},
        "mincode": [
            {"n": 2, "k": 2, "models": [None, [0, 2]], "L": 8 if q else 10},
            {"n": 2, "k": 3, "models": [None], "L": 8 if q else 10},
            {"n": 3, "k": 2, "models": [None], "L": 5 if q else 7},
            {"n": 4, "k": 2, "models": [None], "L": 4 if q else 6},
        ],
        "compression": [1, 1.5, 2, 3, 4, 7, 100, 2.5],
    }


def sel_shards(tier):
    c = sel_cfg(tier)
    out = []
    for g in c["min"]:
        for sp in g["models"]:
            for perm in g["perms"]:
                out.append({"kind": "min", "n": g["n"], "k": g["k"], "sp": sp, "perm": perm, "L": g["L"]})
    for perm in c["minarr"]["perms"]:
        for w in c["windows"]:
            out.append({"kind": "minarr", "N": c["minarr"]["N"], "len": c["minarr"]["len"], "perm": perm, "w": w})
    for g in c["sync"]:
        for k, s in g["ks"]:
            for perm in c["sync_perms"]:
                out.append({"kind": "sync", "n": g["n"], "k": k, "s": s, "perm": perm, "L": g["L"]})
    for k, s in c["sync_extreme"]["ks"]:
        out.append({"kind": "sync", "n": 2, "k": k, "s": s, "perm": "extreme", "L": c["sync_extreme"]["L"]})
    for g in c["mincode"]:
        for sp in g["models"]:
            out.append({"kind": "mincode", "n": g["n"], "k": g["k"], "sp": sp, "L": g["L"]})
    out.append({"kind": "selmisc"})
    return out


# ---- minimizers
def check_min_case(ctx, env, sel, order, case, window, codes, icls):
    km = env.kmers(codes)
    vals = [order[c] for c in km]
    mpos = model_minimizers(vals, window)
    want = [(p, km[p]) for p in mpos]
    either = "short_sequence" if len(codes) < env.span else ("fewer_kmers_than_window" if len(km) < window else None)
    ctx.ev(1, 1 if len(km) > window and 1 < len(want) else 0)
    ctx.outcome((window, tuple(want)))
    ok = sel_call(ctx, "MinimizerSelector.select", icls, case, lambda: sel.select(env.seq(codes)), want, either)
    if ok and len(codes) >= env.span:
        arr = np.array(km, dtype=np.int64)
        ok = sel_call(ctx, "MinimizerSelector.select_from_kmers", icls, case, lambda: sel.select_from_kmers(arr), want, either)
    return ok


def run_min(shard, ctx):
    import biotite.sequence.align as align

    n, k, sp, perm = shard["n"], shard["k"], shard["sp"], shard["perm"]
    env = Env(n, ctx.seed, k, sp)
    order = perm_order(perm, n, k, env.N)
    pobj = perm_impl(perm, align.KmerAlphabet(env.alph, k), n, k, env.N, ctx.seed)
    icls = ("continuous" if sp is None else "spacing_arg") + "+perm_" + perm
    base = {"kind": "min", "n": n, "k": k, "sp": sp, "perm": perm}
    for w in sel_cfg(ctx.tier)["windows"]:
        sel = align.MinimizerSelector(env.kalph, w, pobj)
        pre = json.dumps(dict(base, w=w))[:-1]
        for codes in all_seqs(n, 0, shard["L"]):
            js = pre + ',"seq":%s}' % (list(codes),)
            if not ctx.journal(js):
                continue
            ok = check_min_case(ctx, env, sel, order, json.loads(js) if ctx.viol_total < 3 else js, w, codes, icls)
            if ok and len(ctx.samples) < 1 and len(codes) == shard["L"] and w == 3 and codes[0] == 1:
                ctx.sample(json.loads(js))


def replay_min(case, ctx):
    import biotite.sequence.align as align

    n, k, sp, perm = case["n"], case["k"], case["sp"], case["perm"]
    env = Env(n, ctx.seed, k, sp)
    order = perm_order(perm, n, k, env.N)
    pobj = perm_impl(perm, align.KmerAlphabet(env.alph, k), n, k, env.N, ctx.seed)
    sel = align.MinimizerSelector(env.kalph, case["w"], pobj)
    check_min_case(ctx, env, sel, order, case, case["w"], tuple(case["seq"]),
                   ("continuous" if sp is None else "spacing_arg") + "+perm_" + perm)


def check_minarr_case(ctx, sel, order, case, w, arr, icls):
    vals = [order[c] for c in arr]
    want = [(p, arr[p]) for p in model_minimizers(vals, w)]
    ctx.ev(1, 1 if len(arr) > w and len(want) > 1 else 0)
    ctx.outcome((w, tuple(want)))
    a = np.array(arr, dtype=np.int64)
    return sel_call(ctx, "MinimizerSelector.select_from_kmers", icls, case, lambda: sel.select_from_kmers(a), want,
                    "fewer_kmers_than_window" if len(arr) < w else None)


def run_minarr(shard, ctx):
    import biotite.sequence.align as align

    N, perm, w = shard["N"], shard["perm"], shard["w"]
    env = Env(2, ctx.seed, 2, None)  # N = 4 k-mer codes
    order = perm_order(perm, 2, 2, N)
    sel = align.MinimizerSelector(env.kalph, w, perm_impl(perm, env.kalph, 2, 2, N, ctx.seed))
    icls = "kmer_array+perm_" + perm
    pre = json.dumps({"kind": "minarr", "perm": perm, "w": w})[:-1]
    for arr in all_seqs(N, 0, shard["len"]):
        js = pre + ',"arr":%s}' % (list(arr),)
        if ctx.journal(js):
            check_minarr_case(ctx, sel, order, js, w, arr, icls)


def replay_minarr(case, ctx):
    import biotite.sequence.align as align

    env = Env(2, ctx.seed, 2, None)
    order = perm_order(case["perm"], 2, 2, 4)
    sel = align.MinimizerSelector(env.kalph, case["w"], perm_impl(case["perm"], env.kalph, 2, 2, 4, ctx.seed))
    check_minarr_case(ctx, sel, order, case, case["w"], tuple(case["arr"]), "kmer_array+perm_" + case["perm"])


# ---- syncmers
def offset_sets(w):
    vals = list(range(-w, w))
    out = [(v,) for v in vals]
    out += list(itertools.combinations(vals, 2))
    return out


def relmin_of_kmer(sym, s, sorder, ns):
    """leftmost position of the minimum s-mer inside one k-mer given as symbol list"""
    vals = []
    for i in range(len(sym) - s + 1):
        c = 0
        for x in sym[i:i + s]:
            c = c * ns + x
        vals.append(sorder[c])
    return vals.index(min(vals))


def run_sync(shard, ctx):
    import biotite.sequence.align as align

    n, k, s, perm, L = shard["n"], shard["k"], shard["s"], shard["perm"], shard["L"]
    env = Env(n, ctx.seed, k, None)
    NS = n**s
    sorder = perm_order(perm, n, s, NS)
    salph = align.KmerAlphabet(env.alph, s)
    w = k - s + 1
    seqs = all_seqs(n, 0, L)
    rel_by_code = [relmin_of_kmer(split_code(c, n, k), s, sorder, n) for c in range(env.N)]
    pre_seq = []
    for codes in seqs:
        km = env.kmers(codes)
        rel = [relmin_of_kmer(list(codes[i:i + k]), s, sorder, n) for i in range(len(km))]
        pre_seq.append((codes, km, rel, np.array(km, dtype=np.int64)))
    icls = "perm_" + perm
    base = {"kind": "sync", "n": n, "k": k, "s": s, "perm": perm}
    for offs in offset_sets(w):
        norm = [o + w if o < 0 else o for o in offs]
        case0 = dict(base, offset=list(offs))
        if not ctx.journal(case0):
            continue
        dup = len(set(norm)) != len(norm)
        try:
            pobj = perm_impl(perm, salph, n, s, NS, ctx.seed)
            sel = align.SyncmerSelector(env.alph, k, s, pobj, offset=offs)
            csel = align.CachedSyncmerSelector(env.alph, k, s, perm_impl(perm, salph, n, s, NS, ctx.seed), offset=offs)
        except Exception as e:  # noqa: BLE001
            if dup:
                ctx.count("either_duplicate_offset_refused")
                continue
            ctx.violation("SyncmerSelector.__init__|raised_%s|%s" % (type(e).__name__, icls), str(e)[:200], case0,
                          "selector", type(e).__name__)
            continue
        oset = set(norm)
        # all k-mer codes at once (non-overlapping k-mers)
        want_all = [(c, c) for c in range(env.N) if rel_by_code[c] in oset]
        for nm, so in (("SyncmerSelector", sel), ("CachedSyncmerSelector", csel)):
            sel_call(ctx, nm + ".select_from_kmers", icls + "+all_codes", case0, lambda: so.select_from_kmers(env.allcodes),
                     want_all, None)
        pre = json.dumps(case0)[:-1]
        for codes, km, rel, arr in pre_seq:
            js = pre + ',"seq":%s}' % (list(codes),)
            if not ctx.journal(js):
                continue
            want = [(i, km[i]) for i in range(len(km)) if rel[i] in oset]
            short = "short_sequence" if len(codes) < k else None
            ctx.ev(1, 1 if 0 < len(want) < len(km) else 0)
            ctx.outcome((tuple(norm), tuple(want)))
            sq = env.seq(codes)
            ok = sel_call(ctx, "SyncmerSelector.select", icls, js, lambda: sel.select(sq), want, short)
            ok = ok and sel_call(ctx, "CachedSyncmerSelector.select", icls, js, lambda: csel.select(sq), want, short)
            if ok and not short:
                ok = sel_call(ctx, "SyncmerSelector.select_from_kmers", icls, js, lambda: sel.select_from_kmers(arr), want, None)
                ok = ok and sel_call(ctx, "CachedSyncmerSelector.select_from_kmers", icls, js,
                                     lambda: csel.select_from_kmers(arr), want, None)
            if ok and len(ctx.samples) < 1 and len(offs) == 2 and len(codes) == L and 0 < len(want) < len(km):
                ctx.sample(json.loads(js))


def replay_sync(case, ctx):
    # re-run the one offset set on the one sequence
    import biotite.sequence.align as align

    n, k, s, perm = case["n"], case["k"], case["s"], case["perm"]
    env = Env(n, ctx.seed, k, None)
    NS = n**s
    sorder = perm_order(perm, n, s, NS)
    salph = align.KmerAlphabet(env.alph, s)
    w = k - s + 1
    offs = tuple(case["offset"])
    oset = {o + w if o < 0 else o for o in offs}
    icls = "perm_" + perm
    sel = align.SyncmerSelector(env.alph, k, s, perm_impl(perm, salph, n, s, NS, ctx.seed), offset=offs)
    csel = align.CachedSyncmerSelector(env.alph, k, s, perm_impl(perm, salph, n, s, NS, ctx.seed), offset=offs)
    if "seq" not in case:
        rel_by_code = [relmin_of_kmer(split_code(c, n, k), s, sorder, n) for c in range(env.N)]
        want_all = [(c, c) for c in range(env.N) if rel_by_code[c] in oset]
        for nm, so in (("SyncmerSelector", sel), ("CachedSyncmerSelector", csel)):
            sel_call(ctx, nm + ".select_from_kmers", icls + "+all_codes", case, lambda: so.select_from_kmers(env.allcodes),
                     want_all, None)
        return
    codes = tuple(case["seq"])
    km = env.kmers(codes)
    want = [(i, km[i]) for i in range(len(km)) if relmin_of_kmer(list(codes[i:i + k]), s, sorder, n) in oset]
    short = "short_sequence" if len(codes) < k else None
    sq = env.seq(codes)
    arr = np.array(km, dtype=np.int64)
    sel_call(ctx, "SyncmerSelector.select", icls, case, lambda: sel.select(sq), want, short)
    sel_call(ctx, "CachedSyncmerSelector.select", icls, case, lambda: csel.select(sq), want, short)
    if not short:
        sel_call(ctx, "SyncmerSelector.select_from_kmers", icls, case, lambda: sel.select_from_kmers(arr), want, None)
        sel_call(ctx, "CachedSyncmerSelector.select_from_kmers", icls, case, lambda: csel.select_from_kmers(arr), want, None)


# ---- mincode
def mincode_threshold(perm, N, compression):
    lo, hi = perm_range(perm, N)
    return Fraction(lo) + Fraction(hi - lo + 1) / Fraction(compression)


def check_mincode_case(ctx, env, sel, order, thr, case, codes, icls):
    km = env.kmers(codes)
    want = [(i, c) for i, c in enumerate(km) if order[c] < thr]
    fthr = float(thr)
    if any((order[c] < thr) != (float(order[c]) < fthr) for c in km):
        ctx.count("either_float_rounding_at_threshold")
        return True
    ctx.ev(1, 1 if 0 < len(want) < len(km) else 0)
    ctx.outcome(tuple(want))
    ok = sel_call(ctx, "MincodeSelector.select", icls, case, lambda: sel.select(env.seq(codes)), want,
                  "short_sequence" if len(codes) < env.span else None)
    if len(codes) >= env.span:
        arr = np.array(km, dtype=np.int64)
        ok = sel_call(ctx, "MincodeSelector.select_from_kmers", icls, case, lambda: sel.select_from_kmers(arr), want, None) and ok
    return ok


def run_mincode(shard, ctx):
    import biotite.sequence.align as align

    n, k, sp = shard["n"], shard["k"], shard["sp"]
    env = Env(n, ctx.seed, k, sp)
    base = {"kind": "mincode", "n": n, "k": k, "sp": sp}
    seqs = all_seqs(n, 0, shard["L"]) + [tuple(split_code(c, n, k)) for c in range(env.N)]
    seqs = sorted(set(seqs), key=lambda s: (len(s), s))
    for perm in PERMS:
        order = perm_order(perm, n, k, env.N)
        pobj = perm_impl(perm, align.KmerAlphabet(env.alph, k), n, k, env.N, ctx.seed)
        icls = ("continuous" if sp is None else "spacing_arg") + "+perm_" + perm
        for comp in sel_cfg(ctx.tier)["compression"]:
            sel = align.MincodeSelector(env.kalph, comp, pobj)
            thr = mincode_threshold(perm, env.N, comp)
            pre = json.dumps(dict(base, perm=perm, compression=comp))[:-1]
            for codes in seqs:
                js = pre + ',"seq":%s}' % (list(codes),)
                if ctx.journal(js):
                    ok = check_mincode_case(ctx, env, sel, order, thr, js, codes, icls)
                    if ok and len(ctx.samples) < 1 and comp == 2 and len(codes) == shard["L"] and perm == "random":
                        ctx.sample(json.loads(js))


def replay_mincode(case, ctx):
    import biotite.sequence.align as align

    n, k, sp, perm = case["n"], case["k"], case["sp"], case["perm"]
    env = Env(n, ctx.seed, k, sp)
    order = perm_order(perm, n, k, env.N)
    sel = align.MincodeSelector(env.kalph, case["compression"], perm_impl(perm, align.KmerAlphabet(env.alph, k), n, k, env.N, ctx.seed))
    check_mincode_case(ctx, env, sel, order, mincode_threshold(perm, env.N, case["compression"]), case, tuple(case["seq"]),
                       ("continuous" if sp is None else "spacing_arg") + "+perm_" + perm)


# ---- documented refusals / unspecified constructor arguments of the selectors
def run_selmisc(shard, ctx):
    import biotite.sequence.align as align

    env = Env(2, ctx.seed, 3, None)
    probes = [
        ("FrequencyPermutation|counts_shorter_than_alphabet", lambda: align.FrequencyPermutation(env.kalph, np.zeros(7, dtype=np.int64)), True),
        ("FrequencyPermutation|counts_longer_than_alphabet", lambda: align.FrequencyPermutation(env.kalph, np.zeros(9, dtype=np.int64)), True),
        ("MinimizerSelector|window_below_2", lambda: align.MinimizerSelector(env.kalph, 1), True),
        ("MinimizerSelector|window_0", lambda: align.MinimizerSelector(env.kalph, 0), True),
        ("SyncmerSelector|s_equals_k", lambda: align.SyncmerSelector(env.alph, 3, 3), True),
        ("SyncmerSelector|s_above_k", lambda: align.SyncmerSelector(env.alph, 3, 4), True),
        ("MincodeSelector|compression_below_1", lambda: align.MincodeSelector(env.kalph, 0.5), True),
        ("SyncmerSelector|offset_above_window", lambda: align.SyncmerSelector(env.alph, 3, 2, offset=(2,)), True),
        ("SyncmerSelector|offset_below_minus_window", lambda: align.SyncmerSelector(env.alph, 3, 2, offset=(-3,)), True),
        ("CachedSyncmerSelector|offset_above_window", lambda: align.CachedSyncmerSelector(env.alph, 3, 2, offset=(2,)), True),
        ("SyncmerSelector|s_1", lambda: align.SyncmerSelector(env.alph, 3, 1), False),
        ("KmerAlphabet|k_1", lambda: align.KmerAlphabet(env.alph, 1), True),
        ("KmerAlphabet|spacing_wrong_count", lambda: align.KmerAlphabet(env.alph, 3, "1101001"), True),
        ("KmerAlphabet|spacing_negative", lambda: align.KmerAlphabet(env.alph, 2, [-1, 0]), True),
        ("KmerAlphabet|spacing_duplicate", lambda: align.KmerAlphabet(env.alph, 2, [1, 1]), True),
    ]
    for name, fn, must in probes:
        case = {"kind": "selmisc", "probe": name}
        ctx.ev(1, 1)
        try:
            fn()
            if must:
                ctx.violation("%s|no_error" % name, "documented invalid argument accepted", case, "exception", "returned")
            else:
                ctx.count("either_accepted")
        except Exception as e:  # noqa: BLE001
            ctx.count("refused_documented" if must else "either_refused")
            ctx.outcome((name, type(e).__name__))


def replay_selmisc(case, ctx):
    run_selmisc({}, ctx)


SHARD_SOURCES.append(sel_shards)
RUNNERS.update({"min": run_min, "minarr": run_minarr, "sync": run_sync, "mincode": run_mincode, "selmisc": run_selmisc})
REPLAYERS.update({"min": replay_min, "minarr": replay_minarr, "sync": replay_sync, "mincode": replay_mincode,
                  "selmisc": replay_selmisc})


# ---------------------------------------------------------------------------
# KmerAlphabet.create_kmers directly: spacing argument forms x code dtypes
# ---------------------------------------------------------------------------
FORMS = ("str", "str_star", "str_mixed", "list", "rlist", "array", "tuple")
DTYPES = ("uint8", "uint16", "uint32", "uint64")


def kalph_cfg(tier):
    if tier == "quick":
        return [(2, 2, 6), (2, 3, 7), (3, 2, 4), (4, 2, 4), (3, 3, 4)]
    return [(2, 2, 8), (2, 3, 8), (2, 4, 8), (3, 2, 6), (3, 3, 5), (4, 2, 5), (4, 3, 5), (5, 2, 4)]


def kalph_shards(tier):
    return [{"kind": "kalph", "n": n, "k": k, "L": L} for n, k, L in kalph_cfg(tier)]


def check_kalph_case(ctx, case):
    import biotite.sequence.align as align

    n, k, sp, form, dt = case["n"], case["k"], case["sp"], case["form"], case["dtype"]
    alph, _ = make_alphabet(n, ctx.seed)
    offs = offsets(k, sp)
    ka = align.KmerAlphabet(alph, k, sp_arg(sp, form))
    want_sp = None if sp is None else sorted(sp)
    got_sp = None if ka.spacing is None else ka.spacing.tolist()
    if got_sp != want_sp or ka.k != k or len(ka) != n**k:
        ctx.violation("KmerAlphabet.__init__|wrong_attributes|spacing_form_%s" % form, "spacing / k / len", case,
                      [want_sp, k, n**k], [got_sp, ka.k, len(ka)])
        return
    for codes in case["seqs"]:
        want = model_kmers(codes, n, offs)
        ctx.ev(1, 1 if len(want) > 1 else 0)
        arr = np.array(codes, dtype=dt)
        try:
            got = np.asarray(ka.create_kmers(arr)).tolist()
        except Exception as e:  # noqa: BLE001
            if len(codes) < offs[-1] + 1:
                ctx.count("either_short_sequence")
                continue
            ctx.violation("KmerAlphabet.create_kmers|raised_%s|%s" % (type(e).__name__, "continuous" if sp is None else "spacing_arg"),
                          str(e)[:200], dict(case, seqs=[list(codes)]), want, type(e).__name__)
            return
        ctx.outcome((n, tuple(want)))
        if got != want:
            ctx.violation("KmerAlphabet.create_kmers|wrong_codes|%s" % ("continuous" if sp is None else "spacing_arg"),
                          "k-mer codes differ from sum n^(k-i-1) s_i over the informative positions",
                          dict(case, seqs=[list(codes)]), want, got)
            return
        if len(codes) >= offs[-1] + 1 and ka.kmer_array_length(len(codes)) != len(want):
            ctx.violation("KmerAlphabet.kmer_array_length|wrong_value|%s" % ("continuous" if sp is None else "spacing_arg"),
                          "length of the k-mer array", dict(case, seqs=[list(codes)]), len(want), ka.kmer_array_length(len(codes)))
            return


def run_kalph(shard, ctx):
    n, k, L = shard["n"], shard["k"], shard["L"]
    seqs = [list(s) for s in all_seqs(n, 0, L)]
    for sp in spacing_models(k, 2):
        for form in FORMS if sp is not None else ("str",):
            for dt in DTYPES:
                case = {"kind": "kalph", "n": n, "k": k, "sp": sp, "form": form, "dtype": dt}
                if ctx.journal(case):
                    check_kalph_case(ctx, dict(case, seqs=seqs))
    ctx.sample({"kind": "kalph", "n": n, "k": k, "sp": [0, 2], "form": "rlist", "dtype": "uint16", "seqs": seqs[-1:]})


def replay_kalph(case, ctx):
    if "seqs" not in case:
        case = dict(case, seqs=[list(s) for s in all_seqs(case["n"], 0, 5)])
    check_kalph_case(ctx, case)


# ---------------------------------------------------------------------------
# malformed / boundary arguments, each call in a forked child (E4)
# ---------------------------------------------------------------------------
def _entries(t, N):
    out = []
    for c in range(N):
        for a, b in np.asarray(t[c]).tolist():
            out.append([c, a, b])
    return out


def oor_probes(pal):
    """list of (site, input class, expectation, thunk).  expectation: ("raise",) | ("entries", list) | ("rows", list)
    | ("either_entries", list) | ("value", v).  Thunks build everything themselves (they run in a child)."""
    import biotite.sequence as seq
    import biotite.sequence.align as align

    env = Env(2, pal, 2, None)
    env3 = Env(2, pal, 3, None)
    envs = Env(2, pal, 2, [0, 2])
    N = env.N
    R = (0, 1, 0, 1, 1)
    Q = (0, 1, 1)
    P = []

    def tab(tk, e=env, **kw):
        return build_from_sequences(e, tk, [R], **kw)

    big = [("minus_1", -1), ("minus_N", -N), ("below_minus_N", -N - 1), ("N", N), ("above_N", N + 5),
           ("int32_max", 2**31 - 1), ("int64_max", 2**63 - 1), ("int64_min", -(2**63))]
    for tk in ("K", "B3"):
        nm = cls_name(tk)
        T = table_class(tk)
        kw = nb_kw(tk)
        for cname, v in big:
            cname = "negative" if v < 0 else cname
            P.append((nm + ".__getitem__", "code_" + cname, ("raise_unsafe",), lambda tk=tk, v=v: np.asarray(tab(tk)[v]).tolist()))
            if tk == "K":
                P.append((nm + ".__contains__", "code_" + cname, ("raise_or", False), lambda tk=tk, v=v: bool(v in tab(tk))))
            P.append((nm + ".count", "code_" + cname, ("raise",),
                      lambda tk=tk, v=v: np.asarray(tab(tk).count(np.array([0, v], dtype=np.int64))).tolist()))
            P.append((nm + ".match_kmer_selection", "code_" + cname, ("raise",),
                      lambda tk=tk, v=v: np.asarray(tab(tk).match_kmer_selection(np.array([0, 1], dtype=np.uint32),
                                                                                 np.array([1, v], dtype=np.int64))).tolist()))
            P.append((nm + ".from_kmers", "code_" + cname, ("raise",),
                      lambda T=T, kw=kw, v=v: _entries(T.from_kmers(env.kalph, [np.array([1, v], dtype=np.int64)], **kw), N)))
            P.append((nm + ".from_kmer_selection", "code_" + cname, ("raise",),
                      lambda T=T, kw=kw, v=v: _entries(T.from_kmer_selection(env.kalph, [np.array([0, 1], dtype=np.uint32)],
                                                                             [np.array([1, v], dtype=np.int64)], **kw), N)))
        if tk == "K":
            for cname, v in big:
                P.append((nm + ".from_positions", "code_" + cname, ("raise",),
                          lambda T=T, v=v: _entries(T.from_positions(env.kalph, {v: np.array([[0, 0]], dtype=np.uint32)}), N)))
            P.append((nm + ".from_positions", "three_columns", ("raise",),
                      lambda T=T: _entries(T.from_positions(env.kalph, {1: np.array([[0, 0, 0]])}), N)))
            P.append((nm + ".from_positions", "one_dimensional", ("raise",),
                      lambda T=T: _entries(T.from_positions(env.kalph, {1: np.array([0, 0])}), N)))
            for cname, v in (("negative", -1), ("2^32", 2**32)):
                P.append((nm + ".from_positions", "position_outside_uint32", ("raise",),
                          lambda T=T, v=v: _entries(T.from_positions(env.kalph, {1: np.array([[0, v]], dtype=np.int64)}), N)))
                P.append((nm + ".from_positions", "ref_id_outside_uint32", ("raise",),
                          lambda T=T, v=v: _entries(T.from_positions(env.kalph, {1: np.array([[v, 0]], dtype=np.int64)}), N)))
        for cname, v in (("negative", -1), ("2^32", 2**32)):
            P.append((nm + ".from_kmer_selection", "position_outside_uint32", ("raise",),
                      lambda T=T, kw=kw, v=v: _entries(T.from_kmer_selection(env.kalph, [np.array([v], dtype=np.int64)],
                                                                             [np.array([1], dtype=np.int64)], **kw), N)))
            P.append((nm + ".match_kmer_selection", "position_outside_uint32", ("raise",),
                      lambda tk=tk, v=v: np.asarray(tab(tk).match_kmer_selection(np.array([v], dtype=np.int64),
                                                                                 np.array([1], dtype=np.int64))).tolist()))
            P.append((nm + ".from_sequences", "ref_id_outside_uint32", ("raise",), lambda tk=tk, v=v: _entries(tab(tk, ids=[v]), N)))
            P.append((nm + ".from_kmers", "ref_id_outside_uint32", ("raise",),
                      lambda T=T, kw=kw, v=v: _entries(T.from_kmers(env.kalph, [np.array([1], dtype=np.int64)], ref_ids=[v], **kw), N)))
        P.append((nm + ".from_kmer_selection", "positions_length_mismatch", ("raise",),
                  lambda T=T, kw=kw: _entries(T.from_kmer_selection(env.kalph, [np.array([0, 1], dtype=np.uint32)],
                                                                    [np.array([1], dtype=np.int64)], **kw), N)))
        P.append((nm + ".from_kmer_selection", "list_length_mismatch", ("raise",),
                  lambda T=T, kw=kw: _entries(T.from_kmer_selection(env.kalph, [np.array([0], dtype=np.uint32)] * 2,
                                                                    [np.array([1], dtype=np.int64)], **kw), N)))
        P.append((nm + ".match_kmer_selection", "positions_length_mismatch", ("raise",),
                  lambda tk=tk: np.asarray(tab(tk).match_kmer_selection(np.array([0, 1], dtype=np.uint32),
                                                                        np.array([1], dtype=np.int64))).tolist()))
        # masks: wrong length / dtype / type (documented errors)
        for cname, mk in (("mask_too_short", np.zeros(len(R) - 1, dtype=bool)), ("mask_too_long", np.zeros(len(R) + 1, dtype=bool)),
                          ("mask_kmer_length", np.zeros(len(R) - 1, dtype=bool)), ("mask_int_dtype", np.zeros(len(R), dtype=np.int64)),
                          ("mask_list", [False] * len(R))):
            P.append((nm + ".from_sequences", cname, ("raise",),
                      lambda T=T, kw=kw, mk=mk: _entries(T.from_sequences(2, [env.seq(R)], ignore_masks=[mk], **kw), N)))
            qm = mk[:len(Q) + (len(mk) - len(R))] if not isinstance(mk, list) else mk[:len(Q)]
            if cname != "mask_kmer_length":
                P.append((nm + ".match", cname, ("raise",),
                          lambda tk=tk, qm=qm: np.asarray(tab(tk).match(env.seq(Q), ignore_mask=qm)).tolist()))
        P.append((nm + ".from_sequences", "masks_list_length_mismatch", ("raise",),
                  lambda T=T, kw=kw: _entries(T.from_sequences(2, [env.seq(R)], ignore_masks=[None, None], **kw), N)))
        P.append((nm + ".from_sequences", "ref_ids_length_mismatch", ("raise",),
                  lambda T=T, kw=kw: _entries(T.from_sequences(2, [env.seq(R)], ref_ids=[1, 2], **kw), N)))
        P.append((nm + ".from_kmers", "mask_too_short", ("raise",),
                  lambda T=T, kw=kw: _entries(T.from_kmers(env.kalph, [np.array([0, 1, 2], dtype=np.int64)],
                                                           masks=[np.array([True, False])], **kw), N)))
        P.append((nm + ".from_kmers", "mask_too_long", ("raise",),
                  lambda T=T, kw=kw: _entries(T.from_kmers(env.kalph, [np.array([0, 1, 2], dtype=np.int64)],
                                                           masks=[np.array([True, False, True, True])], **kw), N)))
        P.append((nm + ".from_kmers", "not_a_kmer_alphabet", ("raise",),
                  lambda T=T, kw=kw: _entries(T.from_kmers(env.alph, [np.array([0, 1], dtype=np.int64)], **kw), N)))
        # legal masks in unusual memory layouts: the model result is demanded
        want = [[c, 0, p] for p, c in env.entries(R, (1,))[0]]
        wantq = [list(x) for x in expected_triples(env.entries(Q, (0,))[0], {c: [(0, p) for p, cc in enumerate(env.kmers(R)) if cc == c]
                                                                          for c in range(N)})]

        def strided(bits):
            b = np.zeros(2 * len(bits), dtype=bool)
            b[::2] = bits
            return b[::2]

        def reversed_view(bits):
            return np.array(bits[::-1], dtype=bool)[::-1]

        def readonly(bits):
            a = np.array(bits, dtype=bool)
            a.setflags(write=False)
            return a

        def column(bits):
            a = np.zeros((len(bits), 2), dtype=bool)
            a[:, 0] = bits
            return a[:, 0]

        rbits = [i == 1 for i in range(len(R))]
        qbits = [i == 0 for i in range(len(Q))]
        for lname, mkf in (("noncontiguous_mask", strided), ("noncontiguous_mask", reversed_view), ("readonly_mask", readonly),
                           ("noncontiguous_mask", column)):
            P.append((nm + ".from_sequences", lname, ("entries", want),
                      lambda T=T, kw=kw, mkf=mkf: _entries(T.from_sequences(2, [env.seq(R)], ignore_masks=[mkf(rbits)], **kw), N)))
            P.append((nm + ".match", lname, ("rows", wantq),
                      lambda tk=tk, mkf=mkf: np.asarray(tab(tk).match(env.seq(Q), ignore_mask=mkf(qbits))).tolist()))
            keepbits = [True, False, True, True]
            wk = [[c, 0, p] for p, c in enumerate(env.kmers(R)) if keepbits[p]]
            P.append((nm + ".from_kmers", lname, ("entries", wk),
                      lambda T=T, kw=kw, mkf=mkf: _entries(T.from_kmers(env.kalph, [np.array(env.kmers(R), dtype=np.int64)],
                                                                        masks=[mkf(keepbits)], **kw), N)))
        # alphabets
        P.append((nm + ".match", "query_alphabet_not_extended", ("raise",),
                  lambda tk=tk: np.asarray(tab(tk).match(Env(3, pal, 2, None).seq((0, 1, 2)))).tolist()))
        P.append((nm + ".from_sequences", "alphabet_smaller_than_sequence", ("raise",),
                  lambda T=T, kw=kw: _entries(T.from_sequences(2, [Env(3, pal, 2, None).seq((0, 1, 2))], alphabet=env.alph, **kw), N)))
        P.append((nm + ".from_sequences", "symbol_code_outside_alphabet", ("raise",),
                  lambda T=T, kw=kw: _entries(T.from_sequences(2, [env.mk((0, 2, 1))], **kw), N)))
        P.append((nm + ".match", "symbol_code_outside_alphabet", ("raise",),
                  lambda tk=tk: np.asarray(tab(tk).match(env.mk((0, 2, 1)))).tolist()))
        P.append((nm + ".from_sequences", "no_sequences", ("raise_or_entries", []),
                  lambda T=T, kw=kw: _entries(T.from_sequences(2, [], **kw), N)))
        # merging / matching incompatible tables (documented refusals)
        P.append((nm + ".from_tables", "different_k", ("raise",), lambda T=T, tk=tk: len(T.from_tables([tab(tk), tab(tk, env3)]))))
        P.append((nm + ".from_tables", "different_spacing", ("raise",), lambda T=T, tk=tk: len(T.from_tables([tab(tk), tab(tk, envs)]))))
        P.append((nm + ".from_tables", "empty_list", ("raise",), lambda T=T: len(T.from_tables([]))))
        P.append((nm + ".from_tables", "other_table_class", ("raise",),
                  lambda T=T, tk=tk: len(T.from_tables([tab(tk), tab("B3" if tk == "K" else "K")]))))
        P.append((nm + ".match_table", "different_k", ("raise",), lambda tk=tk: np.asarray(tab(tk).match_table(tab(tk, env3))).tolist()))
        P.append((nm + ".match_table", "different_spacing", ("raise",),
                  lambda tk=tk: np.asarray(tab(tk).match_table(tab(tk, envs))).tolist()))
        P.append((nm + ".match_table", "other_table_class", ("raise",),
                  lambda tk=tk: np.asarray(tab(tk).match_table(tab("B3" if tk == "K" else "K"))).tolist()))
        P.append((nm + ".match_table", "different_alphabet", ("raise",),
                  lambda tk=tk: np.asarray(tab(tk).match_table(build_from_sequences(Env(3, pal, 2, None), tk, [(0, 1, 2)]))).tolist()))
    B = align.BucketKmerTable
    P.append(("BucketKmerTable.from_tables", "different_n_buckets", ("raise",), lambda: len(B.from_tables([tab("B3"), tab("B2")]))))
    P.append(("BucketKmerTable.match_table", "different_n_buckets", ("raise",),
              lambda: np.asarray(tab("B3").match_table(tab("B2"))).tolist()))
    for cname, v in (("zero", 0), ("negative", -1)):
        P.append(("BucketKmerTable.from_sequences", "n_buckets_" + cname, ("raise",),
                  lambda v=v: _entries(B.from_sequences(2, [env.seq(R)], n_buckets=v), N)))
        P.append(("BucketKmerTable.from_kmers", "n_buckets_" + cname, ("raise",),
                  lambda v=v: _entries(B.from_kmers(env.kalph, [np.array(env.kmers(R), dtype=np.int64)], n_buckets=v), N)))
        P.append(("BucketKmerTable.from_kmer_selection", "n_buckets_" + cname, ("raise",),
                  lambda v=v: _entries(B.from_kmer_selection(env.kalph, [np.array([0], dtype=np.uint32)],
                                                             [np.array([1], dtype=np.int64)], n_buckets=v), N)))
    P.append(("BucketKmerTable.from_sequences", "n_buckets_zero", ("raise",),
              lambda: _entries(B.from_sequences(2, [env.seq(R)], ignore_masks=[np.ones(len(R), dtype=bool)], n_buckets=0), N)))
    _ = seq
    return P


def judge_probe(ctx, site, cls, expect, res, case):
    """res: result tuple of ctx.isolated()"""
    ctx.ev(1, 1)
    kind = res[0]
    ctx.outcome((site, cls, kind, res[1] if kind == "exc" else None))
    if expect[0] == "raise_unsafe":
        # an index that is used without a range test: whether the stray read ends in a signal or in a value
        # depends on the heap; both are the same failure
        if kind == "exc":
            ctx.count("refused")
        else:
            ctx.violation("%s|unchecked_index|%s" % (site, cls), "the index reaches the pointer array unchecked (%r)" % (res,),
                          case, expected="exception", observed=list(res))
        return
    if kind in ("signal", "timeout", "exit"):
        ctx.violation("%s|process_%s|%s" % (site, kind, cls), "the call terminated the interpreter (%r)" % (res,), case,
                      expected="exception" if expect[0].startswith("raise") else expect[1], observed=list(res))
        return
    if kind == "exc":
        if expect[0] in ("raise", "raise_or", "raise_or_entries"):
            ctx.count("refused")
        else:
            ctx.violation("%s|raised_%s|%s" % (site, res[1], cls), "legal input refused: %s" % res[2][:200], case,
                          expected=expect[1], observed=res[1])
        return
    val = res[1]
    if expect[0] == "raise":
        ctx.violation("%s|no_error|%s" % (site, cls), "invalid argument accepted without an error", case,
                      expected="exception", observed=val)
    elif expect[0] in ("raise_or", "raise_or_entries"):
        if (sorted(val) if isinstance(val, list) else val) != expect[1]:
            ctx.violation("%s|wrong_value|%s" % (site, cls), "neither an error nor the model value", case, expect[1], val)
        else:
            ctx.count("either_accepted")
    else:
        if sorted(val) != sorted(expect[1]):
            ctx.violation("%s|wrong_rows|%s" % (site, cls), "result differs from the reference entries", case, expect[1], val)
        else:
            ctx.count("accepted")


def run_oor(shard, ctx):
    probes = oor_probes(ctx.seed)
    idx = [i for i in range(len(probes)) if i % shard["parts"] == shard["part"]]
    if not ctx.journal({"kind": "oor", "batch": shard["part"]}):
        return

    def one(i):
        return probes[i][3]()

    res = ctx.isolated_batch(one, idx, timeout=120, per_item_timeout=30)
    for i, r in zip(idx, res):
        site, cls, expect, _ = probes[i]
        judge_probe(ctx, site, cls, expect, r, {"kind": "oor", "probe": i, "site": site, "cls": cls})
    ctx.sample({"kind": "oor", "probe": idx[0], "site": probes[idx[0]][0], "cls": probes[idx[0]][1]})


def replay_oor(case, ctx):
    if "probe" not in case:
        return
    probes = oor_probes(ctx.seed)
    site, cls, expect, fn = probes[case["probe"]]
    judge_probe(ctx, site, cls, expect, ctx.isolated(fn, timeout=30), case)


def oor_shards(tier):
    return [{"kind": "oor", "part": p, "parts": 4} for p in range(4)]


SHARD_SOURCES.extend([kalph_shards, oor_shards])
RUNNERS.update({"kalph": run_kalph, "oor": run_oor})
REPLAYERS.update({"kalph": replay_kalph, "oor": replay_oor})


# ---------------------------------------------------------------------------
# alias: objects must not share (or modify) the caller's mutable arguments
# ---------------------------------------------------------------------------
# Each scenario builds an object from freshly made arguments, snapshots everything observable, mutates ONE of the
# caller's arguments in place and re-observes: the snapshot must not move and must equal the snapshot of a twin built
# from private copies; the call itself must leave every argument as it was passed.  Arguments that the unchanged
# tree already shares with the caller are listed in ALIAS_UNSPECIFIED (counted, not reported).
ALIAS_REFS = [(0, 1, 1, 0, 1, 0, 0, 0), (1, 1, 0, 0, 1, 0)]
ALIAS_UNSPECIFIED = {
    # (site, argument): why
}


def _safe(fn):
    try:
        return fn()
    except Exception as e:  # noqa: BLE001
        return "raised " + type(e).__name__


def _tolist(x):
    if isinstance(x, np.ndarray):
        return x.tolist()
    if isinstance(x, (tuple, list)):
        return [_tolist(e) for e in x]
    if isinstance(x, (np.generic,)):
        return x.item()
    return x


def snap_alphabet(ka):
    sp = ka.spacing
    return {"spacing": None if sp is None else sp.tolist(), "k": int(ka.k), "len": len(ka),
            "kmer_array_length": [_safe(lambda L=L: int(ka.kmer_array_length(L))) for L in range(0, 9)],
            "create_kmers": [_safe(lambda s=s: ka.create_kmers(np.array(s, dtype=np.uint8)).tolist()) for s in ALIAS_REFS]}


class AliasEnv:
    """fixed query set shared by the table scenarios of one shard"""

    def __init__(self, pal):
        self.alph, self.mk = make_alphabet(2, pal)
        self.qcodes = all_seqs(2, 0, 5)
        self.queries = [self.mk(s) for s in self.qcodes]
        self.qmask = mask_array(5, (1,))


def snap_table(t, ae):
    ka = t.kmer_alphabet
    N = len(ka)
    out = {"alphabet": snap_alphabet(ka), "len": len(t), "k": int(t.k), "n_buckets": int(getattr(t, "n_buckets", 0)),
           "entries": _safe(lambda: _entries(t, N)), "get_kmers": _safe(lambda: t.get_kmers().tolist()),
           "count": _safe(lambda: t.count(np.arange(N)).tolist()),
           "match": [_safe(lambda q=q: t.match(q).tolist()) for q in ae.queries],
           "match_masked": _safe(lambda: t.match(ae.queries[-1], ignore_mask=ae.qmask.copy()).tolist()),
           "match_kmer_selection": _safe(lambda: t.match_kmer_selection(np.arange(N, dtype=np.uint32), np.arange(N)).tolist())}
    return out


def table_outputs(t):
    """arrays handed out by the object: zeroing them must not change the object"""
    ka = t.kmer_alphabet
    outs = [t.get_kmers(), t.count(np.arange(len(ka)))]
    outs += [t[c] for c in range(len(ka))]
    if ka.spacing is not None:
        outs.append(ka.spacing)
    return outs


def _arg_class(x):
    if isinstance(x, np.ndarray):
        return str(x.dtype)
    return type(x).__name__


def _numeric_list(x):
    return isinstance(x, list) and all(isinstance(e, (int, bool, np.integer)) for e in x)


def alias_mutations(x):
    if isinstance(x, np.ndarray):
        n = x.shape[0] if x.ndim else 0
        if not n:
            return []
        idx = list(range(n)) if n <= 4 else [0, n // 2, n - 1]
        return ["elem%d" % i for i in idx] + ["reverse", "sort", "zeros"]
    if isinstance(x, list):
        if not x:
            return []
        if _numeric_list(x):
            idx = list(range(len(x))) if len(x) <= 4 else [0, len(x) // 2, len(x) - 1]
            return ["elem%d" % i for i in idx] + ["reverse", "sort", "zeros", "clear"]
        return ["reverse", "pop", "clear"]
    if isinstance(x, dict):
        return ["popfirst", "clear"] if x else []
    return []


def alias_mutate(x, m):
    if isinstance(x, np.ndarray):
        if m.startswith("elem"):
            i = int(m[4:])
            if x.dtype == np.bool_:
                x[i] = ~x[i]
            else:
                x[i] += 1
        elif m == "reverse":
            x[...] = x[::-1].copy()
        elif m == "sort":
            x.sort(axis=0)
        elif m == "zeros":
            x[...] = 0
        return
    if isinstance(x, list):
        if m.startswith("elem"):
            i = int(m[4:])
            x[i] = (not x[i]) if isinstance(x[i], bool) else x[i] + 1
        elif m == "reverse":
            x.reverse()
        elif m == "sort":
            x.sort()
        elif m == "zeros":
            x[:] = [0] * len(x)
        elif m == "pop":
            x.pop()
        elif m == "clear":
            del x[:]
        return
    if isinstance(x, dict):
        if m == "popfirst":
            x.pop(next(iter(x)))
        else:
            x.clear()


def alias_same(a, b):
    if isinstance(a, np.ndarray) or isinstance(b, np.ndarray):
        return (isinstance(a, np.ndarray) and isinstance(b, np.ndarray) and a.dtype == b.dtype and a.shape == b.shape
                and bool(np.array_equal(a, b)) and a.flags.writeable == b.flags.writeable)
    if isinstance(a, (list, tuple)):
        return type(a) is type(b) and len(a) == len(b) and all(alias_same(x, y) for x, y in zip(a, b))
    if isinstance(a, dict):
        return isinstance(b, dict) and list(a) == list(b) and all(alias_same(a[k], b[k]) for k in a)
    if hasattr(a, "code") and hasattr(b, "code"):
        return alias_same(a.code, b.code)
    if a is None or isinstance(a, (int, float, str, bool)):
        return a == b
    return True  # immutable library objects (tables, alphabets)


def alias_repr(x):
    if isinstance(x, np.ndarray):
        return {"dtype": str(x.dtype), "values": x.tolist()}
    if isinstance(x, (list, tuple)):
        return [alias_repr(e) for e in x]
    if isinstance(x, dict):
        return {str(k): alias_repr(v) for k, v in x.items()}
    if hasattr(x, "code"):
        return {"code": x.code.tolist()}
    return repr(x)[:60]


def spacing_value(sp, order, form):
    o = sorted(sp)
    if order == "reversed":
        o = o[::-1]
    if form == "list":
        return list(o)
    return np.array(o, dtype=form)


SPACING_FORMS = ("int64", "int32", "uint8", "list")


def alias_scenarios(tier):
    """-> list of JSON-able scenario descriptors"""
    out = []
    models2, models3 = spacing_models(2, 2)[1:], spacing_models(3, 2)[1:]
    # 1. KmerAlphabet(spacing=X): every model x order x form
    for k, models in ((2, models2), (3, models3)):
        for sp in models:
            for order in ("sorted", "reversed"):
                for form in SPACING_FORMS:
                    out.append({"sc": "KmerAlphabet", "k": k, "sp": sp, "order": order, "form": form})
    # 2. table constructors taking a spacing model: every model of k=2, listed models of k=3
    some3 = [[0, 1, 3], [1, 2, 4]] if tier == "quick" else models3
    for tk in ("K", "B3"):
        for k, models in ((2, models2), (3, some3)):
            for sp in models:
                for order in ("sorted", "reversed"):
                    for form in ("int64", "int32", "list") if tier == "quick" else SPACING_FORMS:
                        out.append({"sc": "from_sequences", "tk": tk, "k": k, "sp": sp, "order": order, "form": form, "args": ["spacing"]})
                        out.append({"sc": "from_kmers", "tk": tk, "k": k, "sp": sp, "order": order, "form": form, "args": ["spacing"]})
        # 3. every other mutable argument, continuous and one spaced model
        for sp in (None, [0, 2]):
            base = {"tk": tk, "k": 2, "sp": sp, "order": "sorted", "form": "int64"}
            out.append(dict(base, sc="from_sequences", args=["ref_ids", "ignore_masks", "mask0", "sequences", "code0", "outputs"]))
            out.append(dict(base, sc="from_kmers", args=["kmers", "kmers0", "ref_ids", "masks", "mask0", "outputs"]))
            out.append(dict(base, sc="from_kmer_selection", args=["positions", "pos0", "kmers", "kmers0", "ref_ids", "outputs"]))
            if tk == "K":
                for dt in ("uint32", "int64"):
                    out.append(dict(base, sc="from_positions", dtype=dt, args=["kmer_positions", "posarr", "outputs"]))
            out.append(dict(base, sc="from_tables", args=["tables", "outputs"]))
            for call in ("match", "match_kmer_selection", "count", "match_table"):
                out.append(dict(base, sc="call_" + call))
    # 4. alphabet / selectors / permutations / similarity rule
    for sp in (None, [0, 2]):
        out.append({"sc": "call_create_kmers", "k": 2, "sp": sp})
    for name in ("MinimizerSelector", "SyncmerSelector", "CachedSyncmerSelector", "MincodeSelector"):
        for perm in ("none", "freq_cyc", "random"):
            out.append({"sc": "call_select_from_kmers", "selector": name, "perm": perm})
            out.append({"sc": "call_select", "selector": name, "perm": perm})
        # degenerate: every k-mer is selected (the result could be the argument itself)
        out.append({"sc": "call_select_from_kmers", "selector": name, "perm": "none", "all": 1})
    for tk in ("K", "B3"):
        out.append({"sc": "from_tables", "tk": tk, "k": 2, "sp": None, "order": "sorted", "form": "int64", "single": 1, "args": ["tables", "outputs"]})
    for perm in ("freq_identity",):
        out.append({"sc": "call_permute", "perm": perm})
    for name in ("SyncmerSelector", "CachedSyncmerSelector"):
        for form in ("int64", "int32", "list"):
            out.append({"sc": "selector_offset", "selector": name, "form": form})
    for form in ("int64", "int32", "list"):
        out.append({"sc": "FrequencyPermutation", "form": form})
    for perm in ("freq_cyc", "random"):
        out.append({"sc": "call_permute", "perm": perm})
    for form in ("int32", "int64"):
        out.append({"sc": "ScoreThresholdRule", "form": form})
    return out


def alias_build(desc, ae, pal):
    """-> (site, fresh() -> args, build(args) -> object, observe(object) -> snapshot, outputs(object) -> arrays | None)"""
    import biotite.sequence.align as align

    sc = desc["sc"]
    alph, mk = ae.alph, ae.mk
    k = desc.get("k", 2)
    sp = desc.get("sp")
    tk = desc.get("tk", "K")
    T = table_class(tk)
    kw = nb_kw(tk)
    cname = cls_name(tk)

    def spacing():
        return None if sp is None else spacing_value(sp, desc.get("order", "sorted"), desc.get("form", "int64"))

    def kalph_of(a):
        return align.KmerAlphabet(alph, k, a.get("spacing"))

    offs = offsets(k, sp)
    kmodel = [model_kmers(s, 2, offs) for s in ALIAS_REFS]

    if sc == "KmerAlphabet":
        return ("KmerAlphabet.__init__", lambda: {"spacing": spacing()}, kalph_of, snap_alphabet, None)

    if sc == "from_sequences":
        def fresh():
            seqs = [mk(s) for s in ALIAS_REFS]
            masks = [mask_array(len(ALIAS_REFS[0]), (2,)), None]
            return {"spacing": spacing(), "ref_ids": np.array([7, 3], dtype=np.int64), "ignore_masks": masks, "mask0": masks[0],
                    "sequences": seqs, "code0": seqs[0].code}

        def build(a):
            return T.from_sequences(k, a["sequences"], ref_ids=a["ref_ids"], ignore_masks=a["ignore_masks"],
                                    **({"spacing": a["spacing"]} if sp is not None else {}), **kw)
        return (cname + ".from_sequences", fresh, build, lambda t: snap_table(t, ae), table_outputs)

    if sc == "from_kmers":
        def fresh():
            km = [np.array(x, dtype=np.int64) for x in kmodel]
            masks = [np.array([i != 1 for i in range(len(kmodel[0]))]), None]
            return {"spacing": spacing(), "kmers": km, "kmers0": km[0], "ref_ids": np.array([7, 3], dtype=np.int64),
                    "masks": masks, "mask0": masks[0]}

        def build(a):
            return T.from_kmers(kalph_of(a), a["kmers"], ref_ids=a["ref_ids"], masks=a["masks"], **kw)
        return (cname + ".from_kmers", fresh, build, lambda t: snap_table(t, ae), table_outputs)

    if sc == "from_kmer_selection":
        def fresh():
            pos = [np.arange(len(x), dtype=np.uint32)[::2].copy() for x in kmodel]
            km = [np.array(x, dtype=np.int64)[::2].copy() for x in kmodel]
            return {"spacing": spacing(), "positions": pos, "pos0": pos[0], "kmers": km, "kmers0": km[0],
                    "ref_ids": np.array([7, 3], dtype=np.int64)}

        def build(a):
            return T.from_kmer_selection(kalph_of(a), a["positions"], a["kmers"], ref_ids=a["ref_ids"], **kw)
        return (cname + ".from_kmer_selection", fresh, build, lambda t: snap_table(t, ae), table_outputs)

    if sc == "from_positions":
        def fresh():
            d = {}
            for j, x in enumerate(kmodel):
                for p, c in enumerate(x):
                    d.setdefault(c, []).append((j + 3, p))
            d = {c: np.array(v, dtype=desc["dtype"]) for c, v in sorted(d.items())}
            first = next(iter(d))
            return {"spacing": spacing(), "kmer_positions": d, "posarr": d[first]}

        def build(a):
            return T.from_positions(kalph_of(a), a["kmer_positions"])
        return (cname + ".from_positions", fresh, build, lambda t: snap_table(t, ae), table_outputs)

    if sc == "from_tables":
        def fresh():
            ka = align.KmerAlphabet(alph, k, spacing())
            tabs = [T.from_kmers(ka, [np.array(x, dtype=np.int64)], ref_ids=[j + 3], **kw) for j, x in enumerate(kmodel)]
            return {"tables": tabs[:1] if desc.get("single") else tabs}

        return (cname + ".from_tables", fresh, lambda a: T.from_tables(a["tables"]), lambda t: snap_table(t, ae), table_outputs)

    if sc.startswith("call_") and sc[5:] in ("match", "match_kmer_selection", "count", "match_table"):
        ka0 = align.KmerAlphabet(alph, k, spacing())
        table = T.from_kmers(ka0, [np.array(x, dtype=np.int64) for x in kmodel], **kw)
        call = sc[5:]
        if call == "match":
            def fresh():
                q = mk(ALIAS_REFS[1] + ALIAS_REFS[0])
                return {"code": q.code, "sequence": q, "ignore_mask": mask_array(len(q.code), (3,))}
            return (cname + ".match", fresh, lambda a: table.match(a["sequence"], ignore_mask=a["ignore_mask"]), _tolist, None)
        if call == "match_kmer_selection":
            def fresh():
                return {"positions": np.arange(len(kmodel[1]), dtype=np.uint32), "kmers": np.array(kmodel[1], dtype=np.int64)}
            return (cname + ".match_kmer_selection", fresh, lambda a: table.match_kmer_selection(a["positions"], a["kmers"]), _tolist, None)
        if call == "count":
            return (cname + ".count", lambda: {"kmers": np.array(kmodel[1], dtype=np.int64)}, lambda a: table.count(a["kmers"]), _tolist, None)
        other = T.from_kmers(ka0, [np.array(kmodel[1], dtype=np.int64)], ref_ids=[9], **kw)
        return (cname + ".match_table", lambda: {}, lambda a: table.match_table(other), _tolist, None)

    if sc == "call_create_kmers":
        ka0 = align.KmerAlphabet(alph, k, spacing())
        return ("KmerAlphabet.create_kmers", lambda: {"seq_code": np.array(ALIAS_REFS[0], dtype=np.uint8)},
                lambda a: ka0.create_kmers(a["seq_code"]), _tolist, None)

    # ---- selectors / permutations / similarity rule (alphabet 2, k = 3, s = 2)
    ka3 = align.KmerAlphabet(alph, 3)
    ka2 = align.KmerAlphabet(alph, 2)
    long_seq = ALIAS_REFS[0] + ALIAS_REFS[1]
    km3 = model_kmers(long_seq, 2, [0, 1, 2])

    def selector(name, perm, offset=(0, -1)):
        every = desc.get("all")
        if name == "MinimizerSelector":
            return align.MinimizerSelector(ka3, 3 if not every else 2, perm_impl(perm, ka3, 2, 3, 8, pal))
        if name == "MincodeSelector":
            return align.MincodeSelector(ka3, 2 if not every else 1, perm_impl(perm, ka3, 2, 3, 8, pal))
        cls = align.SyncmerSelector if name == "SyncmerSelector" else align.CachedSyncmerSelector
        return cls(alph, 3, 2, perm_impl(perm, ka2, 2, 2, 4, pal), offset=offset if not every else (0, 1))

    if sc == "call_select_from_kmers":
        sel = selector(desc["selector"], desc["perm"])
        if desc.get("all") and desc["selector"] == "MinimizerSelector":
            # strictly descending codes: every window has a new minimizer, i.e. all k-mers but the first are selected
            return (desc["selector"] + ".select_from_kmers", lambda: {"kmers": np.array([7, 6, 5, 4, 3, 2, 1, 0], dtype=np.int64)},
                    lambda a: sel.select_from_kmers(a["kmers"]), _tolist, None)
        return (desc["selector"] + ".select_from_kmers", lambda: {"kmers": np.array(km3, dtype=np.int64)},
                lambda a: sel.select_from_kmers(a["kmers"]), _tolist, None)
    if sc == "call_select":
        sel = selector(desc["selector"], desc["perm"])

        def fresh():
            q = mk(long_seq)
            return {"sequence": q, "code": q.code}
        return (desc["selector"] + ".select", fresh, lambda a: sel.select(a["sequence"]), _tolist, None)
    if sc == "selector_offset":
        def fresh():
            o = [0, -1]
            return {"offset": o if desc["form"] == "list" else np.array(o, dtype=desc["form"])}

        def obs(sel):
            return [_tolist(sel.select(mk(long_seq))), _tolist(sel.select_from_kmers(np.array(km3, dtype=np.int64)))]
        return (desc["selector"] + ".__init__", fresh, lambda a: selector(desc["selector"], "none", a["offset"]), obs, None)
    if sc == "FrequencyPermutation":
        def fresh():
            c = [(x * 3 + 1) % 8 for x in range(8)]
            return {"counts": c if desc["form"] == "list" else np.array(c, dtype=desc["form"])}

        def obs(p):
            return [p.permute(np.arange(8)).tolist(), int(p.min), int(p.max)]
        return ("FrequencyPermutation.__init__", fresh, lambda a: align.FrequencyPermutation(ka3, a["counts"]), obs, None)
    if sc == "call_permute":
        p = (align.FrequencyPermutation(ka3, np.arange(8)) if desc["perm"] == "freq_identity"  # the rank table is the identity
             else perm_impl(desc["perm"], ka3, 2, 3, 8, pal))
        return (type(p).__name__ + ".permute", lambda: {"kmers": np.array(km3, dtype=np.int64)}, lambda a: p.permute(a["kmers"]),
                _tolist, None)
    if sc == "ScoreThresholdRule":
        def fresh():
            return {"matrix": np.array(sim_matrix("offdiag", 2), dtype=desc["form"])}

        def build(a):
            return align.ScoreThresholdRule(align.SubstitutionMatrix(alph, alph, a["matrix"]), 0)

        def obs(rule):
            return [rule.similar_kmers(ka2, c).tolist() for c in range(4)]
        return ("ScoreThresholdRule.__init__", fresh, build, obs, None)
    raise ValueError(sc)


def check_alias_case(ctx, ae, desc, arg, mut):
    """one scenario, one argument, one in-place mutation (arg == 'outputs': zero every array the object hands out)"""
    site, fresh, build, observe, outputs = alias_build(desc, ae, ctx.seed)
    case = dict(desc, kind="alias", arg=arg, mut=mut)
    args, private, pristine = fresh(), fresh(), fresh()
    try:
        obj = build(args)
        twin = build(private)
    except Exception as e:  # noqa: BLE001
        ctx.violation("%s|raised_%s|alias_scenario" % (site, type(e).__name__), "legal construction raised: %s" % str(e)[:200],
                      case, "object", type(e).__name__)
        return
    # 1. the call left its arguments alone
    for name in args:
        if not alias_same(args[name], pristine[name]):
            key = (site, name)
            if key in ALIAS_UNSPECIFIED:
                ctx.count("unspecified_argument_modified")
                continue
            ctx.violation("%s|argument_modified|%s:%s" % (site, name, _arg_class(pristine[name])),
                          "the call changed the caller's argument in place", case, alias_repr(pristine[name]), alias_repr(args[name]))
            return
    before = observe(obj)
    tw = observe(twin)
    if before != tw:
        ctx.violation("%s|differs_from_twin|%s" % (site, arg), "two objects built from equal arguments differ", case, tw, before)
        return
    # 2. mutate the caller's object, re-observe
    if arg == "outputs":
        outs = outputs(obj)
        for o in outs:
            try:
                o[...] = 0
            except ValueError:
                pass  # read-only output: fine
        changed = bool(outs)
        cls = "returned_arrays"
    else:
        x = args[arg]
        alias_mutate(x, mut)
        changed = not alias_same(x, pristine[arg])
        cls = "%s:%s" % (arg, _arg_class(pristine[arg]))
    after = observe(obj)
    ctx.ev(1, 1 if changed else 0)
    ctx.outcome((site, json.dumps(before, sort_keys=True, default=str)[:2000]))
    if after != before:
        if (site, arg) in ALIAS_UNSPECIFIED:
            ctx.count("unspecified_shared_argument")
            return
        diff = [k for k in before if before[k] != after[k]] if isinstance(before, dict) else "result"
        ctx.violation("%s|shares_argument|%s" % (site, cls), "an in-place change of the caller's %s after the call changed the "
                      "object (views: %s)" % (arg, diff), case,
                      expected={k: before[k] for k in diff} if isinstance(before, dict) else before,
                      observed={k: after[k] for k in diff} if isinstance(before, dict) else after)
        return
    if len(ctx.samples) < 2 and changed and arg == "spacing":
        ctx.sample(case)


def alias_case_list(desc, ae, pal):
    """-> [(arg, mutation)] of one scenario"""
    _, fresh, _, _, outputs = alias_build(desc, ae, pal)
    args = fresh()
    names = desc.get("args") or list(args)
    out = []
    for name in names:
        if name == "outputs":
            if outputs is not None:
                out.append(("outputs", "zeros"))
            continue
        for m in alias_mutations(args[name]):
            out.append((name, m))
    if not out:
        out.append(("none", "none"))
    return out


def alias_shards(tier):
    n = 8
    return [{"kind": "alias", "part": p, "parts": n} for p in range(n)]


def run_alias(shard, ctx):
    ae = AliasEnv(ctx.seed)
    for i, desc in enumerate(alias_scenarios(ctx.tier)):
        if i % shard["parts"] != shard["part"]:
            continue
        for arg, mut in alias_case_list(desc, ae, ctx.seed):
            case = dict(desc, kind="alias", arg=arg, mut=mut)
            if not ctx.journal(case):
                continue
            if arg == "none":
                # a call without mutable arguments: still compare with the twin
                arg, mut = "outputs", "zeros"
                site, fresh, build, observe, outputs = alias_build(desc, ae, ctx.seed)
                a, b = observe(build(fresh())), observe(build(fresh()))
                ctx.ev(1, 0)
                if a != b:
                    ctx.violation("%s|differs_from_twin|none" % site, "two equal calls differ", case, a, b)
                continue
            check_alias_case(ctx, ae, desc, arg, mut)


def replay_alias(case, ctx):
    ae = AliasEnv(ctx.seed)
    desc = {k: v for k, v in case.items() if k not in ("kind", "arg", "mut")}
    if case["arg"] == "none":
        return
    check_alias_case(ctx, ae, desc, case["arg"], case["mut"])


SHARD_SOURCES.append(alias_shards)
RUNNERS["alias"] = run_alias
REPLAYERS["alias"] = replay_alias


# ---------------------------------------------------------------------------
# size: straddle every capacity / width switch (audit dimension 1, 5, 6)
# ---------------------------------------------------------------------------
GROW = (1, 2, 3, 4, 5, 7, 8, 9, 15, 16, 17, 31, 32, 33, 63, 64, 65)
MANY = (1, 2, 9, 10, 11, 99, 100, 101, 255, 256, 257)


def size_cfg(tier):
    q = tier == "quick"
    return {
        "growth": {"r": GROW + (255, 256, 257), "q": GROW, "kinds": ["K", "B3"],
                   "note": "reference a^(r+1) (r entries of one k-mer) x query a^(q+1) and (ab)^q: r*q rows straddle every "
                           "doubling of the result buffer (initial capacity 1) up to 4096 and 255/256/257 entries per k-mer"},
        "entries_per_kmer": [255, 256, 257] + ([] if q else [65535, 65536, 65537]),
        "n_references": list(MANY) + ([] if q else [65535, 65536, 65537]),
        "n_buckets": list(range(1, 21)) + [31, 32, 33],
        "default_bucket_lengths": list(range(3, 45)),
        "big_k": [[4, 15], [4, 16], [4, 17], [2, 31], [2, 32], [2, 33], [2, 62], [2, 63], [2, 64], [24, 7], [24, 8]],
        "alphabet_sizes": [255, 256, 257],
        "long_windows": [2, 3, 7, 8, 9, 63, 64, 65, 255, 256, 257],
        "long_sync": [[9, 3], [12, 4]],
    }


def size_shards(tier):
    out = [{"kind": "size", "sub": "growth", "tk": tk, "rule": r} for tk in ("K", "B3") for r in (0, 1)]
    out += [{"kind": "size", "sub": s} for s in ("entries", "manyrefs", "buckets", "defbuckets", "bigk", "bigalph", "longsel")]
    return out


def sparse_content(ctx, t, name, req, site, icls, case, absent=()):
    """content check for tables whose k-mer alphabet is too large to walk: every present code, listed absent codes"""
    want = {}
    for c, a, b in req:
        want.setdefault(c, []).append((a, b))
    present = sorted(want)

    def bad(view, exp, got):
        ctx.violation("%s.%s|%s:wrong_value|%s" % (name, site, view, icls), "%s of a table with a large k-mer alphabet" % view,
                      case, expected=exp, observed=got)
        return False
    gk = np.asarray(t.get_kmers()).tolist()
    if gk != present:
        return bad("get_kmers", present[:20], gk[:20])
    cnt = np.asarray(t.count(np.array(present + list(absent), dtype=np.int64))).tolist()
    if cnt != [len(want[c]) for c in present] + [0] * len(absent):
        return bad("count", [len(want[c]) for c in present][:20], cnt[:20])
    for c in present:
        r = rows(np.asarray(t[c]), 2)
        if r is None or sorted(r) != sorted(want[c]):
            return bad("getitem", sorted(want[c])[:20], (r or [])[:20])
    for c in absent:
        if len(t[c]):
            return bad("getitem", [], np.asarray(t[c]).tolist()[:20])
    return True


def run_size(shard, ctx):
    import biotite.sequence as seq
    import biotite.sequence.align as align

    cfg = size_cfg(ctx.tier)
    sub = shard["sub"]
    base = {"kind": "size", "sub": sub}
    if sub == "growth":
        tk, use_rule = shard["tk"], shard["rule"]
        env = Env(2, ctx.seed, 2, None)
        rule, M = make_rule(env, "ident", 0, 0)
        ss = sim_sets(M, 2, 2, 0)
        qcodes = [(0,) * (q + 1) for q in cfg["growth"]["q"]] + [(0, 1) * q for q in cfg["growth"]["q"] if q > 1]
        qs = [prep_query(env, tk, c, ()) for c in qcodes]
        for r in cfg["growth"]["r"]:
            rc = (0,) * (r + 1) + (1, 0)
            case = dict(base, tk=tk, rule=use_rule, r=r)
            if not ctx.journal(case):
                continue
            t, obs = build_ref(ctx, env, tk, rc, (), "continuous+many_rows", lambda: case)
            if obs is None:
                continue
            for q in qs:
                c2 = dict(case, q=list(q.codes))
                if use_rule:
                    sim_ops(ctx, env, tk, t, obs, q, rule, ss, lambda: c2)
                else:
                    match_ops(ctx, env, tk, t, obs, q, "continuous+many_rows", lambda: c2)
        ctx.sample(dict(base, tk=tk, rule=use_rule, r=65, q=[0] * 66))
        return
    if sub == "entries":
        for tk in ("K", "B3", "Bdef"):
            env = Env(2, ctx.seed, 2, None)
            for r in cfg["entries_per_kmer"]:
                case = dict(base, tk=tk, r=r)
                if not ctx.journal(case):
                    continue
                rc = (0,) * (r + 1) + (1,)
                ctx.ev(1, 1)
                t, obs = build_ref(ctx, env, tk, rc, (), "continuous+entries_per_kmer_%d" % (256 if r < 1000 else 65536), lambda: case)
                if obs is None:
                    continue
                p = __import__("pickle").loads(__import__("pickle").dumps(t))
                check_content(ctx, env, "Bdef" if tk != "K" else "K", p, [(0, 0, i) for i in range(r)] + [(1, 0, r)], [],
                              "pickle", "entries_per_kmer", case)
                m = T_from_tables(tk, [t, t])
                check_content(ctx, env, "Bdef" if tk != "K" else "K", m, ([(0, 0, i) for i in range(r)] + [(1, 0, r)]) * 2, [],
                              "from_tables", "entries_per_kmer", case)
        return
    if sub == "manyrefs":
        pool = [(0, 1, 1, 0), (1, 1, 1), (0, 0, 1, 0, 1), (1, 0)]
        for tk in ("K", "B3", "Bdef"):
            env = Env(2, ctx.seed, 2, None)
            T = table_class(tk)
            qs = [prep_query(env, tk if tk != "Bdef" else "B3", c, (), with_table=False) for c in all_seqs(2, 2, 3)]
            for m in cfg["n_references"]:
                for ids in ("default", "offset", "descending"):
                    case = dict(base, tk=tk, m=m, ids=ids)
                    if not ctx.journal(case):
                        continue
                    ctx.ev(1, 1)
                    rid = list(range(m)) if ids == "default" else ([1000 + 7 * i for i in range(m)] if ids == "offset" else list(range(m, 0, -1)))
                    seqs = [pool[i % 4] for i in range(m)]
                    kw = dict(nb_kw(tk))
                    if ids != "default":
                        kw["ref_ids"] = rid if ids == "offset" else np.array(rid)
                    t = T.from_sequences(2, [env.seq(s) for s in seqs], **kw)
                    req = [(c, rid[j], p) for j, s in enumerate(seqs) for p, c in enumerate(env.kmers(s))]
                    obs = check_content(ctx, env, "Bdef" if tk != "K" else "K", t, req, [], "from_sequences", "many_references", case)
                    if obs is None:
                        continue
                    for q in qs:
                        match_ops(ctx, env, tk, t, obs, q, "many_references", lambda: dict(case, q=list(q.codes)), counts=False)
                    if m <= 257 and ids == "offset":
                        subs = [T.from_sequences(2, [env.seq(s)], ref_ids=[rid[j]], **({"n_buckets": t.n_buckets} if tk != "K" else {}))
                                for j, s in enumerate(seqs)]
                        check_content(ctx, env, "Bdef" if tk != "K" else "K", T.from_tables(subs), req, [], "from_tables",
                                      "many_tables", case)
        ctx.sample(dict(base, tk="K", m=257, ids="offset"))
        return
    if sub == "buckets":
        env = Env(4, ctx.seed, 2, None)
        refs = [(0, 1, 2, 3, 0, 2), (3, 3, 3, 1), (2, 1, 0)]
        for nb in cfg["n_buckets"]:
            tk = "B%d" % nb
            case = dict(base, tk=tk)
            if not ctx.journal(case):
                continue
            ctx.ev(1, 1)
            t = build_from_sequences(env, tk, refs)
            req = [(c, j, p) for j, s in enumerate(refs) for p, c in enumerate(env.kmers(s))]
            obs = check_content(ctx, env, tk, t, req, [], "from_sequences", "n_buckets_around_alphabet_size", case)
            if obs is None:
                continue
            for qc in all_seqs(4, 2, 3):
                q = prep_query(env, tk, qc, ())
                match_ops(ctx, env, tk, t, obs, q, "n_buckets_around_alphabet_size", lambda: dict(case, q=list(qc)), counts=False)
        return
    if sub == "defbuckets":
        env = Env(4, ctx.seed, 3, None)
        cyc = (0, 1, 2, 3, 3, 2, 0, 0, 1, 3, 1, 1, 2, 2, 0, 3, 0, 2, 1, 0)
        seen = set()
        for L in cfg["default_bucket_lengths"]:
            case = dict(base, L=L)
            if not ctx.journal(case):
                continue
            ctx.ev(1, 1)
            rc = tuple(cyc[i % len(cyc)] for i in range(L))
            t = build_from_sequences(env, "Bdef", [rc])
            seen.add(int(t.n_buckets))
            req = [(c, 0, p) for p, c in enumerate(env.kmers(rc))]
            obs = check_content(ctx, env, "Bdef", t, req, [], "from_sequences", "default_n_buckets", case)
            if obs is None:
                continue
            qc = rc[::-1] + rc[:5]
            q = prep_query(env, "B%d" % t.n_buckets, qc, ())
            match_ops(ctx, env, "Bdef", t, obs, q, "default_n_buckets", lambda: dict(case, q=list(qc)), counts=False)
        ctx.count("distinct_default_bucket_counts", len(seen))
        return
    if sub == "bigk":
        import pickle

        for n, k in cfg["big_k"]:
            case = dict(base, n=n, k=k)
            if not ctx.journal(case):
                continue
            ctx.ev(1, 1)
            if n == 24:
                alph = seq.ProteinSequence.alphabet
                n = len(alph)
                mk = lambda codes: _seq_of(seq.ProteinSequence(), codes)  # noqa: E731
            else:
                alph, mk = make_alphabet(n, ctx.seed)
            top = n - 1
            refs = [tuple([top] * k + [0, top, 1 % n, top]), tuple([1 % n] + [top] * k + [0])]
            offs = list(range(k))
            km = [model_kmers(s, n, offs) for s in refs]
            req = [(c, j, p) for j, x in enumerate(km) for p, c in enumerate(x)]
            icls = "kmer_codes_%s" % ("below_2^32" if n**k <= 2**32 else ("below_2^63" if n**k < 2**63 else "above_int64"))
            either = n**k >= 2**63
            try:
                t = align.BucketKmerTable.from_sequences(k, [mk(s) for s in refs])
                ka = t.kmer_alphabet
                got_km = [ka.create_kmers(mk(s).code).tolist() for s in refs]
            except Exception as e:  # noqa: BLE001
                if either:
                    ctx.count("either_alphabet_above_int64_refused")
                else:
                    ctx.violation("BucketKmerTable.from_sequences|raised_%s|%s" % (type(e).__name__, icls), str(e)[:200], case,
                                  "table", type(e).__name__)
                continue
            if got_km != km:
                ctx.violation("KmerAlphabet.create_kmers|wrong_codes|%s" % icls, "k-mer codes of a large k-mer alphabet", case, km, got_km)
                continue
            absent = [0, 1, n**k - 2 if n**k - 2 not in {c for c, _, _ in req} else 2]
            variants = [("from_sequences", t), ("pickle", pickle.loads(pickle.dumps(t))),
                        ("from_kmers", align.BucketKmerTable.from_kmers(ka, [np.array(x, dtype=np.int64) for x in km])),
                        ("from_tables", align.BucketKmerTable.from_tables(
                            [align.BucketKmerTable.from_sequences(k, [mk(s)], ref_ids=[j], n_buckets=t.n_buckets) for j, s in enumerate(refs)]))]
            for site, tt in variants:
                if not sparse_content(ctx, tt, "BucketKmerTable", req, site, icls, case, absent):
                    break
                want = [(p, a, b) for p, c in enumerate(km[1]) for (cc, a, b) in req if cc == c]
                r = rows(np.asarray(tt.match(mk(refs[1]))), 3)
                if cmp_multiset(r or [], want) is not None:
                    ctx.violation("BucketKmerTable.match|wrong_rows|%s" % icls, "match on a large k-mer alphabet", case, want, r)
                    break
                r = rows(np.asarray(tt.match_table(t)), 4)
                want4 = [(a, b, a2, b2) for (c, a, b) in req for (c2, a2, b2) in req if c == c2]
                if cmp_multiset(r or [], want4) is not None:
                    ctx.violation("BucketKmerTable.match_table|wrong_rows|%s" % icls, "match_table on a large k-mer alphabet", case,
                                  want4[:20], (r or [])[:20])
                    break
        return
    if sub == "bigalph":
        for n in cfg["alphabet_sizes"]:
            alph = seq.Alphabet(list(range(n)))
            for tk in ("K", "B3", "B257"):
                case = dict(base, n=n, tk=tk)
                if not ctx.journal(case):
                    continue
                ctx.ev(1, 1)

                def mk(codes, alph=alph):
                    return seq.GeneralSequence(alph, list(codes))
                refs = [(n - 1, n - 1, 0, n - 2, n - 1, n - 1), (0, n - 1, n - 1)]
                km = [model_kmers(s, n, [0, 1]) for s in refs]
                req = [(c, j, p) for j, x in enumerate(km) for p, c in enumerate(x)]
                t = table_class(tk).from_sequences(2, [mk(s) for s in refs], **nb_kw(tk))
                if not sparse_content(ctx, t, cls_name(tk), req, "from_sequences", "alphabet_size_around_256", case, [0, 1, n * n - 2]):
                    continue
                qc = (n - 1, n - 1, n - 1, 0)
                want = [(p, a, b) for p, c in enumerate(model_kmers(qc, n, [0, 1])) for (cc, a, b) in req if cc == c]
                r = rows(np.asarray(t.match(mk(qc))), 3)
                if cmp_multiset(r or [], want) is not None:
                    ctx.violation("%s.match|wrong_rows|alphabet_size_around_256" % cls_name(tk), "match with a sequence code dtype "
                                  "switch", case, want, r)
        return
    if sub == "longsel":
        db = debruijn(2, 10)
        longs = [db, db[::-1], tuple((i * i // 7 + i // 3) % 2 for i in range(700))]
        env = Env(2, ctx.seed, 3, None)
        for perm in ("none", "random", "freq_cyc"):
            order = perm_order(perm, 2, 3, 8)
            pobj = perm_impl(perm, env.kalph, 2, 3, 8, ctx.seed)
            for w in cfg["long_windows"]:
                sel = align.MinimizerSelector(env.kalph, w, pobj)
                for li, codes in enumerate(longs):
                    case = dict(base, sel="min", perm=perm, w=w, seq=li)
                    if ctx.journal(case):
                        check_min_case(ctx, env, sel, order, case, w, codes, "long_sequence+perm_" + perm)
        for k, s in cfg["long_sync"]:
            envk = Env(2, ctx.seed, k, None)
            sorder = perm_order("random", 2, s, 2**s)
            salph = align.KmerAlphabet(envk.alph, s)
            for offs in ((0,), (0, -1), (2,)):
                sel = align.SyncmerSelector(envk.alph, k, s, perm_impl("random", salph, 2, s, 2**s, ctx.seed), offset=offs)
                csel = align.CachedSyncmerSelector(envk.alph, k, s, perm_impl("random", salph, 2, s, 2**s, ctx.seed), offset=offs)
                w = k - s + 1
                oset = {o + w if o < 0 else o for o in offs}
                for li, codes in enumerate(longs):
                    case = dict(base, sel="sync", k=k, s=s, offset=list(offs), seq=li)
                    if not ctx.journal(case):
                        continue
                    km = envk.kmers(codes)
                    want = [(i, km[i]) for i in range(len(km)) if relmin_of_kmer(list(codes[i:i + k]), s, sorder, 2) in oset]
                    ctx.ev(1, 1)
                    sq = envk.seq(codes)
                    sel_call(ctx, "SyncmerSelector.select", "long_sequence", case, lambda: sel.select(sq), want, None)
                    sel_call(ctx, "CachedSyncmerSelector.select", "long_sequence", case, lambda: csel.select(sq), want, None)
        return
    raise ValueError(sub)


def T_from_tables(tk, tables):
    return table_class(tk).from_tables(tables)


def _seq_of(s, codes):
    s.code = np.array(codes, dtype=np.uint8)
    return s


def replay_size(case, ctx):
    shard = {"kind": "size", "sub": case["sub"], "tk": case.get("tk", "K"), "rule": case.get("rule", 0)}
    run_size(shard, ctx)


SHARD_SOURCES.append(size_shards)
RUNNERS["size"] = run_size
REPLAYERS["size"] = replay_size


# ---------------------------------------------------------------------------
# reuse: a second operation on the same object behaves like on a fresh object (audit dimensions 2, 8, 9)
# ---------------------------------------------------------------------------
def _res(fn):
    try:
        return _tolist(fn())
    except Exception as e:  # noqa: BLE001
        return "raised " + type(e).__name__


def reuse_objects(pal):
    """-> {name: (make() -> object, [(op name, fn(object) -> result)], snapshot(object))}; every op list also holds refused
    calls; results are compared by value"""
    import copy
    import pickle

    import biotite.sequence.align as align
    from biotite.sequence.align.buckets import bucket_number

    alph, mk = make_alphabet(2, pal)
    alph3, mk3 = make_alphabet(3, pal)
    ae = AliasEnv(pal)
    out = {}
    q1, q2, qs = mk((0, 1, 1, 0, 1)), mk((1, 1, 1, 0, 0, 0, 1)), mk((1,))
    q3 = mk3((0, 1, 2))
    ka2, ka3 = align.KmerAlphabet(alph, 2), align.KmerAlphabet(alph, 3)
    ruleA, _ = make_rule(Env(2, pal, 2, None), "ident", 0, 0)
    ruleB, _ = make_rule(Env(2, pal, 2, None), "offdiag", 0, 1)
    rule3, _ = make_rule(Env(3, pal, 2, None), "ident", 0, 0)
    for tk in ("K", "B3"):
        for sp in (None, [0, 2]):
            T = table_class(tk)
            kw = nb_kw(tk)
            spkw = {"spacing": sp_arg(sp, "str")} if sp else {}

            def make(T=T, kw=kw, spkw=spkw):
                return T.from_sequences(2, [mk(s) for s in ALIAS_REFS], ref_ids=[4, 9], **spkw, **kw)
            other = T.from_sequences(2, [q2], ref_ids=[1], **spkw, **kw)
            otherk = T.from_sequences(3, [q2], **kw)
            m5 = mask_array(5, (2,))
            N = 4
            ops = [
                ("match_q1", lambda t: t.match(q1)), ("match_q2", lambda t: t.match(q2)), ("match_short", lambda t: t.match(qs)),
                ("match_masked", lambda t: t.match(q1, ignore_mask=m5.copy())),
                ("match_bad_mask", lambda t: t.match(q1, ignore_mask=np.zeros(3, dtype=bool))),
                ("match_other_alphabet", lambda t: t.match(q3)),
                ("match_ruleA", lambda t: t.match(q1, similarity_rule=ruleA)), ("match_ruleB", lambda t: t.match(q1, similarity_rule=ruleB)),
                ("match_rule_wrong_alphabet", lambda t: t.match(q1, similarity_rule=rule3)),
                ("mks", lambda t: t.match_kmer_selection(np.array([5, 6, 7], dtype=np.uint32), np.array([1, 0, 3]))),
                ("mks_bad_code", lambda t: t.match_kmer_selection(np.array([5], dtype=np.uint32), np.array([N]))),
                ("mks_length_mismatch", lambda t: t.match_kmer_selection(np.array([5, 6], dtype=np.uint32), np.array([1]))),
                ("match_table", lambda t: t.match_table(other)), ("match_table_self", lambda t: t.match_table(t)),
                ("match_table_rule", lambda t: t.match_table(other, similarity_rule=ruleB)),
                ("match_table_other_k", lambda t: t.match_table(otherk)),
                ("count", lambda t: t.count(np.arange(N))), ("count_bad", lambda t: t.count(np.array([0, N]))),
                ("get_kmers", lambda t: t.get_kmers()), ("getitem", lambda t: t[1]), ("getitem_N", lambda t: t[N]),
                ("getitem_negative", lambda t: t[-1]),
                ("pickle", lambda t: _entries(pickle.loads(pickle.dumps(t)), N)), ("deepcopy", lambda t: _entries(copy.deepcopy(t), N)),
                ("merge_self", lambda t: _entries(T.from_tables([t, t]), N)), ("merge_other_k", lambda t: T.from_tables([t, otherk])),
                ("str", lambda t: str(t)), ("eq_other", lambda t: t == other),
            ]
            out["%s_%s" % (cls_name(tk), "spaced" if sp else "continuous")] = (make, ops, lambda t: snap_table(t, ae))
    long_seq = ALIAS_REFS[0] + ALIAS_REFS[1]
    seqA, seqB = mk(long_seq), mk(long_seq[::-1] + (1, 1, 0))
    kmA = np.array(model_kmers(long_seq, 2, [0, 1, 2]), dtype=np.int64)
    kmB = kmA[::-1].copy()
    for perm in ("none", "freq_cyc", "random"):
        makers = {
            "MinimizerSelector": lambda perm=perm: align.MinimizerSelector(ka3, 3, perm_impl(perm, ka3, 2, 3, 8, pal)),
            "MincodeSelector": lambda perm=perm: align.MincodeSelector(ka3, 2, perm_impl(perm, ka3, 2, 3, 8, pal)),
            "SyncmerSelector": lambda perm=perm: align.SyncmerSelector(alph, 3, 2, perm_impl(perm, ka2, 2, 2, 4, pal), offset=(0, -1)),
            "CachedSyncmerSelector": lambda perm=perm: align.CachedSyncmerSelector(alph, 3, 2, perm_impl(perm, ka2, 2, 2, 4, pal), offset=(0, -1)),
        }
        for name, mkr in makers.items():
            ops = [("select_A", lambda s: s.select(seqA)), ("select_B", lambda s: s.select(seqB)), ("select_short", lambda s: s.select(qs)),
                   ("select_other_alphabet", lambda s: s.select(q3)), ("select_nocheck", lambda s: s.select(seqA, alphabet_check=False)),
                   ("from_kmers_A", lambda s: s.select_from_kmers(kmA.copy())), ("from_kmers_B", lambda s: s.select_from_kmers(kmB.copy())),
                   ("from_kmers_one", lambda s: s.select_from_kmers(np.array([5]))),
                   ("pickle", lambda s: pickle.loads(pickle.dumps(s)).select(seqA) if perm != "none" or True else None)]
            out["%s_%s" % (name, perm)] = (mkr, ops, lambda s: [_res(lambda: s.select(seqA)), _res(lambda: s.select_from_kmers(kmB.copy()))])
    for perm in ("freq_cyc", "freq_table", "random"):
        ops = [("permute_A", lambda p: p.permute(kmA.copy())), ("permute_B", lambda p: p.permute(kmB.copy())),
               ("permute_empty", lambda p: p.permute(np.zeros(0, dtype=np.int64))), ("min_max", lambda p: [int(p.min), int(p.max)]),
               ("permute_bad", lambda p: p.permute(np.array([99])) if perm != "random" else "n/a")]
        out["Permutation_%s" % perm] = (lambda perm=perm: perm_impl(perm, ka3, 2, 3, 8, pal), ops, lambda p: _res(lambda: p.permute(np.arange(8))))
    ka23 = align.KmerAlphabet(alph3, 2)
    ops = [("similar_k2", lambda r: [r.similar_kmers(ka2, c) for c in range(4)]), ("similar_k3", lambda r: [r.similar_kmers(ka3, c) for c in range(8)]),
           ("similar_other_alphabet", lambda r: r.similar_kmers(ka23, 0)), ("similar_bad_code", lambda r: r.similar_kmers(ka2, 4)),
           ("similar_spaced", lambda r: r.similar_kmers(align.KmerAlphabet(alph, 2, "101"), 2))]
    for mname in MATRICES:
        out["ScoreThresholdRule_" + mname] = (lambda mname=mname: make_rule(Env(2, pal, 2, None), mname, 0, 0)[0], ops,
                                              lambda r: [_res(lambda: r.similar_kmers(ka2, c)) for c in range(4)])
    for sp in (None, "101"):
        ops = [("create_u8", lambda a: a.create_kmers(np.array(long_seq, dtype=np.uint8))),
               ("create_u16", lambda a: a.create_kmers(np.array(long_seq[::-1], dtype=np.uint16))),
               ("create_u64", lambda a: a.create_kmers(np.array(long_seq, dtype=np.uint64))),
               ("create_short", lambda a: a.create_kmers(np.array([1], dtype=np.uint8))),
               ("create_bad_code", lambda a: a.create_kmers(np.array([0, 1, 2, 1, 0], dtype=np.uint8))),
               ("kmer_array_length", lambda a: [int(a.kmer_array_length(L)) for L in range(3, 9)]),
               ("split_fuse", lambda a: int(a.fuse(a.split(3)))), ("split_bad", lambda a: a.split(99)),
               ("encode_decode", lambda a: a.encode(a.decode(2))), ("spacing", lambda a: a.spacing),
               ("pickle", lambda a: snap_alphabet(pickle.loads(pickle.dumps(a)))), ("eq", lambda a: a == align.KmerAlphabet(alph, 2, sp))]
        out["KmerAlphabet_%s" % ("spaced" if sp else "continuous")] = (lambda sp=sp: align.KmerAlphabet(alph, 2, sp), ops, snap_alphabet)
    # module-level state: the default bucket count (buckets.bucket_number caches its prime table)
    kbig = np.arange(20000, dtype=np.int64) % 64
    ka43 = align.KmerAlphabet(make_alphabet(4, pal)[0], 3)

    class Mod:  # stands for the module: "fresh" cannot be had without a new interpreter, so twins are built in another order
        pass
    ops = [("default_small", lambda m: int(align.BucketKmerTable.from_kmers(ka43, [kbig[:9]]).n_buckets)),
           ("default_large", lambda m: int(align.BucketKmerTable.from_kmers(ka43, [kbig]).n_buckets)),
           ("default_from_sequences", lambda m: int(align.BucketKmerTable.from_sequences(2, [mk(ALIAS_REFS[0])]).n_buckets)),
           ("bucket_number", lambda m: [int(bucket_number(n)) for n in (0, 1, 2, 3, 4, 8, 9, 10, 13, 14, 100, 10**6)]),
           ("bucket_number_load", lambda m: [int(bucket_number(n, 0.5)) for n in (1, 5, 6, 50)]),
           ("bucket_number_too_large", lambda m: bucket_number(10**30)),
           ("equal_twice", lambda m: align.BucketKmerTable.from_kmers(ka43, [kbig[:50]]) == align.BucketKmerTable.from_kmers(ka43, [kbig[:50]]))]
    out["default_bucket_count"] = (Mod, ops, lambda m: [int(bucket_number(n)) for n in range(0, 40)])
    return out


def reuse_shards(tier):
    return [{"kind": "reuse", "part": p, "parts": 6} for p in range(6)]


def check_reuse_case(ctx, objs, oname, a, b):
    make, ops, snap = objs[oname]
    opd = dict(ops)
    case = {"kind": "reuse", "object": oname, "first": a, "second": b}
    fresh = make()
    want_b = _res(lambda: opd[b](fresh))
    want_snap = snap(make())
    obj = make()
    ra = _res(lambda: opd[a](obj))
    rb = _res(lambda: opd[b](obj))
    refused = isinstance(ra, str) and ra.startswith("raised")
    ctx.ev(1, 1 if a != b else 0)
    ctx.count("reuse_after_refused_call" if refused else "reuse_after_successful_call")
    ctx.outcome((oname, b, json.dumps(want_b, default=str)[:500]))
    cls = "after_refused_call" if refused else "after_successful_call"
    site = oname.split("_")[0] if not oname.startswith("default") else "buckets"
    if rb != want_b:
        ctx.violation("%s.%s|differs_from_fresh_object|%s" % (site, b, cls), "the second operation on an object gives another result "
                      "than on a fresh object (first operation: %s)" % a, case, want_b, rb)
        return
    got_snap = snap(obj)
    if got_snap != want_snap:
        ctx.violation("%s.%s|object_changed|%s" % (site, a if not refused else a, cls), "the object's observation changed through "
                      "operations that do not modify it", case, want_snap, got_snap)


def run_reuse(shard, ctx):
    objs = reuse_objects(ctx.seed)
    i = 0
    for oname in objs:
        names = [n for n, _ in objs[oname][1]]
        for a in names:
            for b in names:
                i += 1
                if i % shard["parts"] != shard["part"]:
                    continue
                case = {"kind": "reuse", "object": oname, "first": a, "second": b}
                if ctx.journal(case):
                    check_reuse_case(ctx, objs, oname, a, b)
                    if len(ctx.samples) < 1 and a == "match_short" and b == "match_ruleB":
                        ctx.sample(case)


def replay_reuse(case, ctx):
    check_reuse_case(ctx, reuse_objects(ctx.seed), case["object"], case["first"], case["second"])


SHARD_SOURCES.append(reuse_shards)
RUNNERS["reuse"] = run_reuse
REPLAYERS["reuse"] = replay_reuse


# ---------------------------------------------------------------------------
# flavour: the same values in another array flavour give the same result (audit dimensions 4, 5)
# ---------------------------------------------------------------------------
LAYOUTS = ("strided", "negative_stride", "readonly", "column_view", "subclass", "fortran_2d", "strided_rows",
           "strided_readonly", "negative_stride_readonly_subclass")
OTHER_TYPES = ("int8", "int16", "int32", "int64", "uint8", "uint16", "uint32", "uint64", "intp", "list", "tuple", "range")


class _Sub(np.ndarray):
    pass


def flavoured(base, flav):
    """`base` (contiguous ndarray of the documented dtype) in another flavour; None when not applicable"""
    b = np.asarray(base)
    if flav == "strided":
        if b.ndim != 1:
            return None
        big = np.zeros(2 * len(b), dtype=b.dtype)
        big[::2] = b
        return big[::2]
    if flav == "negative_stride":
        if b.ndim != 1:
            return None
        return b[::-1].copy()[::-1]
    if flav in ("strided_readonly", "negative_stride_readonly_subclass"):
        a = flavoured(b, "strided" if flav == "strided_readonly" else "negative_stride")
        if a is None:
            return None
        if flav != "strided_readonly":
            a = a.view(_Sub)
        a.setflags(write=False)
        return a
    if flav == "readonly":
        a = b.copy()
        a.setflags(write=False)
        return a
    if flav == "column_view":
        if b.ndim != 1:
            return None
        big = np.zeros((len(b), 3), dtype=b.dtype)
        big[:, 1] = b
        return big[:, 1]
    if flav == "subclass":
        return b.copy().view(_Sub)
    if flav == "fortran_2d":
        return np.asfortranarray(b) if b.ndim == 2 else None
    if flav == "strided_rows":
        if b.ndim != 2:
            return None
        big = np.zeros((2 * b.shape[0], b.shape[1]), dtype=b.dtype)
        big[::2] = b
        return big[::2]
    if flav in ("list", "tuple"):
        return b.tolist() if flav == "list" else (tuple(b.tolist()) if b.ndim == 1 else tuple(map(tuple, b.tolist())))
    if flav == "range":
        if b.ndim == 1 and len(b) and b.tolist() == list(range(int(b[0]), int(b[0]) + len(b))):
            return range(int(b[0]), int(b[0]) + len(b))
        return None
    dt = np.dtype(flav)
    if b.dtype == dt:
        return None
    if b.size and (int(b.min()) < int(np.iinfo(dt).min) or int(b.max()) > int(np.iinfo(dt).max)):
        return None
    return b.astype(dt)


def flavour_sites(pal):
    """-> list of (site, argument, base array, accepted other types, fn(array) -> result)"""
    import biotite.sequence as seq
    import biotite.sequence.align as align

    alph, mk = make_alphabet(2, pal)
    out = []
    codes = np.array(ALIAS_REFS[0] + ALIAS_REFS[1], dtype=np.uint8)
    ka2, ka2s, ka3 = align.KmerAlphabet(alph, 2), align.KmerAlphabet(alph, 2, "101"), align.KmerAlphabet(alph, 3)
    unsigned = ("uint8", "uint16", "uint32", "uint64")
    anyint = tuple(t for t in OTHER_TYPES if t not in ("list", "tuple", "range"))
    for nm, ka in (("continuous", ka2), ("spaced", ka2s)):
        out.append(("KmerAlphabet.create_kmers", "seq_code+" + nm, codes, unsigned, lambda a, ka=ka: ka.create_kmers(a)))

    def seq_with(a):
        s = seq.GeneralSequence(alph)
        s.code = a
        return s
    q = mk((0, 1, 1, 0, 1))
    for tk in ("K", "B3"):
        T, kw, cn = table_class(tk), nb_kw(tk), cls_name(tk)
        base_t = T.from_sequences(2, [mk(ALIAS_REFS[0])], **kw)
        out.append((cn + ".from_sequences", "sequence_code", codes, (), lambda a, T=T, kw=kw: _entries(T.from_sequences(2, [seq_with(a)], **kw), 4)))
        out.append((cn + ".match", "sequence_code", codes, (), lambda a, t=base_t: t.match(seq_with(a))))
        km = np.array(model_kmers(tuple(codes.tolist()), 2, [0, 1]), dtype=np.int64)
        pos = np.arange(len(km), dtype=np.uint32)
        out.append((cn + ".from_kmers", "kmers", km, (), lambda a, T=T, kw=kw: _entries(T.from_kmers(ka2, [a], **kw), 4)))
        out.append((cn + ".from_kmer_selection", "kmers", km, (), lambda a, T=T, kw=kw: _entries(T.from_kmer_selection(ka2, [pos], [a], **kw), 4)))
        out.append((cn + ".from_kmer_selection", "positions", pos, anyint + ("range",),
                    lambda a, T=T, kw=kw: _entries(T.from_kmer_selection(ka2, [a if isinstance(a, np.ndarray) else np.array(a)], [km], **kw), 4)))
        out.append((cn + ".match_kmer_selection", "kmers", km, anyint, lambda a, t=base_t: t.match_kmer_selection(pos, a)))
        out.append((cn + ".match_kmer_selection", "positions", pos, anyint, lambda a, t=base_t: t.match_kmer_selection(a, km)))
        out.append((cn + ".count", "kmers", km, anyint, lambda a, t=base_t: t.count(a)))
        rid = np.array([7, 3], dtype=np.int64)
        out.append((cn + ".from_sequences", "ref_ids", rid, OTHER_TYPES,
                    lambda a, T=T, kw=kw: _entries(T.from_sequences(2, [mk(s) for s in ALIAS_REFS], ref_ids=a, **kw), 4)))
        out.append((cn + ".from_kmers", "ref_ids", rid, OTHER_TYPES,
                    lambda a, T=T, kw=kw: _entries(T.from_kmers(ka2, [km, km[:3]], ref_ids=a, **kw), 4)))
        if tk == "K":
            p2 = np.array([[4, 0], [4, 3], [9, 1]], dtype=np.uint32)
            out.append((cn + ".from_positions", "position_array", p2, anyint, lambda a, T=T: _entries(T.from_positions(ka2, {1: a, 2: p2[:1]}), 4)))
    # ignore masks: layout x {continuous, spaced} (the mask is converted before the spaced / continuous k-mer mask is derived)
    mbits = np.array([i in (1, 6) for i in range(len(codes))])
    sq = seq_with(codes.copy())
    for tk in ("K", "B3"):
        T, kw, cn = table_class(tk), nb_kw(tk), cls_name(tk)
        for nm, spkw in (("continuous", {}), ("spaced", {"spacing": "1101"})):
            t_m = T.from_sequences(2 if not spkw else 3, [sq], **spkw, **kw)
            out.append((cn + ".from_sequences", "ignore_mask+" + nm, mbits, (),
                        lambda a, T=T, kw=kw, spkw=spkw: _entries(T.from_sequences(2 if not spkw else 3, [sq], ignore_masks=[a], **spkw, **kw), 8 if spkw else 4)))
            out.append((cn + ".match", "ignore_mask+" + nm, mbits, (), lambda a, t=t_m: t.match(sq, ignore_mask=a)))
    km3 = np.array(model_kmers(tuple(codes.tolist()), 2, [0, 1, 2]), dtype=np.int64)
    sels = {"MinimizerSelector": align.MinimizerSelector(ka3, 3), "MincodeSelector": align.MincodeSelector(ka3, 2),
            "SyncmerSelector": align.SyncmerSelector(alph, 3, 2, offset=(0, -1)),
            "CachedSyncmerSelector": align.CachedSyncmerSelector(alph, 3, 2, offset=(0, -1)),
            "MinimizerSelector+random": align.MinimizerSelector(ka3, 3, align.RandomPermutation()),
            "MinimizerSelector+frequency": align.MinimizerSelector(ka3, 3, perm_impl("freq_cyc", ka3, 2, 3, 8, pal))}
    for nm, s in sels.items():
        out.append((nm.split("+")[0] + ".select_from_kmers", "kmers" + ("+" + nm.split("+")[1] if "+" in nm else ""), km3, (), lambda a, s=s: s.select_from_kmers(a)))
        out.append((nm.split("+")[0] + ".select", "sequence_code" + ("+" + nm.split("+")[1] if "+" in nm else ""), codes, (), lambda a, s=s: s.select(seq_with(a))))
    out.append(("RandomPermutation.permute", "kmers", km3, (), lambda a: align.RandomPermutation().permute(a)))
    fp = perm_impl("freq_cyc", ka3, 2, 3, 8, pal)
    out.append(("FrequencyPermutation.permute", "kmers", km3, anyint, lambda a: fp.permute(a)))
    cnt = np.array([(x * 3 + 1) % 8 for x in range(8)], dtype=np.int64)
    out.append(("FrequencyPermutation.__init__", "counts", cnt, OTHER_TYPES, lambda a: align.FrequencyPermutation(ka3, a).permute(np.arange(8))))
    off = np.array([0, -1], dtype=np.int64)
    for cname in ("SyncmerSelector", "CachedSyncmerSelector"):
        out.append((cname + ".__init__", "offset", off, ("int8", "int16", "int32", "intp", "list", "tuple"),
                    lambda a, cname=cname: getattr(align, cname)(alph, 3, 2, offset=a).select(seq_with(codes))))
    return out


def scalar_sites(pal):
    """-> list of (site, argument, python value, fn(value) -> result): numpy scalar types instead of Python numbers"""
    import biotite.sequence.align as align

    alph, mk = make_alphabet(2, pal)
    s = mk(ALIAS_REFS[0])
    ka = align.KmerAlphabet(alph, 2)
    t = align.KmerTable.from_sequences(2, [s])
    b = align.BucketKmerTable.from_sequences(2, [s], n_buckets=3)
    return [
        ("KmerTable.from_sequences", "k", 2, lambda v: _entries(align.KmerTable.from_sequences(v, [s]), 4)),
        ("BucketKmerTable.from_sequences", "k", 2, lambda v: _entries(align.BucketKmerTable.from_sequences(v, [s], n_buckets=3), 4)),
        ("BucketKmerTable.from_sequences", "n_buckets", 3, lambda v: [int(align.BucketKmerTable.from_sequences(2, [s], n_buckets=v).n_buckets),
                                                                    _entries(align.BucketKmerTable.from_sequences(2, [s], n_buckets=v), 4)]),
        ("KmerAlphabet.__init__", "k", 2, lambda v: align.KmerAlphabet(alph, v).create_kmers(s.code)),
        ("KmerTable.__getitem__", "kmer", 1, lambda v: t[v]), ("BucketKmerTable.__getitem__", "kmer", 1, lambda v: b[v]),
        ("KmerTable.__contains__", "kmer", 1, lambda v: v in t),
        ("KmerTable.from_sequences", "ref_id", 5, lambda v: _entries(align.KmerTable.from_sequences(2, [s], ref_ids=[v]), 4)),
        ("MinimizerSelector.__init__", "window", 3, lambda v: align.MinimizerSelector(ka, v).select(s)),
        ("SyncmerSelector.__init__", "k_s", 1, lambda v: align.SyncmerSelector(alph, v + 2, v + 1).select(s)),
        ("MincodeSelector.__init__", "compression", 2, lambda v: align.MincodeSelector(ka, v).select(s)),
        ("ScoreThresholdRule.__init__", "threshold", 0, lambda v: make_scalar_rule(alph, v).similar_kmers(ka, 1)),
        ("KmerAlphabet.kmer_array_length", "length", 7, lambda v: int(ka.kmer_array_length(v))),
    ]


def make_scalar_rule(alph, thr):
    import biotite.sequence.align as align

    return align.ScoreThresholdRule(align.SubstitutionMatrix(alph, alph, np.array(sim_matrix("offdiag", 2), dtype=np.int32)), thr)


SCALARS = ("int64", "int32", "uint8", "uint64", "intp", "float64", "float32", "bool_", "0d_array")


def empty_sites(pal):
    """-> list of (site, class, fn() -> result, model value): empty / single pieces"""
    import biotite.sequence.align as align

    alph, mk = make_alphabet(2, pal)
    ka = align.KmerAlphabet(alph, 2)
    s = mk(ALIAS_REFS[0])
    e64, e32 = np.zeros(0, dtype=np.int64), np.zeros(0, dtype=np.uint32)
    out = []
    for tk in ("K", "B3"):
        T, kw, cn = table_class(tk), nb_kw(tk), cls_name(tk)
        t = T.from_sequences(2, [s], **kw)
        full = _entries(t, 4)
        out += [
            (cn + ".count", "empty_array", lambda t=t: t.count(e64), []),
            (cn + ".match_kmer_selection", "empty_arrays", lambda t=t: t.match_kmer_selection(e32, e64), []),
            (cn + ".from_kmers", "no_arrays", lambda T=T, kw=kw: _entries(T.from_kmers(ka, [], **kw), 4), []),
            (cn + ".from_kmers", "empty_first_inner_last", lambda T=T, kw=kw: _entries(T.from_kmers(ka, [e64, np.array([1]), e64, np.array([2, 1]), e64], **kw), 4),
             [[1, 1, 0], [1, 3, 1], [2, 3, 0]]),
            (cn + ".from_kmer_selection", "no_arrays", lambda T=T, kw=kw: _entries(T.from_kmer_selection(ka, [], [], **kw), 4), []),
            (cn + ".from_kmer_selection", "empty_first_inner_last",
             lambda T=T, kw=kw: _entries(T.from_kmer_selection(ka, [e32, np.array([8], dtype=np.uint32), e32], [e64, np.array([3]), e64], **kw), 4),
             [[3, 1, 8]]),
            (cn + ".from_tables", "single_table", lambda T=T, t=t: _entries(T.from_tables([t]), 4), full),
            (cn + ".from_tables", "empty_first_inner_last",
             lambda T=T, t=t, kw=kw: _entries(T.from_tables([T.from_kmers(ka, [e64], **kw), t, T.from_kmers(ka, [e64], **kw), t,
                                                             T.from_kmers(ka, [e64], **kw)]), 4), sorted(full + full)),
            (cn + ".match_table", "empty_argument", lambda T=T, t=t, kw=kw: t.match_table(T.from_kmers(ka, [e64], **kw)), []),
            (cn + ".match_table", "empty_self", lambda T=T, t=t, kw=kw: T.from_kmers(ka, [e64], **kw).match_table(t), []),
            (cn + ".from_sequences", "all_masked", lambda T=T, kw=kw: _entries(T.from_sequences(2, [s], ignore_masks=[np.ones(len(s), dtype=bool)], **kw), 4), []),
            (cn + ".match", "all_masked", lambda t=t: t.match(s, ignore_mask=np.ones(len(s), dtype=bool)), []),
            (cn + ".match", "sequence_of_length_k", lambda t=t: t.match(mk((0, 1))),
             [[0, 0, p] for p, c in enumerate(model_kmers(ALIAS_REFS[0], 2, [0, 1])) if c == 1]),
        ]
        if tk == "K":
            out += [(cn + ".from_positions", "empty_dict", lambda T=T: _entries(T.from_positions(ka, {}), 4), []),
                    (cn + ".from_positions", "only_empty_arrays", lambda T=T: _entries(T.from_positions(ka, {0: np.zeros((0, 2), dtype=np.uint32)}), 4), []),
                    (cn + ".from_positions", "single_row", lambda T=T: _entries(T.from_positions(ka, {3: np.array([[5, 6]], dtype=np.uint32)}), 4), [[3, 5, 6]])]
    return out


def flavour_shards(tier):
    return [{"kind": "flavour", "part": p, "parts": 4} for p in range(4)]


def check_flavour_case(ctx, site, arg, base, accepted, fn, flav):
    arr = flavoured(base, flav)
    if arr is None:
        return
    case = {"kind": "flavour", "site": site, "arg": arg, "flavour": flav}
    want = _res(lambda: fn(np.asarray(base).copy()))
    got = _res(lambda: fn(arr))
    ctx.ev(1, 1)
    ctx.outcome((site, arg, flav, got if isinstance(got, str) else "value"))
    layout = flav in LAYOUTS
    must = layout or flav in accepted
    if got == want:
        ctx.count("flavour_accepted")
        return
    if isinstance(got, str) and got.startswith("raised") and not must:
        ctx.count("either_flavour_refused")
        return
    if isinstance(got, str) and got.startswith("raised"):
        ctx.violation("%s|%s|%s_%s" % (site, got.replace(" ", "_"), flav if layout else "dtype_" + flav, arg.split("+")[0]),
                      "a legal array (%s) is refused" % flav, case, want, got)
    else:
        ctx.violation("%s|differs_from_contiguous|%s_%s" % (site, flav if layout else "dtype_" + flav, arg.split("+")[0]),
                      "the same values in another array flavour (%s) give another result" % flav, case, want, got)


def scalar_value(v, kind):
    if kind == "0d_array":
        return np.array(v)
    if kind in ("float64", "float32"):
        return getattr(np, kind)(v)
    if kind == "bool_":
        return np.bool_(v) if v in (0, 1) else None
    return getattr(np, kind)(v)


def run_flavour(shard, ctx):
    sites = flavour_sites(ctx.seed)
    i = 0
    for site, arg, base, accepted, fn in sites:
        for flav in LAYOUTS + OTHER_TYPES:
            i += 1
            if i % shard["parts"] != shard["part"]:
                continue
            case = {"kind": "flavour", "site": site, "arg": arg, "flavour": flav}
            if ctx.journal(case):
                check_flavour_case(ctx, site, arg, base, accepted, fn, flav)
    if shard["part"] == 0:
        for site, arg, val, fn in scalar_sites(ctx.seed):
            want = _res(lambda: fn(val))
            for kind in SCALARS:
                v = scalar_value(val, kind)
                if v is None:
                    continue
                case = {"kind": "flavour", "site": site, "arg": arg, "scalar": kind}
                if not ctx.journal(case):
                    continue
                got = _res(lambda: fn(v))
                ctx.ev(1, 1)
                integral = kind not in ("float64", "float32", "bool_", "0d_array") or arg in ("compression",)
                if got == want:
                    ctx.count("scalar_accepted")
                elif isinstance(got, str) and not integral:
                    ctx.count("either_scalar_refused")
                else:
                    ctx.violation("%s|%s|numpy_scalar_%s" % (site, got.replace(" ", "_") if isinstance(got, str) else "differs_from_python_number", arg),
                                  "a numpy scalar (%s) instead of a Python number changes the result" % kind, case, want, got)
        for site, cls, fn, model in empty_sites(ctx.seed):
            case = {"kind": "flavour", "site": site, "empty": cls}
            if not ctx.journal(case):
                continue
            got = _res(fn)
            ctx.ev(1, 1)
            g = sorted(got) if isinstance(got, list) else got
            if g != sorted(model):
                ctx.violation("%s|%s|%s" % (site, got.replace(" ", "_") if isinstance(got, str) else "wrong_rows", cls),
                              "empty / single piece", case, model, got)
        ctx.sample({"kind": "flavour", "site": "KmerTable.from_kmers", "arg": "kmers", "flavour": "strided"})


def replay_flavour(case, ctx):
    run_flavour({"kind": "flavour", "part": 0, "parts": 1}, ctx)


SHARD_SOURCES.append(flavour_shards)
RUNNERS["flavour"] = run_flavour
REPLAYERS["flavour"] = replay_flavour


# ---------------------------------------------------------------------------
# order: results do not depend on the order of references / rows / dict keys / tables (audit dimension 7)
# ---------------------------------------------------------------------------
def order_shards(tier):
    return [{"kind": "order", "tk": tk, "sp": sp} for tk in ("K", "B3", "Bdef") for sp in (None, [0, 2])] + [{"kind": "order", "tk": "sel", "sp": None}]


def _ms(x):
    return sorted(map(tuple, x)) if isinstance(x, list) else x


def run_order(shard, ctx):
    import biotite.sequence.align as align

    tk, sp = shard["tk"], shard["sp"]
    base = {"kind": "order", "tk": tk, "sp": sp}

    def judge(site, cls, perm, want, got):
        ctx.ev(1, 1 if list(perm) != sorted(perm) else 0)
        ctx.outcome((site, cls, str(want)[:300]))
        if want != got:
            ctx.violation("%s|depends_on_order|%s" % (site, cls), "the result changes when the input is given in another order",
                          dict(base, site=site, cls=cls, perm=list(perm)), want, got)
            return False
        return True

    if tk == "sel":
        alph, mk = make_alphabet(2, ctx.seed)
        ka3, ka2 = align.KmerAlphabet(alph, 3), align.KmerAlphabet(alph, 2)
        km = [5, 0, 3, 6]
        for perm_name in ("none", "freq_cyc", "random"):
            sels = {"MincodeSelector": align.MincodeSelector(ka3, 2, perm_impl(perm_name, ka3, 2, 3, 8, ctx.seed)),
                    "SyncmerSelector": align.SyncmerSelector(alph, 3, 2, perm_impl(perm_name, ka2, 2, 2, 4, ctx.seed), offset=(0,)),
                    "CachedSyncmerSelector": align.CachedSyncmerSelector(alph, 3, 2, perm_impl(perm_name, ka2, 2, 2, 4, ctx.seed), offset=(0,))}
            for name, s in sels.items():
                p0, k0 = s.select_from_kmers(np.array(km))
                chosen = set(np.asarray(p0).tolist())
                for p in itertools.permutations(range(4)):
                    if not ctx.journal(dict(base, site=name, perm=list(p), perm_name=perm_name)):
                        continue
                    arr = np.array([km[i] for i in p])
                    pp, kk = s.select_from_kmers(arr)
                    want = sorted((i, km[p[i]]) for i in range(4) if p[i] in chosen)
                    got = sorted(zip(np.asarray(pp).tolist(), np.asarray(kk).tolist()))
                    judge(name + ".select_from_kmers", "kmers_not_required_to_overlap+perm_" + perm_name, p, want, got)
            for offs in ((0, -1), (-1, 0), (1, 0), (0, 1)):
                a = align.SyncmerSelector(alph, 3, 2, offset=offs).select(mk(ALIAS_REFS[0]))
                b = align.SyncmerSelector(alph, 3, 2, offset=tuple(sorted(o % 2 for o in offs))).select(mk(ALIAS_REFS[0]))
                judge("SyncmerSelector.__init__", "offset_order", offs, _tolist(b), _tolist(a))
        return
    env = Env(2, ctx.seed, 2, sp)
    T, kw, cn = table_class(tk), nb_kw(tk), cls_name(tk)
    refs = [(0, 1, 1, 0, 1, 0, 0, 0), (1, 1, 0, 0, 1, 0), (0, 1, 0, 1, 1)]
    ids = [7, 3, 2**31]
    masks = [(2,), (), (4,)]
    qseqs = [env.seq(c) for c in all_seqs(2, 3, 4)]
    ka = env.kalph
    N = env.N

    def observe(t):
        return [sorted(map(tuple, _entries(t, N))), [_ms(t.match(q).tolist()) for q in qseqs]]

    spkw = {"spacing": env.sparg} if sp else {}

    def fs(p):
        return T.from_sequences(2, [env.seq(refs[i]) for i in p], ref_ids=[ids[i] for i in p],
                                ignore_masks=[mask_array(len(refs[i]), masks[i]) if masks[i] else None for i in p], **spkw, **kw)
    kms = [np.array(env.kmers(r), dtype=np.int64) for r in refs]

    def fk(p):
        return T.from_kmers(ka, [kms[i] for i in p], ref_ids=[ids[i] for i in p], **kw)

    def fsel(p):
        return T.from_kmer_selection(ka, [np.arange(len(kms[i]), dtype=np.uint32)[::2].copy() for i in p], [kms[i][::2].copy() for i in p],
                                     ref_ids=[ids[i] for i in p], **kw)

    def ft(p):
        nb = {} if tk == "K" else {"n_buckets": 5}
        tabs = [T.from_kmers(ka, [kms[i]], ref_ids=[ids[i]], **nb) for i in range(3)]
        return T.from_tables([tabs[i] for i in p])
    for site, fn in (("from_sequences", fs), ("from_kmers", fk), ("from_kmer_selection", fsel), ("from_tables", ft)):
        want = observe(fn((0, 1, 2)))
        for p in itertools.permutations(range(3)):
            if ctx.journal(dict(base, site=site, perm=list(p))):
                judge("%s.%s" % (cn, site), "reference_order", p, want, observe(fn(p)))
    pairs = [(8, kms[0][0]), (2, kms[0][1]), (5, kms[0][2]), (2, kms[0][3])]
    t0 = fk((0, 1, 2))

    def sel_one(p):
        return T.from_kmer_selection(ka, [np.array([pairs[i][0] for i in p], dtype=np.uint32)], [np.array([pairs[i][1] for i in p], dtype=np.int64)], **kw)
    want_sel = observe(sel_one((0, 1, 2, 3)))
    want_mks = _ms(t0.match_kmer_selection(np.array([x[0] for x in pairs], dtype=np.uint32), np.array([x[1] for x in pairs])).tolist())
    want_cnt = t0.count(np.array([x[1] for x in pairs])).tolist()
    for p in itertools.permutations(range(4)):
        if not ctx.journal(dict(base, site="selection_pairs", perm=list(p))):
            continue
        judge(cn + ".from_kmer_selection", "pair_order", p, want_sel, observe(sel_one(p)))
        got = _ms(t0.match_kmer_selection(np.array([pairs[i][0] for i in p], dtype=np.uint32), np.array([pairs[i][1] for i in p])).tolist())
        judge(cn + ".match_kmer_selection", "pair_order", p, want_mks, got)
        judge(cn + ".count", "kmer_order", p, [want_cnt[i] for i in p], t0.count(np.array([pairs[i][1] for i in p])).tolist())
    if tk == "K":
        d = {1: [(7, 0), (3, 4), (7, 5)], 3: [(3, 1)], 0: [(2, 9), (2, 2)]}
        keys = list(d)
        want = observe(T.from_positions(ka, {c: np.array(d[c], dtype=np.uint32) for c in keys}))
        for p in itertools.permutations(range(3)):
            for r in itertools.permutations(range(3)):
                if not ctx.journal(dict(base, site="from_positions", perm=list(p), rows=list(r))):
                    continue
                dd = {}
                for i in p:
                    c = keys[i]
                    rowsl = [d[c][j] for j in r] if len(d[c]) == 3 else d[c][::-1] if r[0] else d[c]
                    dd[c] = np.array(rowsl, dtype=np.uint32)
                judge(cn + ".from_positions", "dict_key_and_row_order", p + r, want, observe(T.from_positions(ka, dd)))
    # match_table is symmetric up to the column swap, with and without a (symmetric) rule
    rule, _ = make_rule(Env(2, ctx.seed, 2, None), "offdiag", 0, 1)
    nb = {} if tk == "K" else {"n_buckets": 5}
    a, b = T.from_kmers(ka, [kms[0]], ref_ids=[1], **nb), T.from_kmers(ka, [kms[1], kms[2]], ref_ids=[2, 3], **nb)
    for r in (None, rule):
        x = sorted(map(tuple, a.match_table(b, similarity_rule=r).tolist()))
        y = sorted((c2, d2, a2, b2) for a2, b2, c2, d2 in b.match_table(a, similarity_rule=r).tolist())
        judge(cn + ".match_table", "self_argument_swapped" + ("+similarity_rule" if r else ""), (1, 0), x, y)
    ctx.sample(dict(base, site="from_positions", perm=[2, 0, 1]))


def replay_order(case, ctx):
    run_order({"kind": "order", "tk": case["tk"], "sp": case["sp"]}, ctx)


SHARD_SOURCES.append(order_shards)
RUNNERS["order"] = run_order
REPLAYERS["order"] = replay_order


# ---------------------------------------------------------------------------
# derived: objects handed out by the library, fed into every other operation (second audit, dimension E)
# ---------------------------------------------------------------------------
def _fresh(x):
    """an equal-valued object built directly: contiguous, writable, own buffer, base dtype kept"""
    if isinstance(x, np.ndarray):
        return np.array(x.tolist(), dtype=x.dtype).reshape(x.shape)
    if isinstance(x, tuple):
        return tuple(_fresh(e) for e in x)
    if isinstance(x, dict):
        return {k: _fresh(v) for k, v in x.items()}
    return x


def derived_cases(pal):
    """-> list of (producer, consumer, derived object, fn(object) -> result, fresh twin)"""
    import copy

    import biotite.sequence as seq
    import biotite.sequence.align as align

    alph, mk = make_alphabet(2, pal)
    out = []
    base = ALIAS_REFS[0] + ALIAS_REFS[1] + (1, 1, 0, 1)
    s0 = mk(base)
    ka2, ka3, ka2s = align.KmerAlphabet(alph, 2), align.KmerAlphabet(alph, 3), align.KmerAlphabet(alph, 2, "101")
    tables = {"KmerTable": align.KmerTable.from_sequences(2, [s0, mk(ALIAS_REFS[1])], ref_ids=[4, 9]),
              "BucketKmerTable": align.BucketKmerTable.from_sequences(2, [s0, mk(ALIAS_REFS[1])], ref_ids=[4, 9], n_buckets=3)}
    sels = {"MinimizerSelector": lambda p: align.MinimizerSelector(ka3, 3, p), "MincodeSelector": lambda p: align.MincodeSelector(ka3, 2, p),
            "SyncmerSelector": lambda p: align.SyncmerSelector(alph, 3, 2, None, offset=(0, -1)),
            "CachedSyncmerSelector": lambda p: align.CachedSyncmerSelector(alph, 3, 2, None, offset=(0, -1))}
    # --- consumers of a k-mer array (codes of ka3 / ka2)
    def kmer_consumers(ka, N):
        cons = []
        for cn, T, kw in (("KmerTable", align.KmerTable, {}), ("BucketKmerTable", align.BucketKmerTable, {"n_buckets": 3})):
            cons.append((cn + ".from_kmers", lambda a, T=T, kw=kw: _entries(T.from_kmers(ka, [a], **kw), N)))
            cons.append((cn + ".from_kmer_selection", lambda a, T=T, kw=kw: _entries(T.from_kmer_selection(ka, [np.arange(len(a), dtype=np.uint32)], [a], **kw), N)))
            t = T.from_kmers(ka, [np.arange(N)], **kw)
            cons.append((cn + ".count", lambda a, t=t: t.count(a)))
            cons.append((cn + ".match_kmer_selection", lambda a, t=t: t.match_kmer_selection(np.arange(len(a), dtype=np.uint32), a)))
        if N == 8:
            for sn, mkr in sels.items():
                cons.append((sn + ".select_from_kmers", lambda a, mkr=mkr: mkr(None).select_from_kmers(a)))
            cons.append(("MinimizerSelector.select_from_kmers+random", lambda a: sels["MinimizerSelector"](align.RandomPermutation()).select_from_kmers(a)))
            cons.append(("RandomPermutation.permute", lambda a: align.RandomPermutation().permute(a)))
            cons.append(("FrequencyPermutation.permute", lambda a: perm_impl("freq_cyc", ka3, 2, 3, 8, pal).permute(a)))
            cons.append(("KmerAlphabet.split", lambda a: ka3.split(a)))
        return cons
    km3 = ka3.create_kmers(s0.code)
    km2 = ka2.create_kmers(s0.code)
    kmer_sources = [("KmerAlphabet.create_kmers", km3, 8), ("KmerAlphabet.create_kmers+spaced", ka2s.create_kmers(s0.code), 4),
                    ("KmerTable.get_kmers", tables["KmerTable"].get_kmers(), 4), ("BucketKmerTable.get_kmers", tables["BucketKmerTable"].get_kmers(), 4),
                    ("ScoreThresholdRule.similar_kmers", make_rule(Env(2, pal, 3, None), "ident", 0, 1)[0].similar_kmers(ka3, 5), 8),
                    ("KmerAlphabet.fuse(split)", ka3.fuse(ka3.split(km3)), 8),
                    ("match_result_column", tables["KmerTable"].match(s0)[:, 2] % 8, 8)]
    for sn, mkr in sels.items():
        for pn, p in (("", None), ("+random", align.RandomPermutation())):
            if pn and sn in ("SyncmerSelector", "CachedSyncmerSelector"):
                continue
            kmer_sources.append((sn + ".select" + pn, mkr(p).select(s0)[1], 8))
    for pname, arr, N in kmer_sources:
        for cname, fn in kmer_consumers(ka3 if N == 8 else ka2, N):
            out.append((pname, cname, arr, fn))
    # --- selector output (positions, k-mers) -> from_kmer_selection / match_kmer_selection (the documented work flow)
    t3 = {"KmerTable": align.KmerTable.from_kmers(ka3, [km3]), "BucketKmerTable": align.BucketKmerTable.from_kmers(ka3, [km3], n_buckets=5)}
    for sn, mkr in sels.items():
        for pn, p in (("", None), ("+random", align.RandomPermutation()), ("+frequency", "freq")):
            if pn and sn in ("SyncmerSelector", "CachedSyncmerSelector"):
                continue
            if p == "freq":
                p = align.FrequencyPermutation.from_table(align.KmerTable.from_kmers(ka3, [km3]))
            pair = tuple(mkr(p).select(s0))
            for cn, T, kw in (("KmerTable", align.KmerTable, {}), ("BucketKmerTable", align.BucketKmerTable, {"n_buckets": 5})):
                out.append((sn + ".select" + pn, cn + ".from_kmer_selection", pair,
                            lambda pr, T=T, kw=kw: _entries(T.from_kmer_selection(ka3, [pr[0]], [pr[1]], **kw), 8)))
                out.append((sn + ".select" + pn, cn + ".match_kmer_selection", pair, lambda pr, t=t3[cn]: t.match_kmer_selection(pr[0], pr[1])))
    # --- {k-mer: table[k-mer]} -> from_positions (documented way to serialise a table)
    for cn, t in tables.items():
        d = {int(c): t[int(c)] for c in t.get_kmers()}
        out.append((cn + ".__getitem__", "KmerTable.from_positions", d, lambda dd: _entries(align.KmerTable.from_positions(ka2, dd), 4)))
        out.append((cn + ".count", "FrequencyPermutation.__init__", t.count(np.arange(4)), lambda c: align.FrequencyPermutation(ka2, c).permute(np.arange(4))))
        out.append((cn + ".kmer_alphabet.spacing", "KmerAlphabet.__init__", align.KmerTable.from_sequences(2, [s0], spacing="1001").kmer_alphabet.spacing,
                    lambda sp: snap_alphabet(align.KmerAlphabet(alph, 2, sp))))
    # --- derived sequences -> every operation that takes a sequence
    def seq_consumers():
        cons = []
        for cn, T, kw in (("KmerTable", align.KmerTable, {}), ("BucketKmerTable", align.BucketKmerTable, {"n_buckets": 3})):
            cons.append((cn + ".from_sequences", lambda s, T=T, kw=kw: _entries(T.from_sequences(2, [s], **kw), 4)))
            cons.append((cn + ".from_sequences+spaced", lambda s, T=T, kw=kw: _entries(T.from_sequences(2, [s], spacing="101", **kw), 4)))
            cons.append((cn + ".match", lambda s, t=tables[cn]: t.match(s)))
            cons.append((cn + ".match+mask", lambda s, t=tables[cn]: t.match(s, ignore_mask=np.arange(len(s)) % 3 == 1)))
        for sn, mkr in sels.items():
            cons.append((sn + ".select", lambda s, mkr=mkr: mkr(None).select(s)))
        cons.append(("KmerAlphabet.create_kmers", lambda s: ka3.create_kmers(s.code)))
        return cons
    long = mk(base + base[::-1])
    msk = np.array([i % 3 != 0 for i in range(len(long))])
    seq_sources = [("Sequence.__getitem__(slice)", long[3:19]), ("Sequence.__getitem__(step)", long[::2]), ("Sequence.__getitem__(negative step)", long[::-1]),
                   ("Sequence.__getitem__(mask)", long[msk]), ("Sequence.__getitem__(index array)", long[np.array([5, 4, 9, 9, 0, 17, 3, 2, 11, 12, 6])]),
                   ("Sequence.reverse", long.reverse()), ("Sequence.copy", long.copy()), ("copy.deepcopy", copy.deepcopy(long)),
                   ("Sequence.__add__", mk(base) + mk(base[::-1])), ("Sequence.code setter (view)", _seq_of(seq.GeneralSequence(alph), []))]
    seq_sources[-1][1].code = long.code[1::2]
    if isinstance(long, seq.NucleotideSequence):
        seq_sources += [("NucleotideSequence.complement", long.complement()), ("NucleotideSequence.reverse.complement", long.reverse().complement())]
    for pname, sq in seq_sources:
        for cname, fn in seq_consumers():
            out.append((pname, cname, sq, fn))
    return out, mk


def derived_shards(tier):
    return [{"kind": "derived", "part": p, "parts": 3} for p in range(3)]


def run_derived(shard, ctx):
    cases, mk = derived_cases(ctx.seed)
    for i, (producer, consumer, obj, fn) in enumerate(cases):
        if i % shard["parts"] != shard["part"]:
            continue
        case = {"kind": "derived", "producer": producer, "consumer": consumer}
        if not ctx.journal(case):
            continue
        if hasattr(obj, "code") and hasattr(obj, "alphabet"):
            twin = mk(tuple(obj.code.tolist()))
            shape = {"contiguous": bool(obj.code.flags.c_contiguous), "owns": bool(obj.code.flags.owndata), "dtype": str(obj.code.dtype)}
        else:
            twin = _fresh(obj)
            first = obj[0] if isinstance(obj, tuple) else (next(iter(obj.values())) if isinstance(obj, dict) and obj else obj)
            shape = {"contiguous": bool(getattr(first, "flags", None) and first.flags.c_contiguous),
                     "owns": bool(getattr(first, "flags", None) and first.flags.owndata), "dtype": str(getattr(first, "dtype", ""))}
        want = _res(lambda: fn(twin))
        got = _res(lambda: fn(obj))
        ctx.ev(1, 1 if not (shape["contiguous"] and shape["owns"]) else 0)
        ctx.count("derived_view_or_strided" if not (shape["contiguous"] and shape["owns"]) else "derived_plain")
        ctx.outcome((producer, consumer, str(want)[:300]))
        if isinstance(want, str) and want.startswith("raised") and got == want:
            ctx.count("either_derived_dtype_refused_like_twin")  # e.g. uint64 codes from fuse(): refused for both
        elif isinstance(want, str) and want.startswith("raised"):
            ctx.violation("%s|twin_%s|derived_from_%s" % (consumer, want.replace(" ", "_"), producer), "the directly built twin is refused: "
                          "harness problem", case, "result", want)
        elif got != want:
            ctx.violation("%s|%s|derived_from_%s" % (consumer, got.replace(" ", "_") if isinstance(got, str) else "differs_from_directly_built_input", producer),
                          "an object handed out by %s gives another result than an equal object built directly (%s)" % (producer, shape),
                          case, want, got)
    ctx.sample({"kind": "derived", "producer": "MinimizerSelector.select", "consumer": "KmerTable.from_kmer_selection"})


def replay_derived(case, ctx):
    run_derived({"kind": "derived", "part": 0, "parts": 1}, ctx)


SHARD_SOURCES.append(derived_shards)
RUNNERS["derived"] = run_derived
REPLAYERS["derived"] = replay_derived


# ---------------------------------------------------------------------------
# ambient: process-wide state changes between / before the calls (third audit, dimension G)
# ---------------------------------------------------------------------------
AMBIENT_EVENTS = ("none", "chdir", "first_use_after_chdir", "np_seterr_raise", "warnings_as_errors", "printoptions", "env_locale")


def ambient_ops(pal):
    import biotite.sequence.align as align
    from biotite.sequence.align.buckets import bucket_number

    alph, mk = make_alphabet(2, pal)
    s1, s2 = mk(ALIAS_REFS[0] + ALIAS_REFS[1]), mk(ALIAS_REFS[1] + (1, 1, 0))
    ka3 = align.KmerAlphabet(alph, 3)
    big = np.arange(8, dtype=np.int64)
    return [
        ("bucket_number", lambda: [int(bucket_number(n)) for n in (0, 1, 5, 13, 100, 10**5)]),
        ("BucketKmerTable.from_sequences(default buckets)", lambda: (lambda t: [int(t.n_buckets), _entries(t, 4), t.match(s2).tolist()])(
            align.BucketKmerTable.from_sequences(2, [s1]))),
        ("KmerTable.from_sequences+match", lambda: (lambda t: [_entries(t, 4), t.match(s2).tolist(), str(t)])(align.KmerTable.from_sequences(2, [s1], spacing="101"))),
        ("RandomPermutation.permute", lambda: align.RandomPermutation().permute(big).tolist()),
        ("MincodeSelector+random", lambda: _tolist(align.MincodeSelector(ka3, 3, align.RandomPermutation()).select(s1))),
        ("MinimizerSelector+random", lambda: _tolist(align.MinimizerSelector(ka3, 3, align.RandomPermutation()).select(s1))),
        ("SyncmerSelector+frequency", lambda: _tolist(align.SyncmerSelector(alph, 3, 2, perm_impl("freq_cyc", align.KmerAlphabet(alph, 2), 2, 2, 4, pal)).select(s1))),
        ("ScoreThresholdRule.similar_kmers", lambda: [make_scalar_rule(alph, 0).similar_kmers(align.KmerAlphabet(alph, 2), c).tolist() for c in range(4)]),
        ("KmerAlphabet.create_kmers+split", lambda: [ka3.create_kmers(s1.code).tolist(), ka3.split(np.arange(8)).tolist(), repr(ka3)]),
    ]


def ambient_apply(event):
    import os
    import tempfile
    import warnings

    if event in ("chdir", "first_use_after_chdir"):
        if event == "first_use_after_chdir":
            import biotite.sequence.align.buckets as b

            b._primes = None  # as in a fresh interpreter: the prime table is read on first use
        os.chdir(tempfile.mkdtemp(prefix="c10-ambient-"))
    elif event == "np_seterr_raise":
        np.seterr(all="raise")
    elif event == "warnings_as_errors":
        warnings.simplefilter("error")
    elif event == "printoptions":
        np.set_printoptions(threshold=2, edgeitems=1, precision=1, linewidth=20)
    elif event == "env_locale":
        import locale

        os.environ["LANG"] = os.environ["LC_ALL"] = "C"
        os.environ["TMPDIR"] = "/nonexistent"
        try:
            locale.setlocale(locale.LC_ALL, "C")
        except Exception:  # noqa: BLE001
            pass


def run_ambient(shard, ctx):
    ops = ambient_ops(ctx.seed)
    base = [_res(fn) for _, fn in ops]
    for event in AMBIENT_EVENTS:
        case = {"kind": "ambient", "event": event}
        if not ctx.journal(case):
            continue

        def child(event=event):
            import os
            import shutil

            first = [_res(fn) for _, fn in ops[:2]] if event != "first_use_after_chdir" else None
            ambient_apply(event)
            res = [_res(fn) for _, fn in ops]
            cwd = os.getcwd()
            if "c10-ambient-" in cwd:
                left = os.listdir(cwd)
                os.chdir("/")
                shutil.rmtree(cwd, ignore_errors=True)
                res.append(("files_left_in_cwd", left))
            return first, res
        r = ctx.isolated(child, timeout=120)
        if r[0] != "ok":
            ctx.violation("ambient|process_%s|%s" % (r[0], event), "the calls did not survive the state change", case, "results", list(r))
            continue
        _, res = r[1]
        for (name, _), want, got in zip(ops, base, res):
            ctx.ev(1, 1 if event != "none" else 0)
            ctx.outcome((name, str(want)[:200]))
            if got != want:
                ctx.violation("%s|depends_on_ambient_state|%s" % (name.split("(")[0].split("+")[0], event),
                              "the result changes with process-wide state the caller may have set", dict(case, op=name), want, got)
        if len(res) > len(ops) and res[-1][1]:
            ctx.violation("ambient|files_written_to_cwd|%s" % event, "files were created in the working directory", case, [], res[-1][1])
    ctx.sample({"kind": "ambient", "event": "first_use_after_chdir"})


def ambient_shards(tier):
    return [{"kind": "ambient"}]


def replay_ambient(case, ctx):
    run_ambient({"kind": "ambient"}, ctx)


SHARD_SOURCES.append(ambient_shards)
RUNNERS["ambient"] = run_ambient
REPLAYERS["ambient"] = replay_ambient
