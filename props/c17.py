"""C17 - residue / chain / molecule segmentation equals per-atom recomputation.

E2: every annotation pattern of length 0..4 (thorough: also 5 over two 12-letter
sub-alphabets) over a 24-letter atom alphabet (2 chain ids x 3 residue ids x
2 insertion codes x 2 residue names) is
built as a real AtomArray (and as a depth-2 AtomArrayStack) and every residue /
chain view is compared with a per-atom loop model.  Every labelled graph on
<= 6 (thorough: 7) vertices goes through get_molecule_indices / masks /
molecule_iter / find_connected and is compared with union-find components.
E4: a size ladder of path / ring / comb / star / tree / pair graphs with up to
3*10^5 (thorough 10^6) atoms runs in forked children.
"""

import itertools
import json

import numpy as np

ID = "C17"
LEVEL = "model_checking"
RULE = (
    "seg: every sequence of L atoms over the 24-letter alphabet chain{a,b} x res_id{base,higher,lower} x "
    "ins_code{2} x res_name{2} (L = 0..4; thorough additionally L = 5 over the two 12-letter sub-alphabets with "
    "res_name resp. ins_code fixed), values instantiated from the palette the seed selects; "
    "each pattern as AtomArray (and as depth-2 AtomArrayStack per the stated stride); all residue_* / chain_* "
    "views compared with a per-atom loop; index arrays: every array of length <= 2 over [-2, L+1] when L <= 3, "
    "else identity and reversal (+ 4 refused arrays at level full, see bounds). "
    "A seg case is non-trivial when 1 < #residues < L or 1 < #chains < L (some but not all neighbouring atoms are separated). "
    "graph: every labelled simple graph on v vertices (all 2^(v(v-1)/2) edge sets), two bond-list encodings each; "
    "non-trivial when it has >= 1 bond and (>= 2 components or a cycle). "
    "ladder: fixed shapes x fixed sizes x 4 entry points, each in a forked child with an 8 MiB stack; "
    "non-trivial always (>= 1000 atoms, 4+ components). "
    "dimension families (fixed palette, both tiers): flav = every pattern with L <= 2 (24 letters) and L = 3 over "
    "the 6-letter chain x res_id sub-alphabet through every listed index / data / spread-input / result / res_id-dtype / "
    "container flavour, argument-unchanged and result-not-aliased checks; reuse = every L = 2 pattern x position x "
    "one-field change, applied in place to a structure that was queried (and refused) before; many = 3 segment "
    "generators x segment counts 9..1000; gflav = every graph on <= 5 vertices through every bond-array / root / "
    "container flavour and after refused calls; gedit = every graph on <= 5 vertices x every single-bond toggle and "
    "remove_bonds_to on a queried bond list, v <= 4 also every boolean-mask selection; gmany = interleaved molecules "
    "(counts 9..257) and star degrees straddling 16/32/64/128/256. flav cases are non-trivial for L >= 2, gflav with "
    ">= 1 bond, gedit with >= 2 atoms, the others always. "
    "second audit (both tiers, seed independent): ident = every pattern with L <= 3 over the 6-letter chain x res_id "
    "alphabet x {array, stack} x {path bonds, first bond only}: every piece of residue_iter / chain_iter / "
    "molecule_iter is edited by re-binding (annotations set / deleted, coord, bonds) and the operand re-checked; "
    "allpal = every pattern with L <= 2 over 24 letters under every one of the 5 seed palettes and 3 palettes of values "
    "with two awkward features; alltypes = every graph on <= 3 atoms x every BondType member; resize = every ordered "
    "pair of L = 3 patterns over chain{2} x res_id{base, lower} as content a -> b -> a of one structure object; "
    "gresize = every ordered pair of graphs on 2..4 vertices, one bond list edited in place a -> b -> a; derived = "
    "every pattern with L <= 3 over 6 letters (path bonds): every boolean-mask / slice / index-array selection, copy, "
    "stack model, stack slice, iterator piece and the concatenation with itself through all views and molecule "
    "functions. third audit: args = every pattern with L <= 3 over 6 letters: an index operand with more "
    "entries than atoms, explicit vs defaulted axis, operands of another length than the structure (outcome "
    "unspecified; arguments unchanged and the next call right). No case is generated twice."
)
ASSUMPTIONS = [
    "reducing functions (np.sum, np.mean, len, ...) are trusted; the oracle applies the same function to the "
    "atoms the per-atom model puts into each segment",
    "spread_*_wise input of the wrong length is not generated (statement silent, no model value exists)",
    "index arguments that are not 1-D integer arrays (scalars, 2-D, bool, float) are not generated",
    "order of molecules and order of atoms inside a reported molecule are not demanded (compared as sets); "
    "find_connected(as_mask=True) is compared after np.asarray(..).astype(bool) (it returns a uint8 memoryview)",
    "apply_*_wise on an empty atom array is unspecified (None, empty result or exception accepted)",
    "negative roots in [-n, -1] for find_connected are unspecified (exception or the component of root % n)",
    "size ladder children run with RLIMIT_STACK = 8 MiB (Linux default); star graphs are limited to 3000 atoms "
    "(get_all_bonds is n x max_degree) and many-component 'pairs' graphs to 10^4 atoms (get_molecule_indices is "
    "quadratic in the number of molecules; run time is not part of the statement)",
    "bonds of the sub-arrays yielded by molecule_iter / residue_iter are not compared (C01/C02 territory)",
    "unspecified, observed on the unchanged tree and not demanded: segments yielded by residue_iter / chain_iter are "
    "views sharing the annotation arrays of the parent; *_iter on an instance of a subclass yields the base class; "
    "find_connected accepts float roots (truncated); functions given a structure without bonds / a wrong type raise",
]
EXHAUSTIVE = True
SHARD_TIMEOUT = {"quick": 600, "thorough": 1500}
REPLAY_TIMEOUT = 400

NLET = 24
PALETTES = [
    {"chain": ("A", "B"), "res": (1, 2, 0), "ins": ("", "A"), "name": ("X", "Y")},
    {"chain": ("AA", "AB"), "res": (10, 11, 9), "ins": ("A", "B"), "name": ("ALA", "GLY")},
    {"chain": ("", "A"), "res": (-1, 0, -2), "ins": ("", "B"), "name": ("AL", "ALA")},
    {"chain": ("B", "A"), "res": (0, 1, -1), "ins": ("Z", ""), "name": ("Y", "X")},
    {"chain": ("X1", "X2"), "res": (100, 1000, -5), "ins": ("", "Z"), "name": ("HOH", "NA")},
]
TAGS = ["T0", "T1", "T2", "T3", "T4", "T5", "T6", "T7"]
INTS = [1, 10, 100, 1000, 10000, 100000]
STRS = ["p0a", "q1b", "r2c", "s3d", "t4e", "u5f"]
# dyadic -> all partial sums exact in float64
COORD = [[0.5 * i + 0.25, 2.0 * i - 1.5, 8.0 - 0.125 * i * i] for i in range(8)]

LADDER_SIZES = {"quick": [1000, 10000, 30000, 100000, 300000],
                "thorough": [1000, 10000, 30000, 100000, 300000, 1000000]}
LADDER_SHAPES = ["path", "ring", "comb", "tree", "star", "pairs"]
LADDER_FUNCS = ["find_connected", "get_molecule_indices", "get_molecule_masks", "molecule_iter"]
SHAPE_MAX = {"star": 3000, "pairs": 10000}
LADDER_TIMEOUT = 120
DEEP = 10000  # recursion depth class boundary used in signatures


def bounds(tier):
    q = tier == "quick"
    return {
        "seg_max_len": "0..4 over all 24 letters" if q else
                       "0..4 over all 24 letters; 5 over the two 12-letter sub-alphabets (res_name fixed / ins_code fixed)",
        "seg_alphabet": NLET,
        "seg_palettes": "palette[seed % 5]" if q else "palette 0 and palette[1 + seed % 4] for L <= 4; palette 0 for L = 5",
        "seg_view_set": "L <= 3: full (every index array of length <= 2 over [-2, L+1], 7 reducing functions, 3 spread "
                        "inputs); L = 4: %s; L = 5: core" % ("core (identity + reversed index arrays, 2 "
                        "reducing functions, 1 spread input)" if q else "full apart from index arrays (identity, "
                        "reversed, 4 refused)"),
        "seg_stack_views": "as for arrays, but index arrays are never enumerated (identity, reversed, + 4 refused at level full)",
        "seg_stack_stride": "all for L <= 3, pattern index %% %d == 1 for L = 4%s" % (
            (8, "") if q else (4, ", index % 16 == 5 for L = 5")),
        "graph_max_vertices": 6 if q else 7,
        "graph_encodings": "2 per graph for v <= 6 (constructor / reversed add_bond with types; AtomArray / stack), "
                           "1 for v = 7 (alternating)",
        "ladder_sizes": LADDER_SIZES[tier],
        "ladder_shapes": LADDER_SHAPES,
        "ladder_size_caps": SHAPE_MAX,
        "ladder_entry_points": LADDER_FUNCS,
        "dimension_families": {
            "flav": {"patterns": "L <= 2 over 24 letters, L = 3 over 6 letters (chain x res_id)", "index_flavours":
                     INDEX_FLAVOURS, "res_id_dtypes": RES_DTYPES + ["int8 with wrapping differences"],
                     "containers": ["strided read-only annotations set in reverse order + extra category",
                                    "stack depth 0", "stack depth 1", "AtomArray subclass"],
                     "apply_data": ["list", "float32", "object", "readonly", "fortran non-contiguous (n,3)"],
                     "apply_results": ["0-d array", "empty array", "2-d array"],
                     "spread_inputs": ["tuple", "strided", "readonly", "fortran (k,2)"]},
            "reuse": "L = 2, 576 patterns x 2 positions x 5 one-field changes; every 8th as depth-2 stack",
            "many": {"modes": MANY_MODES, "segment_counts": MANY_K},
            "gflav": {"max_vertices": 5, "bond_arrays": BOND_ARRAY_FLAVOURS, "roots": ROOT_FLAVOURS},
            "gedit": "v <= 5: every single-bond toggle, remove_bonds_to(every atom); v <= 4: every boolean mask",
            "gmany": {"molecule_counts": MANY_K[:-1], "star_degrees": DEGREES},
            "ident": "L <= 3 over 6 letters x {array, stack} x {path, first bond}: 1 036 cases",
            "allpal": {"palettes": len(ALL_PALETTES), "awkward": AWK_PALETTES, "patterns": "L <= 2 over 24 letters"},
            "alltypes": "graphs on <= 3 atoms x all BondType members, constructor and add_bond",
            "resize": "64 x 64 ordered pairs of L = 3 patterns over %r, every 8th as stack" % (RESIZE_LETTERS,),
            "gresize": "all ordered pairs of graphs on 2, 3, 4 vertices (4 + 64 + 4096)",
            "derived": "L <= 3 over 6 letters; 2^n masks, 4 slices, 2 index arrays, copy, 3 stack-derived, iterator "
                       "pieces, arr + arr",
            "args": "L <= 3 over 6 letters: index operand of 5n+2 entries, axis omitted / 0 / -2 with a function whose "
                    "own default differs, data and spread input longer / shorter than the structure (unspecified "
                    "outcome, arguments unchanged, next call right)",
        },
    }


# ---------------------------------------------------------------------------
# reference model: per-atom loops, union-find
# ---------------------------------------------------------------------------
def model_starts(rows):
    """rows: list of (chain, res_id, ins, name).  Returns (residue starts, chain starts)."""
    rs, cs = [], []
    for i in range(len(rows)):
        if i == 0:
            rs.append(0)
            cs.append(0)
            continue
        p, q = rows[i - 1], rows[i]
        if p[0] != q[0] or p[1] != q[1] or p[2] != q[2] or p[3] != q[3]:
            rs.append(i)
        if p[0] != q[0] or q[1] < p[1]:
            cs.append(i)
    return rs, cs


def model_seg_of(starts, n):
    out = []
    k = -1
    for i in range(n):
        if k + 1 < len(starts) and starts[k + 1] == i:
            k += 1
        out.append(k)
    return out


def components(n, edges):
    """Union-find (iterative, path halving).  Returns list of sorted member lists, ordered by smallest member."""
    parent = list(range(n))

    def find(x):
        while parent[x] != x:
            parent[x] = parent[parent[x]]
            x = parent[x]
        return x

    for a, b in edges:
        ra, rb = find(a), find(b)
        if ra != rb:
            if ra < rb:
                parent[rb] = ra
            else:
                parent[ra] = rb
    groups = {}
    for i in range(n):
        groups.setdefault(find(i), []).append(i)
    return [groups[k] for k in sorted(groups)]


# ---------------------------------------------------------------------------
# seg: construction
# ---------------------------------------------------------------------------
def rows_of(digs, pal):
    return [(pal["chain"][d // 12], pal["res"][(d // 4) % 3], pal["ins"][(d // 2) % 2], pal["name"][d % 2])
            for d in digs]


def digits(idx, L):
    out = []
    for _ in range(L):
        out.append(idx % NLET)
        idx //= NLET
    return out[::-1]


def build_atoms(rows, as_stack):
    from biotite.structure import AtomArray, stack

    n = len(rows)
    a = AtomArray(n)
    a.chain_id = np.array([r[0] for r in rows], dtype="U4")
    a.res_id = np.array([r[1] for r in rows], dtype=int)
    a.ins_code = np.array([r[2] for r in rows], dtype="U1")
    a.res_name = np.array([r[3] for r in rows], dtype="U5")
    a.atom_name = np.array(TAGS[:n], dtype="U6")
    a.coord = np.array(COORD[:n], dtype=np.float32).reshape(n, 3)
    if as_stack:
        b = a.copy()
        b.coord = a.coord + 64.0
        return stack([a, b])
    return a


def _first_str(seg):
    return seg[0]


def _minmax(seg):
    return np.array([seg.min(), seg.max()])


def _any_big(seg):
    return bool((seg >= 100).any())


def _fsum(seg):
    return float(seg.sum()) / 4.0


# name -> (data builder, function, axis, result class)
def apply_table(n):
    ints = np.array(INTS[:n], dtype=np.int64)
    return {
        "sum_int": (ints, np.sum, None, "scalar_int"),
        "mean_axis0": (np.array(COORD[:n], dtype=np.float64).reshape(n, 3), np.mean, 0, "array_axis0"),
        "minmax_arr": (ints, _minmax, None, "array"),
        "len": (ints, len, None, "pyint"),
        "first_str": (np.array(STRS[:n], dtype="U3"), _first_str, None, "scalar_str"),
        "any_bool": (ints, _any_big, None, "pybool"),
        "fsum": (ints, _fsum, None, "pyfloat"),
        # reductions called without an axis on 2-D data: one scalar per segment (seed C17-g: a vectorised
        # fast path that treats axis=None like axis=0)
        "sum_2d_noaxis": (np.array(COORD[:n], dtype=np.float64).reshape(n, 3), np.sum, None, "scalar_2d_data"),
        "max_2d_noaxis": (np.array(COORD[:n], dtype=np.float64).reshape(n, 3), np.max, None, "scalar_2d_data"),
        "min_2d_noaxis": (np.array(COORD[:n], dtype=np.float64).reshape(n, 3), np.min, None, "scalar_2d_data"),
        "max_int": (ints, np.max, None, "scalar_int"),
        "min_axis0": (np.array(COORD[:n], dtype=np.float64).reshape(n, 3), np.min, 0, "array_axis0"),
    }


APPLY_CORE = ("sum_int", "mean_axis0", "sum_2d_noaxis", "max_2d_noaxis")
APPLY_FULL = ("sum_int", "mean_axis0", "minmax_arr", "len", "first_str", "any_bool", "fsum",
              "sum_2d_noaxis", "max_2d_noaxis", "min_2d_noaxis", "max_int", "min_axis0")


def index_arrays(n, enum, full):
    """(index list, class) ; class in valid / negative / beyond_end / empty_indices.
    enum: every array of length <= 2 over [-2, n+1] (plus identity and reversal);
    otherwise identity and reversal, plus 4 refused arrays at level full."""
    out = []

    def cls(ix):
        if not ix:
            return "empty_indices"
        if any(i < 0 for i in ix):
            return "negative"
        if any(i >= n for i in ix):
            return "beyond_end"
        return "valid"

    ident = list(range(n))
    cand = []
    if enum:
        vals = list(range(-2, n + 2))
        cand.append([])
        for v in vals:
            cand.append([v])
        for v in vals:
            for w in vals:
                cand.append([v, w])
        if n >= 3:
            cand.append(ident)
            cand.append(ident[::-1])
    elif full:
        cand += [ident, ident[::-1], [-1], [n], [n - 1, n], [-1, 0]]
    else:
        cand += [ident, ident[::-1]]
    for ix in cand:
        out.append((ix, cls(ix)))
    return out


def _funcs():
    import biotite.structure as struc

    return {
        "residue": {
            "starts": struc.get_residue_starts, "masks": struc.get_residue_masks,
            "starts_for": struc.get_residue_starts_for, "positions": struc.get_residue_positions,
            "count": struc.get_residue_count, "iter": struc.residue_iter, "apply": struc.apply_residue_wise,
            "spread": struc.spread_residue_wise, "names": struc.get_residues,
        },
        "chain": {
            "starts": struc.get_chain_starts, "masks": struc.get_chain_masks,
            "starts_for": struc.get_chain_starts_for, "positions": struc.get_chain_positions,
            "count": struc.get_chain_count, "iter": struc.chain_iter, "apply": struc.apply_chain_wise,
            "spread": struc.spread_chain_wise, "names": struc.get_chains,
        },
    }


_F = None


def nd(x):
    """Canonical form of an observed value: (shape, nested list)."""
    a = np.asarray(x)
    return (tuple(a.shape), a.tolist())


def check_pattern(ctx, case, rows, as_stack, full):
    """Run every view on one pattern.  Returns (rs, cs) of the model."""
    global _F
    if _F is None:
        _F = _funcs()
    from biotite.structure import AtomArray, AtomArrayStack

    n = len(rows)
    arr = build_atoms(rows, as_stack)
    rs, cs = model_starts(rows)
    empty = "empty_array" if n == 0 else "nonempty"
    calls = 0

    def viol(func, mode, cls, what, exp, got):
        ctx.violation("%s|%s|%s" % (func, mode, cls), what, case, expected=exp, observed=got)

    def run(func, cls, exp, thunk, conv=nd):
        """ACCEPT: thunk() must return exp (after conv)."""
        nonlocal calls
        calls += 1
        try:
            got = conv(thunk())
        except Exception as e:  # noqa: BLE001
            viol(func, "raised_" + type(e).__name__, cls, "%s raised %s: %s" % (func, type(e).__name__, str(e)[:120]),
                 exp, type(e).__name__)
            return False
        if got != exp:
            viol(func, "wrong_value", cls, "%s disagrees with per-atom recomputation" % func, exp, got)
            return False
        return True

    for kind, starts in (("residue", rs), ("chain", cs)):
        F = _F[kind]
        nseg = len(starts)
        seg_of = model_seg_of(starts, n)
        members = [[i for i in range(n) if seg_of[i] == k] for k in range(nseg)]
        fn = "get_%s_" % kind
        # --- starts -------------------------------------------------------
        run(fn + "starts", empty, ((nseg,), starts), lambda: F["starts"](arr))
        run(fn + "starts", empty + "_exclusive_stop", ((nseg + 1,), starts + [n]),
            lambda: F["starts"](arr, add_exclusive_stop=True))
        run(fn + "count", empty, nseg, lambda: F["count"](arr), conv=int)
        if kind == "residue":
            run("get_residues", empty, [((nseg,), [rows[s][1] for s in starts]), ((nseg,), [rows[s][3] for s in starts])],
                lambda: F["names"](arr), conv=lambda t: [nd(t[0]), nd(t[1])])
        else:
            run("get_chains", empty, ((nseg,), [rows[s][0] for s in starts]), lambda: F["names"](arr))
        # --- index views --------------------------------------------------
        for ix, icls in index_arrays(n, n <= 3 and not as_stack, full):
            ixa = np.array(ix, dtype=np.int64)
            k = len(ix)
            if icls in ("negative", "beyond_end"):
                for name in ("masks", "starts_for", "positions"):
                    calls += 1
                    ctx.count("refused")
                    try:
                        got = F[name](arr, ixa)
                    except Exception:  # noqa: BLE001
                        continue
                    viol(fn + name, "not_refused", icls, "index array outside [0, n) was not rejected",
                         "exception", nd(got))
                continue
            ctx.count("accepted", 3)
            c = empty if icls == "valid" else empty + "_" + icls
            run(fn + "masks", c, ((k, n), [[seg_of[j] == seg_of[i] for j in range(n)] for i in ix]),
                lambda: _bool_only(F["masks"](arr, ixa)))
            run(fn + "starts_for", c, ((k,), [starts[seg_of[i]] for i in ix]), lambda: F["starts_for"](arr, ixa))
            run(fn + "positions", c, ((k,), [seg_of[i] for i in ix]), lambda: F["positions"](arr, ixa))
        if n and full:
            # the same through a plain Python list
            ident = list(range(n))
            run(fn + "positions", empty + "_list", ((n,), seg_of), lambda: F["positions"](arr, ident))
            run(fn + "starts_for", empty + "_list", ((n,), [starts[k] for k in seg_of]),
                lambda: F["starts_for"](arr, ident))
        # --- iteration ----------------------------------------------------
        calls += 1
        try:
            segs = list(F["iter"](arr))
            obs = []
            for s in segs:
                if type(s) is not type(arr):
                    obs.append(type(s).__name__)
                    continue
                tagl = s.atom_name.tolist()
                o = [list(z) for z in zip(s.chain_id.tolist(), s.res_id.tolist(), s.ins_code.tolist(),
                                          s.res_name.tolist())]
                obs.append([tagl, o, s.coord.tolist()])
        except Exception as e:  # noqa: BLE001
            viol(kind + "_iter", "raised_" + type(e).__name__, empty, "iteration raised", None, str(e)[:200])
        else:
            exp = []
            for mem in members:
                co = [COORD[i] for i in mem]
                if as_stack:
                    co = [co, [[x + 64.0 for x in c] for c in co]]
                exp.append([[TAGS[i] for i in mem], [list(rows[i]) for i in mem], co])
            if obs != exp:
                viol(kind + "_iter", "wrong_value", empty, "iterated segments differ from per-atom segments", exp, obs)
            else:
                cat = [t for o in obs for t in o[0]]
                if cat != TAGS[:n]:
                    viol(kind + "_iter", "concatenation", empty, "concatenated segments do not reproduce the array",
                         TAGS[:n], cat)
        # --- apply --------------------------------------------------------
        table = apply_table(n)
        for name in (APPLY_FULL if full else APPLY_CORE):
            data, f, axis, rcls = table[name]
            if n == 0:
                # unspecified: no segment, the function is never evaluated
                calls += 1
                ctx.count("unspecified")
                try:
                    got = F["apply"](arr, data, f, axis=axis) if axis is not None else F["apply"](arr, data, f)
                except Exception:  # noqa: BLE001
                    continue
                if got is not None and len(got) != 0:
                    viol("apply_%s_wise" % kind, "wrong_value", rcls + "|empty_array", "non-empty result for no segment",
                         "None / empty / exception", nd(got))
                continue
            ctx.count("accepted")
            vals = []
            for mem in members:
                sub = data[np.array(mem, dtype=np.int64)]
                vals.append(np.asarray(f(sub, axis=axis) if axis is not None else f(sub)))
            exp = ((nseg,) + tuple(vals[0].shape), [v.tolist() for v in vals])
            if axis is not None:
                run("apply_%s_wise" % kind, rcls, exp, lambda: F["apply"](arr, data, f, axis=axis))
            else:
                run("apply_%s_wise" % kind, rcls, exp, lambda: F["apply"](arr, data, f))
        # --- spread -------------------------------------------------------
        sp = [("pylist_int", [7 * k + 3 for k in range(nseg)])]
        if full:
            sp.append(("array_2d", np.array([[k, -k] for k in range(nseg)], dtype=np.int64).reshape(nseg, 2)))
            sp.append(("array_str", np.array(["s%dx" % k + "y" * k for k in range(nseg)], dtype="U8")))
        for sname, inp in sp:
            ctx.count("accepted")
            ref = np.asarray(inp)
            exp = ((n,) + tuple(ref.shape[1:]), [ref[seg_of[i]].tolist() for i in range(n)])
            run("spread_%s_wise" % kind, sname + ("|empty_array" if n == 0 else ""), exp,
                lambda: F["spread"](arr, inp))
    # inputs untouched
    now = [tuple(z) for z in zip(arr.chain_id.tolist(), arr.res_id.tolist(), arr.ins_code.tolist(),
                                 arr.res_name.tolist())]
    if now != [tuple(r) for r in rows] or arr.atom_name.tolist() != TAGS[:n]:
        viol("seg_views", "input_mutated", empty, "a view function changed the atom array", rows, now)
    ctx.count("calls", calls)
    return rs, cs


def _bool_only(m):
    if m.dtype != bool:
        raise TypeError("mask dtype is %s" % m.dtype)
    return m


# ---------------------------------------------------------------------------
# graphs
# ---------------------------------------------------------------------------
def pairs_of(v):
    return [(i, j) for i in range(v) for j in range(i + 1, v)]


TYPE_CYCLE = (1, 2, 5, 0, 3, 6)


def build_bonds(v, edges, variant):
    from biotite.structure import BondList

    if variant == 0:
        if edges:
            return BondList(v, np.array(edges, dtype=np.int64))
        return BondList(v)
    bl = BondList(v)
    for k, (i, j) in enumerate(reversed(edges)):
        bl.add_bond(j, i, TYPE_CYCLE[k % len(TYPE_CYCLE)])
    return bl


def oor_roots(v):
    return [-v - 1, v, v + 1, 2**31 - 1, 2**31, 2**32 - 1, 2**32, -(2**31)]


def check_graph(ctx, case, v, bits, variant):
    import biotite.structure as struc
    from biotite.structure import AtomArray, stack

    allp = pairs_of(v)
    edges = [p for k, p in enumerate(allp) if bits >> k & 1]
    comps = components(v, edges)
    exp_sets = sorted(tuple(c) for c in comps)
    comp_of = {}
    for c in comps:
        for i in c:
            comp_of[i] = c
    bl = build_bonds(v, edges, variant)
    before = sorted(map(tuple, bl.as_array().tolist()))
    cls = "no_atoms" if v == 0 else ("no_bonds" if not edges else "bonded")

    def viol(func, mode, what, exp, got):
        ctx.violation("%s|%s|%s" % (func, mode, cls), what, case, expected=exp, observed=got)

    def as_sets(lst):
        out = []
        for x in lst:
            t = [int(i) for i in np.asarray(x).tolist()]
            if len(set(t)) != len(t):
                raise ValueError("duplicate atom in molecule %r" % (t,))
            out.append(tuple(sorted(t)))
        return sorted(out)

    atoms = AtomArray(v)
    atoms.atom_name = np.array(TAGS[:v], dtype="U6")
    atoms.bonds = bl
    if variant == 1:
        atoms = stack([atoms, atoms.copy()])
    targets = (("bondlist", bl), ("atoms", atoms))
    for tname, tgt in targets:
        # indices
        try:
            got = as_sets(struc.get_molecule_indices(tgt))
        except Exception as e:  # noqa: BLE001
            viol("get_molecule_indices", "raised_" + type(e).__name__, str(e)[:200], exp_sets, None)
        else:
            if got != exp_sets:
                viol("get_molecule_indices", "wrong_value", "molecules are not the connected components (%s input)"
                     % tname, exp_sets, got)
        # masks
        try:
            m = struc.get_molecule_masks(tgt)
            if m.dtype != bool or m.ndim != 2 or m.shape[1] != v:
                raise TypeError("mask array has dtype %s shape %s" % (m.dtype, m.shape))
            got = sorted(tuple(int(i) for i in np.where(row)[0]) for row in m)
        except Exception as e:  # noqa: BLE001
            viol("get_molecule_masks", "raised_" + type(e).__name__, str(e)[:200], exp_sets, None)
        else:
            if got != exp_sets:
                viol("get_molecule_masks", "wrong_value", "masks are not the connected components (%s input)" % tname,
                     exp_sets, got)
    # iteration
    try:
        mols = list(struc.molecule_iter(atoms))
        got = []
        for mol in mols:
            if type(mol) is not type(atoms):
                raise TypeError("molecule_iter yielded %s" % type(mol).__name__)
            t = [TAGS.index(x) for x in mol.atom_name.tolist()]
            if len(set(t)) != len(t):
                raise ValueError("duplicate atom in molecule %r" % (t,))
            got.append(tuple(sorted(t)))
        got.sort()
    except Exception as e:  # noqa: BLE001
        viol("molecule_iter", "raised_" + type(e).__name__, str(e)[:200], exp_sets, None)
    else:
        if got != exp_sets:
            viol("molecule_iter", "wrong_value", "iterated molecules are not the connected components", exp_sets, got)
    # find_connected for every root
    for root in range(v):
        exp = comp_of[root]
        try:
            got = sorted(int(i) for i in struc.find_connected(bl, root).tolist())
            gm = np.asarray(struc.find_connected(bl, root, as_mask=True)).astype(bool).tolist()
        except Exception as e:  # noqa: BLE001
            viol("find_connected", "raised_" + type(e).__name__, str(e)[:200], exp, None)
            continue
        if got != exp:
            viol("find_connected", "wrong_value", "not the component of the root", exp, got)
        if gm != [i in exp for i in range(v)]:
            viol("find_connected(as_mask)", "wrong_value", "mask is not the component of the root", exp, gm)
    ctx.count("accepted", 5 + 2 * v)
    # roots outside [0, v)
    for root in oor_roots(v):
        ctx.count("refused")
        try:
            got = struc.find_connected(bl, root)
        except Exception:  # noqa: BLE001
            continue
        viol("find_connected", "not_refused", "root outside the atom range was accepted", "exception",
             [root, np.asarray(got).tolist()])
    for root in range(-v, 0):
        ctx.count("unspecified")
        try:
            got = sorted(int(i) for i in struc.find_connected(bl, root).tolist())
        except Exception:  # noqa: BLE001
            continue
        if got != comp_of[root + v]:
            viol("find_connected", "wrong_value_negative_root", "negative root: neither error nor component of root % n",
                 comp_of[root + v], got)
    after = sorted(map(tuple, bl.as_array().tolist()))
    if after != before or bl.get_atom_count() != v:
        viol("molecules", "input_mutated", "bond list changed by a query", before, after)
    cyc = len(edges) > v - len(comps)
    return exp_sets, bool(edges) and (len(comps) >= 2 or cyc)


# ---------------------------------------------------------------------------
# size ladder
# ---------------------------------------------------------------------------
def ladder_graph(shape, n):
    """Returns (total atoms N, edge array (k,2) int64, depth a root-0 DFS needs, roots to probe).
    Atoms n..n+3 are extra: n and n+1 isolated, n+2 - n+3 bonded."""
    if shape == "path":
        a = np.arange(n - 1, dtype=np.int64)
        e = np.stack([a, a + 1], axis=1)
        depth = n
    elif shape == "ring":
        a = np.arange(n, dtype=np.int64)
        e = np.stack([a, (a + 1) % n], axis=1)
        depth = n
    elif shape == "comb":
        m = n // 2
        a = np.arange(m - 1, dtype=np.int64)
        back = np.stack([a, a + 1], axis=1)
        t = np.arange(m, dtype=np.int64)
        teeth = np.stack([t, t + m], axis=1)
        e = np.concatenate([back, teeth])
        n = 2 * m
        depth = m + 1
    elif shape == "tree":
        c = np.arange(1, n, dtype=np.int64)
        e = np.stack([(c - 1) // 2, c], axis=1)
        depth = int(np.log2(n)) + 2
    elif shape == "star":
        c = np.arange(1, n, dtype=np.int64)
        e = np.stack([np.zeros(n - 1, dtype=np.int64), c], axis=1)
        depth = 2
    elif shape == "pairs":
        m = n // 2
        a = np.arange(m, dtype=np.int64) * 2
        e = np.stack([a, a + 1], axis=1)
        n = 2 * m
        depth = 2
    else:
        raise ValueError(shape)
    e = np.concatenate([e, np.array([[n + 3, n + 2]], dtype=np.int64)])
    return n + 4, e, depth, [0, n // 2, n - 1, n, n + 3]


def summarize(members):
    """members: iterable of ints -> (len, min, max, sum, sum of squares mod p) as exact Python ints."""
    a = np.asarray(members, dtype=np.int64)
    if a.size == 0:
        return (0, -1, -1, 0, 0)
    return (int(a.size), int(a.min()), int(a.max()), int(a.sum()), int((a * a % 1000003).sum()))


def ladder_child(shape, n, func):
    """Executed in a forked child.  Returns list of component summaries (or per-root summaries)."""
    import resource

    import biotite.structure as struc
    from biotite.structure import AtomArray, BondList

    soft, hard = resource.getrlimit(resource.RLIMIT_STACK)
    want = 8 * 1024 * 1024
    if hard != resource.RLIM_INFINITY and hard < want:
        want = hard
    resource.setrlimit(resource.RLIMIT_STACK, (want, hard))
    N, e, depth, roots = ladder_graph(shape, n)
    bl = BondList(N, e)
    if func == "find_connected":
        out = []
        for r in roots:
            res = struc.find_connected(bl, r)
            out.append(summarize(res))
        m = np.asarray(struc.find_connected(bl, roots[0], as_mask=True)).astype(bool)
        if m.shape != (N,):
            raise TypeError("mask shape %r" % (m.shape,))
        out.append(summarize(np.where(m)[0]))
        return out
    if func == "get_molecule_indices":
        return sorted(summarize(x) for x in struc.get_molecule_indices(bl))
    if func == "get_molecule_masks":
        m = struc.get_molecule_masks(bl)
        if m.dtype != bool or m.ndim != 2 or m.shape[1] != N:
            raise TypeError("mask array has dtype %s shape %s" % (m.dtype, m.shape))
        return sorted(summarize(np.where(row)[0]) for row in m)
    if func == "molecule_iter":
        atoms = AtomArray(N)
        atoms.res_id = np.arange(N)
        atoms.bonds = bl
        return sorted(summarize(mol.res_id) for mol in struc.molecule_iter(atoms))
    raise ValueError(func)


_LADDER_CACHE = {}


def ladder_expected(shape, n):
    key = (shape, n)
    if key not in _LADDER_CACHE:
        _LADDER_CACHE.clear()
        N, e, depth, roots = ladder_graph(shape, n)
        comps = components(N, e.tolist())
        of_root = {}
        for c in comps:  # member lists are ascending
            for r in roots:
                if _in_sorted(c, r):
                    of_root[r] = c
        per_root = [summarize(of_root[r]) for r in roots] + [summarize(of_root[roots[0]])]
        _LADDER_CACHE[key] = (N, depth, per_root, sorted(summarize(c) for c in comps))
    return _LADDER_CACHE[key]


def check_ladder(ctx, case):
    shape, n, func = case["shape"], case["n"], case["func"]
    N, depth, per_root, all_comps = ladder_expected(shape, n)
    exp = per_root if func == "find_connected" else all_comps
    dcls = "bond_path_gt_1e4" if depth > DEEP else "bond_path_le_1e4"
    r = ctx.isolated(ladder_child, shape, n, func, timeout=LADDER_TIMEOUT)
    ctx.outcome((shape, n, func, r[0]))
    if r[0] == "ok":
        got = [tuple(x) for x in r[1]]
        if got != exp:
            ctx.violation("%s|wrong_value|ladder_%s" % (func, dcls), "large graph: result is not the set of connected "
                          "components", case, expected=exp[:6], observed=got[:6])
        else:
            ctx.count("ladder_ok")
        return
    if r[0] == "signal":
        import signal as _sig

        try:
            name = _sig.Signals(r[1]).name
        except ValueError:
            name = "SIG%d" % r[1]
        ctx.count("ladder_crash")
        ctx.violation("%s|process_killed_%s|ladder_%s" % (func, name, dcls),
                      "%s on a %s graph with %d atoms terminated the interpreter (%s)" % (func, shape, N, name),
                      case, expected="connected components", observed=list(r))
        return
    if r[0] == "timeout":
        ctx.violation("%s|did_not_terminate|ladder_%s" % (func, dcls), "no result within %d s" % LADDER_TIMEOUT, case,
                      expected="connected components", observed="timeout")
        return
    ctx.violation("%s|%s|ladder_%s" % (func, "raised_" + r[1] if r[0] == "exc" else "exit", dcls),
                  "large graph: call failed: %r" % (r,), case, expected="connected components", observed=list(r))


def _in_sorted(lst, x):
    import bisect

    i = bisect.bisect_left(lst, x)
    return i < len(lst) and lst[i] == x


# ---------------------------------------------------------------------------
# dimension families (audit): flavours, reuse, many items, graph flavours / edits
# ---------------------------------------------------------------------------
FLAV_PAL = {"chain": ("A", "B"), "res": (5, 7, 3), "ins": ("", "A"), "name": ("X", "Y")}
MANY_K = [9, 10, 11, 99, 100, 101, 255, 256, 257, 1000]
DEGREES = list(range(1, 18)) + [31, 32, 33, 63, 64, 65, 127, 128, 129, 255, 256, 257]


def expect(ctx, case, func, cls, exp, thunk, conv=nd):
    """ACCEPT: conv(thunk()) must equal exp.  Returns True when it does."""
    ctx.count("calls")
    try:
        got = conv(thunk())
    except CaseTimeout:
        raise
    except Exception as e:  # noqa: BLE001
        ctx.violation("%s|raised_%s|%s" % (func, type(e).__name__, cls),
                      "%s raised %s: %s" % (func, type(e).__name__, str(e)[:120]), case, expected=exp,
                      observed=type(e).__name__)
        return False
    if got != exp:
        ctx.violation("%s|wrong_value|%s" % (func, cls), "%s disagrees with per-atom recomputation" % func, case,
                      expected=exp, observed=got)
        return False
    return True


def check_views(ctx, case, arr, rows, cls, tags, views=("starts", "count", "names", "index", "iter", "apply", "spread")):
    """Core residue / chain views of one structure against the per-atom model (any size)."""
    global _F
    if _F is None:
        _F = _funcs()
    n = len(rows)
    rs, cs = model_starts(rows)
    for kind, starts in (("residue", rs), ("chain", cs)):
        F = _F[kind]
        nseg = len(starts)
        seg_of = model_seg_of(starts, n)
        fn = "get_%s_" % kind
        if "starts" in views:
            expect(ctx, case, fn + "starts", cls, ((nseg,), starts), lambda: F["starts"](arr))
        if "starts" in views or "starts_stop" in views:
            expect(ctx, case, fn + "starts(add_exclusive_stop)", cls, ((nseg + 1,), starts + [n]),
                   lambda: F["starts"](arr, add_exclusive_stop=True))
        if "count" in views:
            expect(ctx, case, fn + "count", cls, nseg, lambda: F["count"](arr), conv=int)
        if "names" in views:
            if kind == "residue":
                expect(ctx, case, "get_residues", cls,
                       [((nseg,), [rows[s][1] for s in starts]), ((nseg,), [rows[s][3] for s in starts])],
                       lambda: F["names"](arr), conv=lambda t: [nd(t[0]), nd(t[1])])
            else:
                expect(ctx, case, "get_chains", cls, ((nseg,), [rows[s][0] for s in starts]), lambda: F["names"](arr))
        if "index" in views:
            ident = np.arange(n - 1, -1, -1, dtype=np.int64)
            il = ident.tolist()
            expect(ctx, case, fn + "positions", cls, ((n,), [seg_of[i] for i in il]), lambda: F["positions"](arr, ident))
            expect(ctx, case, fn + "starts_for", cls, ((n,), [starts[seg_of[i]] for i in il]),
                   lambda: F["starts_for"](arr, ident))
            mi = il if n <= 64 else sorted(set(list(range(0, n, 37)) + [n - 1]))
            expect(ctx, case, fn + "masks", cls, ((len(mi), n), [[seg_of[j] == seg_of[i] for j in range(n)] for i in mi]),
                   lambda: _bool_only(F["masks"](arr, np.array(mi, dtype=np.int64))))
        if "iter" in views:
            members = [[] for _ in range(nseg)]
            for i in range(n):
                members[seg_of[i]].append(tags[i])

            def it():
                out = []
                for s in F["iter"](arr):
                    if not isinstance(arr, type(s)):  # the class of arr or (for a subclass instance) a base class
                        raise TypeError("%s_iter yielded %s for %s" % (kind, type(s).__name__, type(arr).__name__))
                    if s.coord.shape[:-2] != arr.coord.shape[:-2]:
                        raise TypeError("segment coord shape %r" % (s.coord.shape,))
                    out.append(s.atom_name.tolist())
                return out

            expect(ctx, case, kind + "_iter", cls, members, it, conv=lambda x: x)
        if "apply" in views and n:
            data = np.arange(n, dtype=np.int64) * 3 + 1
            sums = [0] * nseg
            for i in range(n):
                sums[seg_of[i]] += 3 * i + 1
            expect(ctx, case, "apply_%s_wise" % kind, cls, ((nseg,), sums), lambda: F["apply"](arr, data, np.sum))
        if "spread" in views:
            inp = list(range(100, 100 + nseg))
            expect(ctx, case, "spread_%s_wise" % kind, cls, ((n,), [100 + k for k in seg_of]),
                   lambda: F["spread"](arr, inp))
    return rs, cs


def _tags(n):
    return ["a%d" % i for i in range(n)]


def fill_atoms(arr, rows, order=("chain_id", "res_id", "ins_code", "res_name", "atom_name"), res_dtype=None,
               strided=False):
    """Set the annotations of an existing AtomArray / AtomArrayStack (any subclass) from rows."""
    n = len(rows)
    cols = {
        "chain_id": np.array([r[0] for r in rows], dtype="U4"),
        "res_id": np.array([r[1] for r in rows], dtype=res_dtype or np.int64),
        "ins_code": np.array([r[2] for r in rows], dtype="U1"),
        "res_name": np.array([r[3] for r in rows], dtype="U5"),
        "atom_name": np.array(_tags(n), dtype="U6"),
    }
    for name in order:
        col = cols[name]
        if strided:
            big = np.zeros(2 * n + 1, dtype=col.dtype)
            big[1::2] = col
            col = big[1::2]
            col.setflags(write=False)
        if name == "res_id" and res_dtype is not None:
            arr.del_annotation("res_id")
        arr.set_annotation(name, col)
    return arr


RES_DTYPES = ["int8", "int16", "int32", "uint8", "uint16", "uint32", "uint64", "float64"]
INDEX_FLAVOURS = ["list", "tuple", "int8", "int32", "uint8", "uint64", "strided", "readonly"]


def _index_flavour(name, ixl):
    if name == "list":
        return list(ixl)
    if name == "tuple":
        return tuple(ixl)
    if name == "strided":
        big = np.zeros(2 * len(ixl) + 1, dtype=np.int64)
        big[1::2] = ixl
        return big[1::2]
    if name == "readonly":
        a = np.array(ixl, dtype=np.int64)
        a.setflags(write=False)
        return a
    return np.array(ixl, dtype=name)


def _res_0d(seg):
    return np.array(seg.sum())


def _res_empty(seg):
    return np.zeros(0)


def _res_2d(seg):
    return np.array([[seg.min(), 1], [2, seg.max()]])


def check_flavours(ctx, case, rows):
    """One annotation pattern through every array / container flavour."""
    global _F
    if _F is None:
        _F = _funcs()
    from biotite.structure import AtomArray, AtomArrayStack

    class SubArray(AtomArray):
        pass

    n = len(rows)
    tags = _tags(n)
    rs, cs = model_starts(rows)
    base = fill_atoms(AtomArray(n), rows)
    # ---- index array flavours; the argument must stay untouched -------------------------------
    ixl = list(range(n - 1, -1, -1)) + list(range(n))
    for kind, starts in (("residue", rs), ("chain", cs)):
        F = _F[kind]
        seg_of = model_seg_of(starts, n)
        fn = "get_%s_" % kind
        for fl in INDEX_FLAVOURS:
            ix = _index_flavour(fl, ixl)
            c = "index_" + fl
            expect(ctx, case, fn + "masks", c, ((2 * n, n), [[seg_of[j] == seg_of[i] for j in range(n)] for i in ixl]),
                   lambda: _bool_only(F["masks"](base, ix)))
            expect(ctx, case, fn + "starts_for", c, ((2 * n,), [starts[seg_of[i]] for i in ixl]),
                   lambda: F["starts_for"](base, ix))
            expect(ctx, case, fn + "positions", c, ((2 * n,), [seg_of[i] for i in ixl]), lambda: F["positions"](base, ix))
            if list(ix) != ixl:
                ctx.violation(fn + "index_views|argument_mutated|" + c, "index argument changed by a view", case,
                              expected=ixl, observed=list(ix))
    # ---- structure flavours ---------------------------------------------------------------------
    variants = [
        ("strided_readonly_reordered", lambda: fill_atoms(_with_extra(AtomArray(n)), rows,
                                                           order=("atom_name", "res_name", "ins_code", "res_id",
                                                                  "chain_id"), strided=True)),
        ("stack_depth0", lambda: fill_atoms(AtomArrayStack(0, n), rows)),
        ("stack_depth1", lambda: fill_atoms(AtomArrayStack(1, n), rows)),
        ("subclass", lambda: fill_atoms(SubArray(n), rows)),
    ]
    for vname, make in variants:
        check_views(ctx, case, make(), rows, "structure_" + vname, tags)
    for dt in RES_DTYPES:
        arr = fill_atoms(AtomArray(n), rows, res_dtype=dt)
        ucls = "res_id_unsigned" if dt.startswith("u") else "res_id_" + dt
        check_views(ctx, case, arr, rows, ucls, tags, views=("starts_stop",))
    # narrow signed type whose differences do not fit the type
    wrap = {5: 100, 7: 120, 3: -100}
    wrows = [(r[0], wrap[r[1]], r[2], r[3]) for r in rows]
    check_views(ctx, case, fill_atoms(AtomArray(n), wrows, res_dtype="int8"), wrows, "res_id_int8_wraparound", tags,
                views=("starts_stop",))
    # ---- data flavours for apply, result flavours -----------------------------------------------
    if n:
        ints = INTS[:n]
        for kind, starts in (("residue", rs), ("chain", cs)):
            F = _F[kind]
            nseg = len(starts)
            seg_of = model_seg_of(starts, n)
            mem = [[i for i in range(n) if seg_of[i] == k] for k in range(nseg)]
            sums = [sum(ints[i] for i in m) for m in mem]
            ap = "apply_%s_wise" % kind
            for dname, data in (("list", list(ints)), ("float32", np.array(ints, dtype=np.float32)),
                                ("object", np.array(ints, dtype=object)), ("readonly", _ro(np.array(ints)))):
                keep = list(data)
                expect(ctx, case, ap, "data_" + dname, ((nseg,), sums), lambda: F["apply"](base, data, np.sum))
                if list(data) != keep:
                    ctx.violation(ap + "|argument_mutated|data_" + dname, "data changed by apply", case, keep, list(data))
            big = np.asfortranarray(np.zeros((n, 6)))
            big[:, ::2] = np.array(COORD[:n]).reshape(n, 3)
            fdata = big[:, ::2]
            expect(ctx, case, ap, "data_fortran_view",
                   ((nseg, 3), [[sum(COORD[i][c] for i in m) for c in range(3)] for m in mem]),
                   lambda: F["apply"](base, fdata, np.sum, axis=0))
            arr_i = np.array(ints, dtype=np.int64)
            expect(ctx, case, ap, "result_0d_array", ((nseg,), sums), lambda: F["apply"](base, arr_i, _res_0d))
            expect(ctx, case, ap, "result_empty_array", ((nseg, 0), [[] for _ in mem]),
                   lambda: F["apply"](base, arr_i, _res_empty))
            expect(ctx, case, ap, "result_2d_array",
                   ((nseg, 2, 2), [[[min(ints[i] for i in m), 1], [2, max(ints[i] for i in m)]] for m in mem]),
                   lambda: F["apply"](base, arr_i, _res_2d))
    # ---- spread flavours, result must not alias the input ---------------------------------------
    for kind, starts in (("residue", rs), ("chain", cs)):
        F = _F[kind]
        nseg = len(starts)
        seg_of = model_seg_of(starts, n)
        sp = "spread_%s_wise" % kind
        vals = [7 * k + 3 for k in range(nseg)]
        exp = ((n,), [vals[k] for k in seg_of])
        big = np.zeros(2 * nseg + 1, dtype=np.int64)
        big[1::2] = vals
        two = np.asfortranarray(np.array([[k, -k] for k in range(nseg)], dtype=np.int64).reshape(nseg, 2))
        for sname, inp, e in (("tuple", tuple(vals), exp), ("strided", big[1::2], exp),
                              ("readonly", _ro(np.array(vals, dtype=np.int64)), exp),
                              ("fortran_2d", two, ((n, 2), [[k, -k] for k in seg_of]))):
            expect(ctx, case, sp, "input_" + sname, e, lambda: F["spread"](base, inp))
        src = np.array(vals, dtype=np.int64)
        try:
            out = F["spread"](base, src)
            if isinstance(out, np.ndarray) and out.flags.writeable:
                out[...] = -12345
            if src.tolist() != vals:
                ctx.violation(sp + "|result_aliases_input|nonempty", "writing to the spread result changed the input",
                              case, expected=vals, observed=src.tolist())
        except Exception:  # noqa: BLE001
            pass  # already reported by the flavour calls above
    # ---- scribbling on returned arrays must not influence later queries --------------------------
    for kind in ("residue", "chain"):
        F = _F[kind]
        ident = np.arange(n, dtype=np.int64)
        try:
            got = [F["starts"](base), F["starts"](base, add_exclusive_stop=True), F["masks"](base, ident),
                   F["starts_for"](base, ident), F["positions"](base, ident)]
            nm = F["names"](base)
            got += list(nm) if isinstance(nm, tuple) else [nm]
            for g in got:
                if isinstance(g, np.ndarray) and g.flags.writeable and g.size:
                    g[...] = g.flat[0].__class__(1) if g.dtype.kind != "U" else "?"
        except Exception:  # noqa: BLE001
            pass
    check_views(ctx, case, base, rows, "after_results_overwritten", tags)
    ctx.count("accepted", 1)
    return rs, cs


def _ro(a):
    a.setflags(write=False)
    return a


def _with_extra(arr):
    arr.set_annotation("b_factor", np.arange(arr.array_length(), dtype=float))
    return arr


# ---- reuse: the same structure queried, edited in place, queried again ------------------------------
def letter_neighbours(d):
    """Letters differing from d in exactly one field."""
    c, r, i, m = d // 12, (d // 4) % 3, (d // 2) % 2, d % 2
    out = [(1 - c) * 12 + r * 4 + i * 2 + m]
    out += [c * 12 + r2 * 4 + i * 2 + m for r2 in range(3) if r2 != r]
    out += [c * 12 + r * 4 + (1 - i) * 2 + m, c * 12 + r * 4 + i * 2 + (1 - m)]
    return out


def check_reuse(ctx, case, digs, pos, new_letter, as_stack):
    rows = rows_of(digs, FLAV_PAL)
    n = len(rows)
    tags = _tags(n)
    from biotite.structure import AtomArray, AtomArrayStack

    arr = fill_atoms(AtomArrayStack(2, n) if as_stack else AtomArray(n), rows)
    views = ("starts", "count", "names", "index", "spread")
    check_views(ctx, case, arr, rows, "first_query", tags, views=views)
    # a refused query in between must not leave anything behind either
    for f in (_F["residue"]["positions"], _F["chain"]["masks"]):
        try:
            f(arr, np.array([n], dtype=np.int64))
        except Exception:  # noqa: BLE001
            pass
    nr = rows_of([new_letter], FLAV_PAL)[0]
    arr.chain_id[pos] = nr[0]
    arr.res_id[pos] = nr[1]
    arr.ins_code[pos] = nr[2]
    arr.res_name[pos] = nr[3]
    rows2 = list(rows)
    rows2[pos] = nr
    check_views(ctx, case, arr, rows2, "after_inplace_edit", tags, views=views)
    # and replaced as a whole (set_annotation)
    arr.res_id = np.array([r[1] for r in rows], dtype=np.int64)
    arr.chain_id = np.array([r[0] for r in rows], dtype="U4")
    rows3 = [(rows[k][0], rows[k][1], rows2[k][2], rows2[k][3]) for k in range(n)]
    check_views(ctx, case, arr, rows3, "after_annotation_replaced", tags, views=("starts", "index"))
    return model_starts(rows2)


# ---- many segments ---------------------------------------------------------------------------------
def many_rows(mode, k):
    rows = []
    for s in range(k):
        ln = 1 + s % 3
        if mode == "residues_one_chain":
            r = ("A", s + 1, "", "X")
        elif mode == "chains_by_id":
            r = ("c%d" % s, 1, "", "X")
        elif mode == "chains_by_decrease":
            r = ("A", 2 * k - 2 * s + (s % 2), "", "X")
        else:
            raise ValueError(mode)
        rows += [r] * ln
    return rows


MANY_MODES = ["residues_one_chain", "chains_by_id", "chains_by_decrease"]


def check_many(ctx, case):
    from biotite.structure import AtomArray

    rows = many_rows(case["mode"], case["k"])
    arr = fill_atoms(AtomArray(len(rows)), rows)
    return check_views(ctx, case, arr, rows, "many_segments", _tags(len(rows)))


# ---- graph flavours ----------------------------------------------------------------------------------
def mol_expect(ctx, case, tgt, exp_sets, cls, with_iter=None):
    import biotite.structure as struc

    def sets(lst):
        out = []
        for x in lst:
            t = [int(i) for i in np.asarray(x).tolist()]
            if len(set(t)) != len(t):
                raise ValueError("duplicate atom in molecule %r" % (t,))
            out.append(tuple(sorted(t)))
        return sorted(out)

    v = tgt.get_atom_count() if hasattr(tgt, "get_atom_count") else tgt.array_length()
    expect(ctx, case, "get_molecule_indices", cls, exp_sets, lambda: struc.get_molecule_indices(tgt), conv=sets)

    def masks():
        m = struc.get_molecule_masks(tgt)
        if m.dtype != bool or m.ndim != 2 or m.shape[1] != v:
            raise TypeError("mask array has dtype %s shape %s" % (m.dtype, m.shape))
        return sorted(tuple(int(i) for i in np.where(row)[0]) for row in m)

    expect(ctx, case, "get_molecule_masks", cls, exp_sets, masks, conv=lambda x: x)
    if with_iter is not None:
        def it():
            out = []
            for mol in struc.molecule_iter(tgt):
                if type(mol) is not type(tgt) and not with_iter:
                    raise TypeError("molecule_iter yielded %s" % type(mol).__name__)
                out.append(tuple(sorted(int(x[1:]) for x in mol.atom_name.tolist())))
            return sorted(out)

        expect(ctx, case, "molecule_iter", cls, exp_sets, it, conv=lambda x: x)


BOND_ARRAY_FLAVOURS = ["uint8", "int32", "uint32", "int64_k3_fortran", "strided", "redundant_rows", "readonly"]
ROOT_FLAVOURS = ["int64", "int32", "uint8", "uint64", "zero_d_array"]


def check_graph_flavours(ctx, case, v, bits):
    import biotite.structure as struc
    from biotite.structure import AtomArray, AtomArrayStack, BondList

    class SubBonds(BondList):
        pass

    class SubAtoms(AtomArray):
        pass

    edges = [p for k, p in enumerate(pairs_of(v)) if bits >> k & 1]
    comps = components(v, edges)
    exp_sets = sorted(tuple(c) for c in comps)
    comp_of = {i: c for c in comps for i in c}
    e2 = np.array(edges, dtype=np.int64).reshape(len(edges), 2)
    for fl in BOND_ARRAY_FLAVOURS:
        if fl in ("uint8", "int32", "uint32"):
            src = e2.astype(fl)
        elif fl == "int64_k3_fortran":
            src = np.asfortranarray(np.concatenate([e2, np.ones((len(edges), 1), dtype=np.int64)], axis=1))
        elif fl == "strided":
            big = np.full((2 * len(edges) + 1, 2), 0, dtype=np.int64)
            big[1::2] = e2
            src = big[1::2]
        elif fl == "redundant_rows":
            src = np.concatenate([e2, e2[::-1, ::-1], e2[:1]])
        else:
            src = e2.copy()
            src.setflags(write=False)
        keep = src.tolist()
        try:
            bl = BondList(v, src)
        except Exception as e:  # noqa: BLE001
            ctx.violation("BondList|raised_%s|bond_array_%s" % (type(e).__name__, fl), "legal bond array refused",
                          case, expected="bond list", observed=str(e)[:200])
            continue
        mol_expect(ctx, case, bl, exp_sets, "bond_array_" + fl)
        if src.tolist() != keep:
            ctx.violation("BondList|argument_mutated|bond_array_" + fl, "bond array changed", case, keep, src.tolist())
        if src.flags.writeable and src.size:
            src[...] = 0  # later change of the source must not reach the bond list
            mol_expect(ctx, case, bl, exp_sets, "bond_array_%s_source_overwritten" % fl)
    bl = build_bonds(v, edges, 0)
    # roots of every integer flavour
    for fl in ROOT_FLAVOURS:
        for root in range(v):
            r = np.array(root) if fl == "zero_d_array" else np.dtype(fl).type(root)
            expect(ctx, case, "find_connected", "root_" + fl, comp_of[root],
                   lambda: struc.find_connected(bl, r), conv=lambda x: sorted(int(i) for i in np.asarray(x).tolist()))
    # containers: subclasses, stacks of depth 0 / 1
    sb = SubBonds(v, e2) if edges else SubBonds(v)
    mol_expect(ctx, case, sb, exp_sets, "bondlist_subclass")
    for cname, make in (("atoms_subclass", lambda: SubAtoms(v)), ("stack_depth0", lambda: AtomArrayStack(0, v)),
                        ("stack_depth1", lambda: AtomArrayStack(1, v))):
        at = make()
        at.atom_name = np.array(_tags(v), dtype="U6")
        at.bonds = bl.copy()
        mol_expect(ctx, case, at, exp_sets, cname, with_iter=(cname == "atoms_subclass"))
    # results handed out are not internal state
    try:
        outs = list(struc.get_molecule_indices(bl)) + [struc.get_molecule_masks(bl)]
        if v:
            outs.append(struc.find_connected(bl, 0))
            outs.append(np.asarray(struc.find_connected(bl, 0, as_mask=True)))
        for o in outs:
            if isinstance(o, np.ndarray) and o.flags.writeable and o.size:
                o[...] = 0
    except Exception:  # noqa: BLE001
        pass
    mol_expect(ctx, case, bl, exp_sets, "after_results_overwritten")
    # error paths: refused calls leave nothing behind
    at = AtomArray(v)
    at.atom_name = np.array(_tags(v), dtype="U6")
    for bad in (at, [0, 1], None):
        ctx.count("unspecified")
        for f in (struc.get_molecule_indices, struc.get_molecule_masks, lambda x: list(struc.molecule_iter(x))):
            try:
                f(bad)
            except Exception:  # noqa: BLE001
                pass
    for root in oor_roots(v):
        try:
            struc.find_connected(bl, root)
        except Exception:  # noqa: BLE001
            pass
    if at.bonds is not None:
        ctx.violation("molecules|argument_mutated|structure_without_bonds", "a refused call attached bonds", case,
                      None, repr(at.bonds))
    at.bonds = bl
    mol_expect(ctx, case, at, exp_sets, "after_refused_calls", with_iter=False)
    if sorted(map(tuple, bl.as_array()[:, :2].tolist())) != sorted(edges) or bl.get_atom_count() != v:
        ctx.violation("molecules|input_mutated|bonded", "bond list changed by a query", case, edges,
                      bl.as_array().tolist())
    return exp_sets, bool(edges)


# ---- graph edits: query, edit the same bond list / structure, query again ------------------------------
def check_graph_edits(ctx, case, v, bits, selections=True):
    from biotite.structure import AtomArray

    allp = pairs_of(v)
    edges = [p for k, p in enumerate(allp) if bits >> k & 1]
    exp0 = sorted(tuple(c) for c in components(v, edges))
    n_cases = 0
    # every single-bond toggle on a queried object
    for k, p in enumerate(allp):
        bl = build_bonds(v, edges, k % 2)
        at = AtomArray(v)
        at.atom_name = np.array(_tags(v), dtype="U6")
        at.bonds = bl
        mol_expect(ctx, case, at, exp0, "first_query", with_iter=False)
        if p in edges:
            bl.remove_bond(p[1], p[0])
            e2 = [q for q in edges if q != p]
            cls = "after_remove_bond"
        else:
            bl.add_bond(p[1], p[0], 2)
            e2 = edges + [p]
            cls = "after_add_bond"
        exp = sorted(tuple(c) for c in components(v, e2))
        mol_expect(ctx, case, bl, exp, cls)
        mol_expect(ctx, case, at, exp, cls, with_iter=False)
        n_cases += 1
    # all bonds of one atom removed
    for a in range(v):
        bl = build_bonds(v, edges, 0)
        mol_expect(ctx, case, bl, exp0, "first_query")
        bl.remove_bonds_to(a)
        e2 = [q for q in edges if a not in q]
        mol_expect(ctx, case, bl, sorted(tuple(c) for c in components(v, e2)), "after_remove_bonds_to")
        n_cases += 1
    # every sub-structure selected by a boolean mask: molecules of the induced sub-graph
    at = AtomArray(v)
    at.atom_name = np.array(_tags(v), dtype="U6")
    at.bonds = build_bonds(v, edges, 0)
    for mbits in range(1 << v if selections else 0):
        sel = [i for i in range(v) if mbits >> i & 1]
        new = {old: k for k, old in enumerate(sel)}
        e2 = [(new[a], new[b]) for a, b in edges if a in new and b in new]
        exp = sorted(tuple(c) for c in components(len(sel), e2))
        mask = np.array([bool(mbits >> i & 1) for i in range(v)], dtype=bool)
        try:
            sub = at[mask]
            subb = at.bonds[mask]
        except Exception as e:  # noqa: BLE001
            ctx.violation("molecules|raised_%s|mask_selection" % type(e).__name__, "selection failed", case, None,
                          str(e)[:200])
            continue
        mol_expect(ctx, case, subb, exp, "bondlist_mask_selection")
        mol_expect(ctx, case, sub, exp, "atoms_mask_selection")
        n_cases += 1
    mol_expect(ctx, case, at, exp0, "after_selections", with_iter=False)
    return exp0, n_cases


# ---- many molecules / high degree -----------------------------------------------------------------------
def check_many_molecules(ctx, case):
    from biotite.structure import AtomArray, BondList

    if case["mode"] == "interleaved_paths":
        k = case["k"]
        sizes = [1 + i % 3 for i in range(k)]
        # atom j of molecule i sits at index i + j*k (molecules interleaved, none contiguous)
        edges = []
        for i in range(k):
            for j in range(sizes[i] - 1):
                edges.append((i + j * k, i + (j + 1) * k))
        n = max(i + (sizes[i] - 1) * k for i in range(k)) + 1  # unused indices in between are single atoms
    else:  # star of the given degree + one isolated atom + one pair
        d = case["k"]
        edges = [(0, c) for c in range(1, d + 1)]
        n = d + 4
        edges.append((d + 2, d + 3))
    exp = sorted(tuple(c) for c in components(n, edges))
    bl = BondList(n, np.array(edges[::-1], dtype=np.int64))
    at = AtomArray(n)
    at.atom_name = np.array(_tags(n), dtype="U6")
    at.bonds = bl
    mol_expect(ctx, case, bl, exp, "many_molecules" if case["mode"] == "interleaved_paths" else "high_degree")
    mol_expect(ctx, case, at, exp, "many_molecules" if case["mode"] == "interleaved_paths" else "high_degree",
               with_iter=False)
    return exp


# ---------------------------------------------------------------------------
# second dimension audit: result identity, all palettes per seed, awkward pairs, resize, derived inputs
# ---------------------------------------------------------------------------
AWK_PALETTES = [
    # trailing blank vs none / extreme int64 residue ids (sign + maximal width) / blank vs empty
    {"chain": ("A", "A "), "res": (0, 2**63 - 1, -(2**63)), "ins": ("", " "), "name": ("ALA", "ALA ")},
    # maximal width + common prefix / case only / int32 limits
    {"chain": ("ABCD", "ABCE"), "res": (-1, 0, -(2**31)), "ins": ("a", "A"), "name": ("abcde", "abcdE")},
    # empty vs blank / just beyond int32 / empty name
    {"chain": ("", " "), "res": (2**31 - 1, 2**31, -(2**31) - 1), "ins": ("A", "a"), "name": ("", "X")},
]
ALL_PALETTES = PALETTES + AWK_PALETTES
DIM2_KINDS = ("ident", "allpal", "alltypes", "resize", "gresize", "derived", "args")
RESIZE_LETTERS = [0, 8, 12, 20]  # chain{a,b} x res_id{base, lower}


def _path_bonds(n, mode):
    from biotite.structure import BondList

    edges = [(i, i + 1) for i in range(n - 1)] if mode == "path" else ([(0, 1)] if n >= 2 else [])
    return (BondList(n, np.array(edges, dtype=np.int64)) if edges else BondList(n)), edges


def check_result_identity(ctx, case):
    """Pieces handed out by the iterators are new objects: re-binding edits of a piece leave the operand alone."""
    import biotite.structure as struc
    from biotite.structure import AtomArray, AtomArrayStack

    rows = rows_of(case["digs"], FLAV_PAL)
    n = len(rows)
    tags = _tags(n)
    for name, it in (("residue_iter", struc.residue_iter), ("chain_iter", struc.chain_iter),
                     ("molecule_iter", struc.molecule_iter)):
        arr = fill_atoms(AtomArrayStack(2, n) if case["stack"] else AtomArray(n), rows)
        arr.coord = np.zeros(arr.coord.shape, dtype=np.float32) + 1.5
        arr.bonds, edges = _path_bonds(n, case["bonds"])
        cats = sorted(arr.get_annotation_categories())
        try:
            for piece in it(arr):
                ctx.count("calls")
                if piece is arr:
                    ctx.violation("%s|result_is_operand|%s" % (name, "whole_structure"),
                                  "the iterator handed out the structure itself", case, "a new object", "operand")
                m = piece.array_length()
                piece.set_annotation("c17_extra", np.zeros(m))
                piece.res_id = np.full(m, 77)
                piece.chain_id = np.full(m, "ZZ")
                piece.res_name = np.full(m, "QQQ")
                piece.del_annotation("ins_code")
                piece.coord = np.full(piece.coord.shape, 9.0, dtype=np.float32)
                if piece.bonds is not None:
                    if m:
                        piece.bonds.remove_bonds_to(0)
                    if m >= 2:
                        piece.bonds.add_bond(0, m - 1, 3)
                    piece.bonds = None
        except CaseTimeout:
            raise
        except Exception as e:  # noqa: BLE001
            ctx.violation("%s|raised_%s|result_edit" % (name, type(e).__name__), str(e)[:150], case, None, None)
            continue
        cls = "after_%s_results_edited" % name
        if sorted(arr.get_annotation_categories()) != cats:
            ctx.violation("%s|operand_changed|annotation_categories" % name, "editing a piece changed the operand's "
                          "annotation categories", case, cats, sorted(arr.get_annotation_categories()))
            continue
        check_views(ctx, case, arr, rows, cls, tags, views=("starts", "names", "index", "iter"))
        if arr.bonds is None or sorted(map(tuple, arr.bonds.as_array()[:, :2].tolist())) != edges:
            ctx.violation("%s|operand_changed|bonds" % name, "editing a piece changed the operand's bonds", case, edges,
                          None if arr.bonds is None else arr.bonds.as_array().tolist())
        else:
            mol_expect(ctx, case, arr, sorted(tuple(c) for c in components(n, edges)), cls, with_iter=False)
        if not (arr.coord == 1.5).all():
            ctx.violation("%s|operand_changed|coord" % name, "re-binding the coordinates of a piece changed the operand",
                          case, 1.5, arr.coord.tolist())
    return model_starts(rows)


def check_allpal(ctx, case):
    from biotite.structure import AtomArray

    rows = rows_of(case["digs"], ALL_PALETTES[case["pal"]])
    arr = fill_atoms(AtomArray(len(rows)), rows)
    cls = "palette_%d" % case["pal"] if case["pal"] < len(PALETTES) else "awkward_palette_%d" % (case["pal"] - len(PALETTES))
    return check_views(ctx, case, arr, rows, cls, _tags(len(rows)))


def check_alltypes(ctx, case):
    """Every BondType member on the bonds of every graph with <= 3 atoms."""
    from biotite.structure import BondList, BondType

    v, bits = case["v"], case["bits"]
    edges = [p for k, p in enumerate(pairs_of(v)) if bits >> k & 1]
    exp = sorted(tuple(c) for c in components(v, edges))
    for t in BondType:
        bl = BondList(v, np.array([(a, b, int(t)) for a, b in edges], dtype=np.int64).reshape(len(edges), 3))
        mol_expect(ctx, case, bl, exp, "bond_type_%s" % t.name)
        bl2 = BondList(v)
        for a, b in edges:
            bl2.add_bond(b, a, t)
        mol_expect(ctx, case, bl2, exp, "bond_type_%s" % t.name)
    return exp


def check_resize(ctx, case):
    """One structure object; its annotations are replaced by patterns with other numbers of segments and back."""
    from biotite.structure import AtomArray, AtomArrayStack

    stages = [case["a"], case["b"], case["a"]]
    n = len(case["a"])
    arr = fill_atoms(AtomArrayStack(2, n) if case["stack"] else AtomArray(n), rows_of(case["a"], FLAV_PAL))
    tags = _tags(n)
    for k, digs in enumerate(stages):
        rows = rows_of(digs, FLAV_PAL)
        if k:
            arr.chain_id = np.array([r[0] for r in rows], dtype="U4")
            arr.res_id = np.array([r[1] for r in rows], dtype=np.int64)
        rs, cs = check_views(ctx, case, arr, rows, "stage_%d_of_resized_content" % k, tags,
                             views=("count", "starts", "names", "index", "spread", "iter"))
    return model_starts(rows_of(case["b"], FLAV_PAL))


def check_gresize(ctx, case):
    """One bond list object (held by one AtomArray): edited in place from graph a to graph b and back."""
    from biotite.structure import AtomArray

    v = case["v"]
    allp = pairs_of(v)

    def edges_of(bits):
        return [p for k, p in enumerate(allp) if bits >> k & 1]

    cur = edges_of(case["a"])
    bl = build_bonds(v, cur, 0)
    at = AtomArray(v)
    at.atom_name = np.array(_tags(v), dtype="U6")
    at.bonds = bl
    for k, bits in enumerate([case["a"], case["b"], case["a"]]):
        tgt = edges_of(bits)
        if k:
            for p in cur:
                if p not in tgt:
                    bl.remove_bond(*p)
            for p in tgt:
                if p not in cur:
                    bl.add_bond(p[1], p[0], 1 + (p[0] + p[1]) % 3)
            cur = tgt
        # public reads that could leave cached state behind
        bl.get_bond_count()
        bl.get_all_bonds()
        exp = sorted(tuple(c) for c in components(v, cur))
        cls = "stage_%d_of_resized_bonds" % k
        mol_expect(ctx, case, bl, exp, cls)
        mol_expect(ctx, case, at, exp, cls, with_iter=False)
    return sorted(tuple(c) for c in components(v, edges_of(case["b"])))


def check_derived(ctx, case):
    """op2(op1(x)): every object the library hands out for x goes through every view."""
    import biotite.structure as struc
    from biotite.structure import AtomArray, stack

    rows = rows_of(case["digs"], FLAV_PAL)
    n = len(rows)

    def fresh():
        a = fill_atoms(AtomArray(n), rows)
        a.bonds, e = _path_bonds(n, "path")
        return a, e

    arr, edges = fresh()
    rs, cs = model_starts(rows)
    derived = []  # (class, object, original index of every atom)
    for mbits in range(1 << n):
        sel = [i for i in range(n) if mbits >> i & 1]
        derived.append(("bool_mask", arr[np.array([bool(mbits >> i & 1) for i in range(n)], dtype=bool)], sel))
    full = list(range(n))
    for nm, sl in (("slice_reversed", slice(None, None, -1)), ("slice_step2", slice(None, None, 2)),
                   ("slice_tail", slice(1, None)), ("slice_head", slice(None, -1))):
        derived.append((nm, arr[sl], full[sl]))
    if n >= 2:
        ia = [n - 1, 0]
        derived.append(("index_array_unsorted", arr[np.array(ia)], ia))
        perm = [1, 0] + full[2:]
        derived.append(("index_array_permutation", arr[np.array(perm)], perm))
    derived.append(("copy", arr.copy(), full))
    st = stack([arr, arr.copy()])
    derived.append(("stack_model", st[1], full))
    derived.append(("stack_slice", st[:, ::-1], full[::-1]))
    derived.append(("stack_copy", st.copy(), full))
    for nm, starts in (("residue_iter_piece", rs), ("chain_iter_piece", cs)):
        it = struc.residue_iter if nm[0] == "r" else struc.chain_iter
        bnd = starts + [n]
        for k, piece in enumerate(it(arr)):
            derived.append((nm, piece, list(range(bnd[k], bnd[k + 1]))))
    for piece in struc.molecule_iter(arr):
        derived.append(("molecule_iter_piece", piece, full))
    derived.append(("concatenated", arr + arr, full + [i + n for i in full]))
    for cls, obj, sel in derived:
        m = len(sel)
        if obj.array_length() != m:
            ctx.violation("derived|wrong_length|%s" % cls, "derived object has another length than its model", case, m,
                          obj.array_length())
            continue
        rows_d = [rows[i % n] for i in sel] if n else []
        pos = {}
        for new, old in enumerate(sel):
            pos.setdefault(old, new)
        e_all = edges + ([(a + n, b + n) for a, b in edges] if cls == "concatenated" else [])
        e_d = sorted({(min(pos[a], pos[b]), max(pos[a], pos[b])) for a, b in e_all if a in pos and b in pos})
        obj.atom_name = np.array(_tags(m), dtype="U6")
        check_views(ctx, case, obj, rows_d, "derived_" + cls, _tags(m))
        exp = sorted(tuple(c) for c in components(m, e_d))
        mol_expect(ctx, case, obj, exp, "derived_" + cls, with_iter=False)
        if obj.bonds is not None:
            mol_expect(ctx, case, obj.bonds, exp, "derived_" + cls + "_bonds")
    return rs, cs


def dim2_shards():
    out = []
    for st in (False, True):
        out.append({"kind": "ident", "stack": st})
    for p in range(len(ALL_PALETTES)):
        out.append({"kind": "allpal", "pal": p})
    out.append({"kind": "alltypes"})
    for k in range(4):
        out.append({"kind": "resize", "part": k, "parts": 4})
        out.append({"kind": "gresize", "part": k, "parts": 4})
    for k in range(2):
        out.append({"kind": "derived", "part": k, "parts": 2})
    out.append({"kind": "args"})
    return out


def dim2_cases(shard):
    k = shard["kind"]
    if k == "ident":
        for L in (0, 1, 2, 3):
            for digs in itertools.product(SUB["chain_res"], repeat=L):
                for bonds in ("path", "first"):
                    yield {"kind": "ident", "digs": list(digs), "stack": shard["stack"], "bonds": bonds}
    elif k == "allpal":
        for L in (0, 1, 2):
            for digs in itertools.product(range(NLET), repeat=L):
                yield {"kind": "allpal", "pal": shard["pal"], "digs": list(digs)}
    elif k == "alltypes":
        for v in (0, 1, 2, 3):
            for bits in range(1 << (v * (v - 1) // 2)):
                yield {"kind": "alltypes", "v": v, "bits": bits}
    elif k == "resize":
        idx = 0
        for a in itertools.product(RESIZE_LETTERS, repeat=3):
            for b in itertools.product(RESIZE_LETTERS, repeat=3):
                idx += 1
                if idx % shard["parts"] == shard["part"]:
                    yield {"kind": "resize", "a": list(a), "b": list(b), "stack": idx % 8 == 5}
    elif k == "gresize":
        idx = 0
        for v in (2, 3, 4):
            nb = 1 << (v * (v - 1) // 2)
            for a in range(nb):
                for b in range(nb):
                    idx += 1
                    if idx % shard["parts"] == shard["part"]:
                        yield {"kind": "gresize", "v": v, "a": a, "b": b}
    elif k == "args":
        for L in (0, 1, 2, 3):
            for digs in itertools.product(SUB["chain_res"], repeat=L):
                yield {"kind": "args", "digs": list(digs)}
    elif k == "derived":
        idx = 0
        for L in (0, 1, 2, 3):
            for digs in itertools.product(SUB["chain_res"], repeat=L):
                idx += 1
                if idx % shard["parts"] == shard["part"]:
                    yield {"kind": "derived", "digs": list(digs)}


def run_dim2_case(ctx, case):
    k = case["kind"]
    if k == "ident":
        rs, cs = check_result_identity(ctx, case)
        return (tuple(rs), tuple(cs)), len(case["digs"]) >= 1
    if k == "allpal":
        rs, cs = check_allpal(ctx, case)
        return (case["pal"], tuple(rs), tuple(cs)), len(case["digs"]) >= 2
    if k == "alltypes":
        exp = check_alltypes(ctx, case)
        return tuple(exp), case["bits"] > 0
    if k == "resize":
        rs, cs = check_resize(ctx, case)
        return (tuple(rs), tuple(cs)), case["a"] != case["b"]
    if k == "gresize":
        exp = check_gresize(ctx, case)
        return tuple(exp), case["a"] != case["b"]
    if k == "args":
        rs, cs = check_args(ctx, case)
        return (tuple(rs), tuple(cs)), len(case["digs"]) >= 2
    if k == "derived":
        rs, cs = check_derived(ctx, case)
        return (tuple(rs), tuple(cs)), len(case["digs"]) >= 2
    raise ValueError(case)


# ---------------------------------------------------------------------------
# third dimension audit: operands of another size, explicit vs default axis, unspecified operand sizes
# ---------------------------------------------------------------------------
def _sum_axis(seg, axis=None):
    return np.sum(seg, axis=axis)


def _join(seg):
    return "".join(seg.tolist())


def _int_then_float(seg):
    return int(seg[0]) if seg[0] == 1 else float(seg.sum()) / 4


def check_args(ctx, case):
    global _F
    if _F is None:
        _F = _funcs()
    from biotite.structure import AtomArray

    rows = rows_of(case["digs"], FLAV_PAL)
    n = len(rows)
    tags = _tags(n)
    arr = fill_atoms(AtomArray(n), rows)
    rs, cs = model_starts(rows)
    two = np.array([[INTS[i], -i] for i in range(n)], dtype=np.int64).reshape(n, 2)
    for kind, starts in (("residue", rs), ("chain", cs)):
        F = _F[kind]
        nseg = len(starts)
        seg_of = model_seg_of(starts, n)
        mem = [[i for i in range(n) if seg_of[i] == k] for k in range(nseg)]
        fn = "get_%s_" % kind
        # F: an index operand (much) larger than the structure it refers to
        ixl = [(7 * j + 3) % n for j in range(5 * n + 2)] if n else []
        ix = np.array(ixl, dtype=np.int64)
        expect(ctx, case, fn + "masks", "more_indices_than_atoms",
               ((len(ixl), n), [[seg_of[j] == seg_of[i] for j in range(n)] for i in ixl]),
               lambda: _bool_only(F["masks"](arr, ix)))
        expect(ctx, case, fn + "starts_for", "more_indices_than_atoms", ((len(ixl),), [starts[seg_of[i]] for i in ixl]),
               lambda: F["starts_for"](arr, ix))
        expect(ctx, case, fn + "positions", "more_indices_than_atoms", ((len(ixl),), [seg_of[i] for i in ixl]),
               lambda: F["positions"](arr, ix))
        if not n:
            continue
        # H: axis given explicitly (0 and its negative spelling) vs left to the function's own default
        ap = "apply_%s_wise" % kind
        tot = [sum(INTS[i] - i for i in m) for m in mem]
        col = [[sum(INTS[i] for i in m), sum(-i for i in m)] for m in mem]
        expect(ctx, case, ap, "axis_omitted_function_default", ((nseg,), tot), lambda: F["apply"](arr, two, _sum_axis))
        expect(ctx, case, ap, "axis_explicit_0", ((nseg, 2), col), lambda: F["apply"](arr, two, _sum_axis, axis=0))
        expect(ctx, case, ap, "axis_explicit_minus_2", ((nseg, 2), col), lambda: F["apply"](arr, two, _sum_axis, axis=-2))
        expect(ctx, case, ap, "axis_explicit_0_numpy_sum", ((nseg, 2), col), lambda: F["apply"](arr, two, np.sum, axis=0))
        # F: data / input of another length than the structure, functions breaking the "same dtype" contract:
        # outcome unspecified, but nothing may be modified and the next regular call must be right
        ints = np.array(INTS[:n], dtype=np.int64)
        strs = np.array(STRS[:n], dtype="U3")
        longer = np.arange(n + 2, dtype=np.int64)
        shorter = np.arange(max(n - 1, 0), dtype=np.int64)
        sp_long = list(range(nseg + 1))
        sp_short = list(range(nseg - 1))
        for thunk in (lambda: F["apply"](arr, longer, np.sum), lambda: F["apply"](arr, shorter, np.sum),
                      lambda: F["spread"](arr, sp_long), lambda: F["spread"](arr, sp_short),
                      lambda: F["apply"](arr, strs, _join), lambda: F["apply"](arr, ints, _int_then_float)):
            ctx.count("unspecified")
            try:
                thunk()
            except CaseTimeout:
                raise
            except Exception:  # noqa: BLE001
                pass
        if longer.tolist() != list(range(n + 2)) or shorter.tolist() != list(range(max(n - 1, 0))) \
                or sp_long != list(range(nseg + 1)) or strs.tolist() != STRS[:n] or ints.tolist() != INTS[:n]:
            ctx.violation(ap + "|argument_mutated|operand_of_other_size", "an argument was modified", case, None, None)
    check_views(ctx, case, arr, rows, "after_operands_of_other_size", tags)
    return rs, cs


# ---------------------------------------------------------------------------
# shards
# ---------------------------------------------------------------------------
def seg_palettes(tier, seed):
    if tier == "quick":
        return [seed % len(PALETTES)]
    return [0, 1 + seed % (len(PALETTES) - 1)]


# 12-letter sub-alphabets used for L = 5 (thorough): residue name fixed / insertion code fixed
SUB = {
    "all": list(range(NLET)),
    "name_fixed": [d for d in range(NLET) if d % 2 == 0],
    "ins_fixed": [d for d in range(NLET) if (d // 2) % 2 == 0],
}


def shards(tier, seed):
    out = []
    # widest first
    if tier == "thorough":
        for sub in ("name_fixed", "ins_fixed"):
            for f in SUB[sub]:
                for g in SUB[sub]:
                    out.append({"kind": "seg", "L": 5, "pal": 0, "sub": sub, "prefix": [f, g], "level": "core"})
        for k in range(256):
            out.append({"kind": "graph", "v": 7, "parts": 256, "part": k})
    l4 = "core" if tier == "quick" else "full"
    for p in seg_palettes(tier, seed):
        for f in range(NLET):
            for g in range(0, NLET, 6):
                out.append({"kind": "seg", "L": 4, "pal": p, "sub": "all", "prefix": [f], "second": [g, g + 6],
                            "level": l4})
        for f in range(NLET):
            out.append({"kind": "seg", "L": 3, "pal": p, "sub": "all", "prefix": [f], "level": "full"})
        for L in (2, 1, 0):
            out.append({"kind": "seg", "L": L, "pal": p, "sub": "all", "prefix": [], "level": "full"})
    for k in range(16):
        out.append({"kind": "graph", "v": 6, "parts": 16, "part": k})
    out.append({"kind": "graph", "v": [0, 1, 2, 3, 4, 5], "parts": 1, "part": 0})
    out += dim_shards()
    lad = []
    for shape in LADDER_SHAPES:
        for n in LADDER_SIZES[tier]:
            if n > SHAPE_MAX.get(shape, 10**9):
                continue
            lad.append({"kind": "ladder", "shape": shape, "n": n})
        if shape == "star":
            lad.append({"kind": "ladder", "shape": shape, "n": 3000})
    # big ladder shards early (they take longest), rest rotated by seed
    lad.sort(key=lambda s: -s["n"])
    big = [s for s in lad if s["n"] >= 100000]
    small = [s for s in lad if s["n"] < 100000]
    rest = out + small
    k = (seed * 7) % len(rest)
    return big + rest[k:] + rest[:k]


SUB["chain_res"] = [d for d in range(NLET) if d % 4 == 0]


DIM_KINDS = ("flav", "reuse", "many", "gflav", "gedit", "gmany") + DIM2_KINDS


def dim_shards():
    """Dimension families (same at both tiers, seed independent)."""
    out = [{"kind": "flav", "L": [0, 1], "sub": "all", "part": 0, "parts": 1},
           {"kind": "flav", "L": [3], "sub": "chain_res", "part": 0, "parts": 1}]
    for k in range(4):
        out.append({"kind": "flav", "L": [2], "sub": "all", "part": k, "parts": 4})
        out.append({"kind": "reuse", "part": k, "parts": 4})
        out.append({"kind": "gflav", "v": [5], "part": k, "parts": 4})
        out.append({"kind": "gedit", "v": [5], "part": k, "parts": 4, "selections": False})
    for mode in MANY_MODES:
        out.append({"kind": "many", "mode": mode})
    out.append({"kind": "gflav", "v": [0, 1, 2, 3, 4], "part": 0, "parts": 1})
    out.append({"kind": "gedit", "v": [0, 1, 2, 3, 4], "part": 0, "parts": 1, "selections": True})
    out.append({"kind": "gmany", "mode": "interleaved_paths"})
    out.append({"kind": "gmany", "mode": "star_degree"})
    return out + dim2_shards()


def stack_rule(tier, L, idx):
    if L <= 3:
        return True
    if L == 4:
        return idx % (8 if tier == "quick" else 4) == 1
    return idx % 16 == 5


class CaseTimeout(BaseException):
    """Raised by the per-case alarm: turns a Python-level endless loop into an observation."""


def _on_alarm(signum, frame):
    raise CaseTimeout()


CASE_TIMEOUT = 30.0  # CPU seconds of the worker
MAX_TIMEOUTS_PER_SHARD = 3


def _arm():
    import signal

    # CPU-time timer: the watchdog is there for endless Python-level loops; a wall-clock timer fires
    # spuriously when the (shared, virtualised) machine stalls or its clock jumps
    signal.signal(signal.SIGVTALRM, _on_alarm)


def _timer(seconds):
    import signal

    signal.setitimer(signal.ITIMER_VIRTUAL, seconds)


def run_shard(shard, ctx):
    k = shard["kind"]
    if k == "seg":
        _arm()
        run_seg(shard, ctx)
    elif k == "graph":
        _arm()
        run_graph(shard, ctx)
    elif k == "ladder":
        for func in LADDER_FUNCS:
            case = {"kind": "ladder", "shape": shard["shape"], "n": shard["n"], "func": func}
            if not ctx.journal(case):
                continue
            ctx.ev(1, 1)
            check_ladder(ctx, case)
            if shard["shape"] == "path" and shard["n"] == 100000 and func == "find_connected":
                ctx.sample(case)
    elif k in DIM_KINDS:
        _arm()
        run_dim(shard, ctx)
    else:
        raise ValueError(shard)


def dim_cases(shard):
    """Enumerates the JSON-able cases of one dimension shard."""
    k = shard["kind"]
    if k in DIM2_KINDS:
        yield from dim2_cases(shard)
        return
    if k == "flav":
        idx = 0
        for L in shard["L"]:
            for digs in itertools.product(SUB[shard["sub"]], repeat=L):
                idx += 1
                if idx % shard["parts"] == shard["part"]:
                    yield {"kind": "flav", "digs": list(digs)}
    elif k == "reuse":
        idx = 0
        for digs in itertools.product(range(NLET), repeat=2):
            for pos in (0, 1):
                for new in letter_neighbours(digs[pos]):
                    idx += 1
                    if idx % shard["parts"] == shard["part"]:
                        yield {"kind": "reuse", "digs": list(digs), "pos": pos, "new": new, "stack": idx % 8 == 3}
    elif k == "many":
        for kk in MANY_K:
            yield {"kind": "many", "mode": shard["mode"], "k": kk}
    elif k in ("gflav", "gedit"):
        for v in shard["v"]:
            for bits in range(1 << (v * (v - 1) // 2)):
                if bits % shard["parts"] == shard["part"]:
                    c = {"kind": k, "v": v, "bits": bits}
                    if k == "gedit":
                        c["selections"] = shard["selections"]
                    yield c
    elif k == "gmany":
        for kk in (MANY_K[:-1] if shard["mode"] == "interleaved_paths" else DEGREES):
            yield {"kind": "gmany", "mode": shard["mode"], "k": kk}


def run_dim_case(ctx, case):
    """Returns (outcome, non-trivial)."""
    k = case["kind"]
    if k in DIM2_KINDS:
        return run_dim2_case(ctx, case)
    if k == "flav":
        rows = rows_of(case["digs"], FLAV_PAL)
        rs, cs = check_flavours(ctx, case, rows)
        return (tuple(rs), tuple(cs)), len(rows) >= 2
    if k == "reuse":
        rs, cs = check_reuse(ctx, case, case["digs"], case["pos"], case["new"], case["stack"])
        return (tuple(rs), tuple(cs)), True
    if k == "many":
        rs, cs = check_many(ctx, case)
        return (len(rs), len(cs)), True
    if k == "gflav":
        exp, nt = check_graph_flavours(ctx, case, case["v"], case["bits"])
        return tuple(exp), nt
    if k == "gedit":
        exp, n = check_graph_edits(ctx, case, case["v"], case["bits"], case["selections"])
        return tuple(exp), case["v"] >= 2
    if k == "gmany":
        exp = check_many_molecules(ctx, case)
        return len(exp), True
    raise ValueError(case)


def run_dim(shard, ctx):
    timeouts = 0
    for case in dim_cases(shard):
        if not ctx.journal(case):
            continue
        try:
            _timer(CASE_TIMEOUT)
            outc, nt = run_dim_case(ctx, case)
            _timer(0)
        except CaseTimeout:
            ctx.ev(1)
            ctx.violation("%s|did_not_terminate|case" % case["kind"], "no result within %d s" % CASE_TIMEOUT, case,
                          expected="a result", observed="timeout")
            timeouts += 1
            if timeouts >= MAX_TIMEOUTS_PER_SHARD:
                ctx.note("C17: a %s shard was cut short after %d case time-outs" % (case["kind"], timeouts))
                return
            continue
        finally:
            _timer(0)
        ctx.ev(1, 1 if nt else 0)
        ctx.count("dim_" + case["kind"])
        ctx.outcome((case["kind"], outc))
        if nt and len(ctx.samples) < 1:
            ctx.sample(case)


def run_seg(shard, ctx):
    L, p, prefix, full = shard["L"], shard["pal"], shard["prefix"], shard["level"] == "full"
    pal = PALETTES[p]
    letters = SUB[shard["sub"]]
    free = L - len(prefix)
    second = shard.get("second")
    base = 0
    timeouts = 0
    for d in prefix:
        base = base * NLET + d
    for tail in itertools.product(letters, repeat=free):
        if second is not None and not (second[0] <= tail[0] < second[1]):
            continue
        digs = list(prefix) + list(tail)
        if shard["sub"] == "ins_fixed" and all(d % 2 == 0 for d in digs):
            continue  # residue name also fixed: already enumerated under name_fixed
        idx = base
        for d in tail:
            idx = idx * NLET + d
        rows = rows_of(digs, pal)
        for as_stack in (False, True):
            if as_stack and not stack_rule(ctx.tier, L, idx):
                continue
            cs_ = '{"kind": "seg", "L": %d, "idx": %d, "pal": %d, "stack": %s, "level": "%s"}' % (
                L, idx, p, "true" if as_stack else "false", shard["level"])
            if not ctx.journal(cs_):
                continue
            case = {"kind": "seg", "L": L, "idx": idx, "pal": p, "stack": as_stack, "level": shard["level"]}
            try:
                _timer(CASE_TIMEOUT)
                rs, cs = check_pattern(ctx, case, rows, as_stack, full)
                _timer(0)
            except CaseTimeout:
                ctx.ev(1)
                ctx.violation("seg_views|did_not_terminate|%s" % ("empty_array" if L == 0 else "nonempty"),
                              "a residue/chain view did not return within %d s" % CASE_TIMEOUT, case,
                              expected="a result", observed="timeout")
                timeouts += 1
                if timeouts >= MAX_TIMEOUTS_PER_SHARD:
                    ctx.note("C17: a seg shard was cut short after %d case time-outs" % timeouts)
                    return
                continue
            finally:
                _timer(0)
            nt = (1 < len(rs) < L) or (1 < len(cs) < L)
            ctx.ev(1, 1 if nt else 0)
            if not as_stack:
                ctx.outcome((tuple(rs), tuple(cs)))
            if nt and len(ctx.samples) < 1 and idx % 97 == 11 and digs[0] % 6 == 1:
                ctx.sample({**case, "atoms": [list(r) for r in rows], "residue_starts": rs, "chain_starts": cs})


def _canary(tier, seed):
    """Forked child: every graph on <= 4 vertices through check_graph.  Only survival matters
    (the same graphs are judged in-process by the small-graph shard)."""
    from mc.ctx import Ctx

    c = Ctx(ID, tier, seed)
    for v in range(5):
        for bits in range(1 << (v * (v - 1) // 2)):
            check_graph(c, {"kind": "graph", "v": v, "bits": bits, "variant": bits % 2}, v, bits, bits % 2)
    return c.viol_total


def run_graph(shard, ctx):
    # a defect that kills or hangs the interpreter on ordinary small graphs would take the worker down
    # once per case; find that out in a child first
    canary_case = {"kind": "graph_canary"}
    if ctx.journal(canary_case):
        r = ctx.isolated(_canary, ctx.tier, ctx.seed, timeout=120)
        if r[0] in ("signal", "timeout", "exit"):
            what = {"signal": "process_killed_signal_%s" % (r[1:] or ("?",))[0], "timeout": "did_not_terminate",
                    "exit": "process_exit"}[r[0]]
            ctx.violation("molecules|%s|graphs_up_to_4_vertices" % what,
                          "the molecule functions killed / hung a child process on the graphs with <= 4 vertices; "
                          "in-process enumeration of this shard skipped", canary_case, expected="results",
                          observed=list(r))
            ctx.note("C17: graph enumeration skipped in shards whose canary child died")
            return
        if r[0] == "exc":
            raise RuntimeError("canary raised %r" % (r,))
    vs = shard["v"] if isinstance(shard["v"], list) else [shard["v"]]
    timeouts = 0
    for v in vs:
        nb = v * (v - 1) // 2
        for bits in range(1 << nb):
            if bits % shard["parts"] != shard["part"]:
                continue
            variants = (0, 1) if v <= 6 else ((0,) if bits % 2 else (1,))
            for variant in variants:
                cs_ = '{"kind": "graph", "v": %d, "bits": %d, "variant": %d}' % (v, bits, variant)
                if not ctx.journal(cs_):
                    continue
                case = {"kind": "graph", "v": v, "bits": bits, "variant": variant}
                try:
                    _timer(CASE_TIMEOUT)
                    comps, nt = check_graph(ctx, case, v, bits, variant)
                    _timer(0)
                except CaseTimeout:
                    ctx.ev(1)
                    ctx.violation("molecules|did_not_terminate|small_graph", "a molecule function did not return "
                                  "within %d s" % CASE_TIMEOUT, case, expected="a result", observed="timeout")
                    timeouts += 1
                    if timeouts >= MAX_TIMEOUTS_PER_SHARD:
                        ctx.note("C17: a graph shard was cut short after %d case time-outs" % timeouts)
                        return
                    continue
                finally:
                    _timer(0)
                ctx.ev(1, 1 if nt else 0)
                if variant == variants[0]:
                    ctx.outcome((v, tuple(comps)))
                if nt and len(ctx.samples) < 1 and bits % 101 == 37:
                    ctx.sample({**case, "edges": [p for k, p in enumerate(pairs_of(v)) if bits >> k & 1],
                                "components": [list(c) for c in comps]})


def crash_class(case):
    if isinstance(case, dict):
        k = case.get("kind")
        if k == "seg":
            return "seg|L%d" % case.get("L", -1)
        if k == "graph":
            return "graph|v%d" % case.get("v", -1)
        if k == "ladder":
            return "ladder|%s" % case.get("func")
        if k == "graph_canary":
            return "graph_canary"
        if k in DIM_KINDS:
            return k
    return "unclassified"


def replay(case, ctx):
    if isinstance(case, str):
        case = json.loads(case)
    k = case["kind"]
    if k == "seg":
        rows = rows_of(digits(case["idx"], case["L"]), PALETTES[case["pal"]])
        _arm()
        try:
            _timer(CASE_TIMEOUT)
            check_pattern(ctx, case, rows, case["stack"], case["level"] == "full")
        except CaseTimeout:
            ctx.violation("seg_views|did_not_terminate|%s" % ("empty_array" if case["L"] == 0 else "nonempty"),
                          "a residue/chain view did not return", case, expected="a result", observed="timeout")
        finally:
            _timer(0)
    elif k == "graph":
        _arm()
        try:
            _timer(CASE_TIMEOUT)
            check_graph(ctx, case, case["v"], case["bits"], case["variant"])
        except CaseTimeout:
            ctx.violation("molecules|did_not_terminate|small_graph", "a molecule function did not return", case,
                          expected="a result", observed="timeout")
        finally:
            _timer(0)
    elif k == "graph_canary":
        r = ctx.isolated(_canary, ctx.tier, ctx.seed, timeout=120)
        if r[0] in ("signal", "timeout", "exit"):
            what = {"signal": "process_killed_signal_%s" % (r[1:] or ("?",))[0], "timeout": "did_not_terminate",
                    "exit": "process_exit"}[r[0]]
            ctx.violation("molecules|%s|graphs_up_to_4_vertices" % what, "canary child died", case,
                          expected="results", observed=list(r))
    elif k == "ladder":
        check_ladder(ctx, case)
    elif k in DIM_KINDS:
        _arm()
        try:
            _timer(CASE_TIMEOUT)
            run_dim_case(ctx, case)
        except CaseTimeout:
            ctx.violation("%s|did_not_terminate|case" % k, "no result", case, expected="a result", observed="timeout")
        finally:
            _timer(0)
    else:
        raise ValueError(case)
