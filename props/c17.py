"""C17 - residue / chain / molecule segmentation equals per-atom recomputation.

E2: every annotation pattern of length 0..4 (thorough: also 5 over two 12-letter
sub-alphabets) over a 24-letter atom alphabet (2 chain ids x 3 residue ids x
2 insertion codes x 2 residue names) is
built as a real AtomArray (and as a depth-2 AtomArrayStack) and every residue /
chain view is compared with a per-atom loop model.  Every labelled graph on
<= 6 (thorough: 7) vertices goes through get_molecule_indices / masks /
molecule_iter / find_connected and is compared with union-find components.
E4: a size ladder of path / ring / comb / star / tree / pair graphs with up to
3*10^5 (thorough 10^6) atoms runs in forked children.
"""

import itertools
import json

import numpy as np

ID = "C17"
LEVEL = "model_checking"
RULE = (
    "seg: every sequence of L atoms over the 24-letter alphabet chain{a,b} x res_id{base,higher,lower} x "
    "ins_code{2} x res_name{2} (L = 0..4; thorough additionally L = 5 over the two 12-letter sub-alphabets with "
    "res_name resp. ins_code fixed), values instantiated from the palette the seed selects; "
    "each pattern as AtomArray (and as depth-2 AtomArrayStack per the stated stride); all residue_* / chain_* "
    "views compared with a per-atom loop; index arrays: every array of length <= 2 over [-2, L+1] when L <= 3, "
    "else identity and reversal (+ 4 refused arrays at level full, see bounds). "
    "A seg case is non-trivial when 1 < #residues < L or 1 < #chains < L (some but not all neighbouring atoms are separated). "
    "graph: every labelled simple graph on v vertices (all 2^(v(v-1)/2) edge sets), two bond-list encodings each; "
    "non-trivial when it has >= 1 bond and (>= 2 components or a cycle). "
    "ladder: fixed shapes x fixed sizes x 4 entry points, each in a forked child with an 8 MiB stack; "
    "non-trivial always (>= 1000 atoms, 4+ components). No case is generated twice."
)
ASSUMPTIONS = [
    "reducing functions (np.sum, np.mean, len, ...) are trusted; the oracle applies the same function to the "
    "atoms the per-atom model puts into each segment",
    "spread_*_wise input of the wrong length is not generated (statement silent, no model value exists)",
    "index arguments that are not 1-D integer arrays (scalars, 2-D, bool, float) are not generated",
    "order of molecules and order of atoms inside a reported molecule are not demanded (compared as sets); "
    "find_connected(as_mask=True) is compared after np.asarray(..).astype(bool) (it returns a uint8 memoryview)",
    "apply_*_wise on an empty atom array is unspecified (None, empty result or exception accepted)",
    "negative roots in [-n, -1] for find_connected are unspecified (exception or the component of root % n)",
    "size ladder children run with RLIMIT_STACK = 8 MiB (Linux default); star graphs are limited to 3000 atoms "
    "(get_all_bonds is n x max_degree) and many-component 'pairs' graphs to 10^4 atoms (get_molecule_indices is "
    "quadratic in the number of molecules; run time is not part of the statement)",
    "bonds of the sub-arrays yielded by molecule_iter / residue_iter are not compared (C01/C02 territory)",
]
EXHAUSTIVE = True
SHARD_TIMEOUT = {"quick": 600, "thorough": 1500}
REPLAY_TIMEOUT = 400

NLET = 24
PALETTES = [
    {"chain": ("A", "B"), "res": (1, 2, 0), "ins": ("", "A"), "name": ("X", "Y")},
    {"chain": ("AA", "AB"), "res": (10, 11, 9), "ins": ("A", "B"), "name": ("ALA", "GLY")},
    {"chain": ("", "A"), "res": (-1, 0, -2), "ins": ("", "B"), "name": ("AL", "ALA")},
    {"chain": ("B", "A"), "res": (0, 1, -1), "ins": ("Z", ""), "name": ("Y", "X")},
    {"chain": ("X1", "X2"), "res": (100, 1000, -5), "ins": ("", "Z"), "name": ("HOH", "NA")},
]
TAGS = ["T0", "T1", "T2", "T3", "T4", "T5", "T6", "T7"]
INTS = [1, 10, 100, 1000, 10000, 100000]
STRS = ["p0a", "q1b", "r2c", "s3d", "t4e", "u5f"]
# dyadic -> all partial sums exact in float64
COORD = [[0.5 * i + 0.25, 2.0 * i - 1.5, 8.0 - 0.125 * i * i] for i in range(8)]

LADDER_SIZES = {"quick": [1000, 10000, 30000, 100000, 300000],
                "thorough": [1000, 10000, 30000, 100000, 300000, 1000000]}
LADDER_SHAPES = ["path", "ring", "comb", "tree", "star", "pairs"]
LADDER_FUNCS = ["find_connected", "get_molecule_indices", "get_molecule_masks", "molecule_iter"]
SHAPE_MAX = {"star": 3000, "pairs": 10000}
LADDER_TIMEOUT = 120
DEEP = 10000  # recursion depth class boundary used in signatures


def bounds(tier):
    q = tier == "quick"
    return {
        "seg_max_len": "0..4 over all 24 letters" if q else
                       "0..4 over all 24 letters; 5 over the two 12-letter sub-alphabets (res_name fixed / ins_code fixed)",
        "seg_alphabet": NLET,
        "seg_palettes": "palette[seed % 5]" if q else "palette 0 and palette[1 + seed % 4] for L <= 4; palette 0 for L = 5",
        "seg_view_set": "L <= 3: full (every index array of length <= 2 over [-2, L+1], 7 reducing functions, 3 spread "
                        "inputs); L = 4: %s; L = 5: core" % ("core (identity + reversed index arrays, 2 "
                        "reducing functions, 1 spread input)" if q else "full apart from index arrays (identity, "
                        "reversed, 4 refused)"),
        "seg_stack_views": "as for arrays, but index arrays are never enumerated (identity, reversed, + 4 refused at level full)",
        "seg_stack_stride": "all for L <= 3, pattern index %% %d == 1 for L = 4%s" % (
            (8, "") if q else (4, ", index % 16 == 5 for L = 5")),
        "graph_max_vertices": 6 if q else 7,
        "graph_encodings": "2 per graph for v <= 6 (constructor / reversed add_bond with types; AtomArray / stack), "
                           "1 for v = 7 (alternating)",
        "ladder_sizes": LADDER_SIZES[tier],
        "ladder_shapes": LADDER_SHAPES,
        "ladder_size_caps": SHAPE_MAX,
        "ladder_entry_points": LADDER_FUNCS,
    }


# ---------------------------------------------------------------------------
# reference model: per-atom loops, union-find
# ---------------------------------------------------------------------------
def model_starts(rows):
    """rows: list of (chain, res_id, ins, name).  Returns (residue starts, chain starts)."""
    rs, cs = [], []
    for i in range(len(rows)):
        if i == 0:
            rs.append(0)
            cs.append(0)
            continue
        p, q = rows[i - 1], rows[i]
        if p[0] != q[0] or p[1] != q[1] or p[2] != q[2] or p[3] != q[3]:
            rs.append(i)
        if p[0] != q[0] or q[1] < p[1]:
            cs.append(i)
    return rs, cs


def model_seg_of(starts, n):
    out = []
    k = -1
    for i in range(n):
        if k + 1 < len(starts) and starts[k + 1] == i:
            k += 1
        out.append(k)
    return out


def components(n, edges):
    """Union-find (iterative, path halving).  Returns list of sorted member lists, ordered by smallest member."""
    parent = list(range(n))

    def find(x):
        while parent[x] != x:
            parent[x] = parent[parent[x]]
            x = parent[x]
        return x

    for a, b in edges:
        ra, rb = find(a), find(b)
        if ra != rb:
            if ra < rb:
                parent[rb] = ra
            else:
                parent[ra] = rb
    groups = {}
    for i in range(n):
        groups.setdefault(find(i), []).append(i)
    return [groups[k] for k in sorted(groups)]


# ---------------------------------------------------------------------------
# seg: construction
# ---------------------------------------------------------------------------
def rows_of(digs, pal):
    return [(pal["chain"][d // 12], pal["res"][(d // 4) % 3], pal["ins"][(d // 2) % 2], pal["name"][d % 2])
            for d in digs]


def digits(idx, L):
    out = []
    for _ in range(L):
        out.append(idx % NLET)
        idx //= NLET
    return out[::-1]


def build_atoms(rows, as_stack):
    from biotite.structure import AtomArray, stack

    n = len(rows)
    a = AtomArray(n)
    a.chain_id = np.array([r[0] for r in rows], dtype="U4")
    a.res_id = np.array([r[1] for r in rows], dtype=int)
    a.ins_code = np.array([r[2] for r in rows], dtype="U1")
    a.res_name = np.array([r[3] for r in rows], dtype="U5")
    a.atom_name = np.array(TAGS[:n], dtype="U6")
    a.coord = np.array(COORD[:n], dtype=np.float32).reshape(n, 3)
    if as_stack:
        b = a.copy()
        b.coord = a.coord + 64.0
        return stack([a, b])
    return a


def _first_str(seg):
    return seg[0]


def _minmax(seg):
    return np.array([seg.min(), seg.max()])


def _any_big(seg):
    return bool((seg >= 100).any())


def _fsum(seg):
    return float(seg.sum()) / 4.0


# name -> (data builder, function, axis, result class)
def apply_table(n):
    ints = np.array(INTS[:n], dtype=np.int64)
    return {
        "sum_int": (ints, np.sum, None, "scalar_int"),
        "mean_axis0": (np.array(COORD[:n], dtype=np.float64).reshape(n, 3), np.mean, 0, "array_axis0"),
        "minmax_arr": (ints, _minmax, None, "array"),
        "len": (ints, len, None, "pyint"),
        "first_str": (np.array(STRS[:n], dtype="U3"), _first_str, None, "scalar_str"),
        "any_bool": (ints, _any_big, None, "pybool"),
        "fsum": (ints, _fsum, None, "pyfloat"),
    }


APPLY_CORE = ("sum_int", "mean_axis0")
APPLY_FULL = ("sum_int", "mean_axis0", "minmax_arr", "len", "first_str", "any_bool", "fsum")


def index_arrays(n, enum, full):
    """(index list, class) ; class in valid / negative / beyond_end / empty_indices.
    enum: every array of length <= 2 over [-2, n+1] (plus identity and reversal);
    otherwise identity and reversal, plus 4 refused arrays at level full."""
    out = []

    def cls(ix):
        if not ix:
            return "empty_indices"
        if any(i < 0 for i in ix):
            return "negative"
        if any(i >= n for i in ix):
            return "beyond_end"
        return "valid"

    ident = list(range(n))
    cand = []
    if enum:
        vals = list(range(-2, n + 2))
        cand.append([])
        for v in vals:
            cand.append([v])
        for v in vals:
            for w in vals:
                cand.append([v, w])
        if n >= 3:
            cand.append(ident)
            cand.append(ident[::-1])
    elif full:
        cand += [ident, ident[::-1], [-1], [n], [n - 1, n], [-1, 0]]
    else:
        cand += [ident, ident[::-1]]
    for ix in cand:
        out.append((ix, cls(ix)))
    return out


def _funcs():
    import biotite.structure as struc

    return {
        "residue": {
            "starts": struc.get_residue_starts, "masks": struc.get_residue_masks,
            "starts_for": struc.get_residue_starts_for, "positions": struc.get_residue_positions,
            "count": struc.get_residue_count, "iter": struc.residue_iter, "apply": struc.apply_residue_wise,
            "spread": struc.spread_residue_wise, "names": struc.get_residues,
        },
        "chain": {
            "starts": struc.get_chain_starts, "masks": struc.get_chain_masks,
            "starts_for": struc.get_chain_starts_for, "positions": struc.get_chain_positions,
            "count": struc.get_chain_count, "iter": struc.chain_iter, "apply": struc.apply_chain_wise,
            "spread": struc.spread_chain_wise, "names": struc.get_chains,
        },
    }


_F = None


def nd(x):
    """Canonical form of an observed value: (shape, nested list)."""
    a = np.asarray(x)
    return (tuple(a.shape), a.tolist())


def check_pattern(ctx, case, rows, as_stack, full):
    """Run every view on one pattern.  Returns (rs, cs) of the model."""
    global _F
    if _F is None:
        _F = _funcs()
    from biotite.structure import AtomArray, AtomArrayStack

    n = len(rows)
    arr = build_atoms(rows, as_stack)
    rs, cs = model_starts(rows)
    empty = "empty_array" if n == 0 else "nonempty"
    calls = 0

    def viol(func, mode, cls, what, exp, got):
        ctx.violation("%s|%s|%s" % (func, mode, cls), what, case, expected=exp, observed=got)

    def run(func, cls, exp, thunk, conv=nd):
        """ACCEPT: thunk() must return exp (after conv)."""
        nonlocal calls
        calls += 1
        try:
            got = conv(thunk())
        except Exception as e:  # noqa: BLE001
            viol(func, "raised_" + type(e).__name__, cls, "%s raised %s: %s" % (func, type(e).__name__, str(e)[:120]),
                 exp, type(e).__name__)
            return False
        if got != exp:
            viol(func, "wrong_value", cls, "%s disagrees with per-atom recomputation" % func, exp, got)
            return False
        return True

    for kind, starts in (("residue", rs), ("chain", cs)):
        F = _F[kind]
        nseg = len(starts)
        seg_of = model_seg_of(starts, n)
        members = [[i for i in range(n) if seg_of[i] == k] for k in range(nseg)]
        fn = "get_%s_" % kind
        # --- starts -------------------------------------------------------
        run(fn + "starts", empty, ((nseg,), starts), lambda: F["starts"](arr))
        run(fn + "starts", empty + "_exclusive_stop", ((nseg + 1,), starts + [n]),
            lambda: F["starts"](arr, add_exclusive_stop=True))
        run(fn + "count", empty, nseg, lambda: F["count"](arr), conv=int)
        if kind == "residue":
            run("get_residues", empty, [((nseg,), [rows[s][1] for s in starts]), ((nseg,), [rows[s][3] for s in starts])],
                lambda: F["names"](arr), conv=lambda t: [nd(t[0]), nd(t[1])])
        else:
            run("get_chains", empty, ((nseg,), [rows[s][0] for s in starts]), lambda: F["names"](arr))
        # --- index views --------------------------------------------------
        for ix, icls in index_arrays(n, n <= 3 and not as_stack, full):
            ixa = np.array(ix, dtype=np.int64)
            k = len(ix)
            if icls in ("negative", "beyond_end"):
                for name in ("masks", "starts_for", "positions"):
                    calls += 1
                    ctx.count("refused")
                    try:
                        got = F[name](arr, ixa)
                    except Exception:  # noqa: BLE001
                        continue
                    viol(fn + name, "not_refused", icls, "index array outside [0, n) was not rejected",
                         "exception", nd(got))
                continue
            ctx.count("accepted", 3)
            c = empty if icls == "valid" else empty + "_" + icls
            run(fn + "masks", c, ((k, n), [[seg_of[j] == seg_of[i] for j in range(n)] for i in ix]),
                lambda: _bool_only(F["masks"](arr, ixa)))
            run(fn + "starts_for", c, ((k,), [starts[seg_of[i]] for i in ix]), lambda: F["starts_for"](arr, ixa))
            run(fn + "positions", c, ((k,), [seg_of[i] for i in ix]), lambda: F["positions"](arr, ixa))
        if n and full:
            # the same through a plain Python list
            ident = list(range(n))
            run(fn + "positions", empty + "_list", ((n,), seg_of), lambda: F["positions"](arr, ident))
            run(fn + "starts_for", empty + "_list", ((n,), [starts[k] for k in seg_of]),
                lambda: F["starts_for"](arr, ident))
        # --- iteration ----------------------------------------------------
        calls += 1
        try:
            segs = list(F["iter"](arr))
            obs = []
            for s in segs:
                if type(s) is not type(arr):
                    obs.append(type(s).__name__)
                    continue
                tagl = s.atom_name.tolist()
                o = [list(z) for z in zip(s.chain_id.tolist(), s.res_id.tolist(), s.ins_code.tolist(),
                                          s.res_name.tolist())]
                obs.append([tagl, o, s.coord.tolist()])
        except Exception as e:  # noqa: BLE001
            viol(kind + "_iter", "raised_" + type(e).__name__, empty, "iteration raised", None, str(e)[:200])
        else:
            exp = []
            for mem in members:
                co = [COORD[i] for i in mem]
                if as_stack:
                    co = [co, [[x + 64.0 for x in c] for c in co]]
                exp.append([[TAGS[i] for i in mem], [list(rows[i]) for i in mem], co])
            if obs != exp:
                viol(kind + "_iter", "wrong_value", empty, "iterated segments differ from per-atom segments", exp, obs)
            else:
                cat = [t for o in obs for t in o[0]]
                if cat != TAGS[:n]:
                    viol(kind + "_iter", "concatenation", empty, "concatenated segments do not reproduce the array",
                         TAGS[:n], cat)
        # --- apply --------------------------------------------------------
        table = apply_table(n)
        for name in (APPLY_FULL if full else APPLY_CORE):
            data, f, axis, rcls = table[name]
            if n == 0:
                # unspecified: no segment, the function is never evaluated
                calls += 1
                ctx.count("unspecified")
                try:
                    got = F["apply"](arr, data, f, axis=axis) if axis is not None else F["apply"](arr, data, f)
                except Exception:  # noqa: BLE001
                    continue
                if got is not None and len(got) != 0:
                    viol("apply_%s_wise" % kind, "wrong_value", rcls + "|empty_array", "non-empty result for no segment",
                         "None / empty / exception", nd(got))
                continue
            ctx.count("accepted")
            vals = []
            for mem in members:
                sub = data[np.array(mem, dtype=np.int64)]
                vals.append(np.asarray(f(sub, axis=axis) if axis is not None else f(sub)))
            exp = ((nseg,) + tuple(vals[0].shape), [v.tolist() for v in vals])
            if axis is not None:
                run("apply_%s_wise" % kind, rcls, exp, lambda: F["apply"](arr, data, f, axis=axis))
            else:
                run("apply_%s_wise" % kind, rcls, exp, lambda: F["apply"](arr, data, f))
        # --- spread -------------------------------------------------------
        sp = [("pylist_int", [7 * k + 3 for k in range(nseg)])]
        if full:
            sp.append(("array_2d", np.array([[k, -k] for k in range(nseg)], dtype=np.int64).reshape(nseg, 2)))
            sp.append(("array_str", np.array(["s%dx" % k + "y" * k for k in range(nseg)], dtype="U8")))
        for sname, inp in sp:
            ctx.count("accepted")
            ref = np.asarray(inp)
            exp = ((n,) + tuple(ref.shape[1:]), [ref[seg_of[i]].tolist() for i in range(n)])
            run("spread_%s_wise" % kind, sname + ("|empty_array" if n == 0 else ""), exp,
                lambda: F["spread"](arr, inp))
    # inputs untouched
    now = [tuple(z) for z in zip(arr.chain_id.tolist(), arr.res_id.tolist(), arr.ins_code.tolist(),
                                 arr.res_name.tolist())]
    if now != [tuple(r) for r in rows] or arr.atom_name.tolist() != TAGS[:n]:
        viol("seg_views", "input_mutated", empty, "a view function changed the atom array", rows, now)
    ctx.count("calls", calls)
    return rs, cs


def _bool_only(m):
    if m.dtype != bool:
        raise TypeError("mask dtype is %s" % m.dtype)
    return m


# ---------------------------------------------------------------------------
# graphs
# ---------------------------------------------------------------------------
def pairs_of(v):
    return [(i, j) for i in range(v) for j in range(i + 1, v)]


TYPE_CYCLE = (1, 2, 5, 0, 3, 6)


def build_bonds(v, edges, variant):
    from biotite.structure import BondList

    if variant == 0:
        if edges:
            return BondList(v, np.array(edges, dtype=np.int64))
        return BondList(v)
    bl = BondList(v)
    for k, (i, j) in enumerate(reversed(edges)):
        bl.add_bond(j, i, TYPE_CYCLE[k % len(TYPE_CYCLE)])
    return bl


def oor_roots(v):
    return [-v - 1, v, v + 1, 2**31 - 1, 2**31, 2**32 - 1, 2**32, -(2**31)]


def check_graph(ctx, case, v, bits, variant):
    import biotite.structure as struc
    from biotite.structure import AtomArray, stack

    allp = pairs_of(v)
    edges = [p for k, p in enumerate(allp) if bits >> k & 1]
    comps = components(v, edges)
    exp_sets = sorted(tuple(c) for c in comps)
    comp_of = {}
    for c in comps:
        for i in c:
            comp_of[i] = c
    bl = build_bonds(v, edges, variant)
    before = sorted(map(tuple, bl.as_array().tolist()))
    cls = "no_atoms" if v == 0 else ("no_bonds" if not edges else "bonded")

    def viol(func, mode, what, exp, got):
        ctx.violation("%s|%s|%s" % (func, mode, cls), what, case, expected=exp, observed=got)

    def as_sets(lst):
        out = []
        for x in lst:
            t = [int(i) for i in np.asarray(x).tolist()]
            if len(set(t)) != len(t):
                raise ValueError("duplicate atom in molecule %r" % (t,))
            out.append(tuple(sorted(t)))
        return sorted(out)

    atoms = AtomArray(v)
    atoms.atom_name = np.array(TAGS[:v], dtype="U6")
    atoms.bonds = bl
    if variant == 1:
        atoms = stack([atoms, atoms.copy()])
    targets = (("bondlist", bl), ("atoms", atoms))
    for tname, tgt in targets:
        # indices
        try:
            got = as_sets(struc.get_molecule_indices(tgt))
        except Exception as e:  # noqa: BLE001
            viol("get_molecule_indices", "raised_" + type(e).__name__, str(e)[:200], exp_sets, None)
        else:
            if got != exp_sets:
                viol("get_molecule_indices", "wrong_value", "molecules are not the connected components (%s input)"
                     % tname, exp_sets, got)
        # masks
        try:
            m = struc.get_molecule_masks(tgt)
            if m.dtype != bool or m.ndim != 2 or m.shape[1] != v:
                raise TypeError("mask array has dtype %s shape %s" % (m.dtype, m.shape))
            got = sorted(tuple(int(i) for i in np.where(row)[0]) for row in m)
        except Exception as e:  # noqa: BLE001
            viol("get_molecule_masks", "raised_" + type(e).__name__, str(e)[:200], exp_sets, None)
        else:
            if got != exp_sets:
                viol("get_molecule_masks", "wrong_value", "masks are not the connected components (%s input)" % tname,
                     exp_sets, got)
    # iteration
    try:
        mols = list(struc.molecule_iter(atoms))
        got = []
        for mol in mols:
            if type(mol) is not type(atoms):
                raise TypeError("molecule_iter yielded %s" % type(mol).__name__)
            t = [TAGS.index(x) for x in mol.atom_name.tolist()]
            if len(set(t)) != len(t):
                raise ValueError("duplicate atom in molecule %r" % (t,))
            got.append(tuple(sorted(t)))
        got.sort()
    except Exception as e:  # noqa: BLE001
        viol("molecule_iter", "raised_" + type(e).__name__, str(e)[:200], exp_sets, None)
    else:
        if got != exp_sets:
            viol("molecule_iter", "wrong_value", "iterated molecules are not the connected components", exp_sets, got)
    # find_connected for every root
    for root in range(v):
        exp = comp_of[root]
        try:
            got = sorted(int(i) for i in struc.find_connected(bl, root).tolist())
            gm = np.asarray(struc.find_connected(bl, root, as_mask=True)).astype(bool).tolist()
        except Exception as e:  # noqa: BLE001
            viol("find_connected", "raised_" + type(e).__name__, str(e)[:200], exp, None)
            continue
        if got != exp:
            viol("find_connected", "wrong_value", "not the component of the root", exp, got)
        if gm != [i in exp for i in range(v)]:
            viol("find_connected(as_mask)", "wrong_value", "mask is not the component of the root", exp, gm)
    ctx.count("accepted", 5 + 2 * v)
    # roots outside [0, v)
    for root in oor_roots(v):
        ctx.count("refused")
        try:
            got = struc.find_connected(bl, root)
        except Exception:  # noqa: BLE001
            continue
        viol("find_connected", "not_refused", "root outside the atom range was accepted", "exception",
             [root, np.asarray(got).tolist()])
    for root in range(-v, 0):
        ctx.count("unspecified")
        try:
            got = sorted(int(i) for i in struc.find_connected(bl, root).tolist())
        except Exception:  # noqa: BLE001
            continue
        if got != comp_of[root + v]:
            viol("find_connected", "wrong_value_negative_root", "negative root: neither error nor component of root % n",
                 comp_of[root + v], got)
    after = sorted(map(tuple, bl.as_array().tolist()))
    if after != before or bl.get_atom_count() != v:
        viol("molecules", "input_mutated", "bond list changed by a query", before, after)
    cyc = len(edges) > v - len(comps)
    return exp_sets, bool(edges) and (len(comps) >= 2 or cyc)


# ---------------------------------------------------------------------------
# size ladder
# ---------------------------------------------------------------------------
def ladder_graph(shape, n):
    """Returns (total atoms N, edge array (k,2) int64, depth a root-0 DFS needs, roots to probe).
    Atoms n..n+3 are extra: n and n+1 isolated, n+2 - n+3 bonded."""
    if shape == "path":
        a = np.arange(n - 1, dtype=np.int64)
        e = np.stack([a, a + 1], axis=1)
        depth = n
    elif shape == "ring":
        a = np.arange(n, dtype=np.int64)
        e = np.stack([a, (a + 1) % n], axis=1)
        depth = n
    elif shape == "comb":
        m = n // 2
        a = np.arange(m - 1, dtype=np.int64)
        back = np.stack([a, a + 1], axis=1)
        t = np.arange(m, dtype=np.int64)
        teeth = np.stack([t, t + m], axis=1)
        e = np.concatenate([back, teeth])
        n = 2 * m
        depth = m + 1
    elif shape == "tree":
        c = np.arange(1, n, dtype=np.int64)
        e = np.stack([(c - 1) // 2, c], axis=1)
        depth = int(np.log2(n)) + 2
    elif shape == "star":
        c = np.arange(1, n, dtype=np.int64)
        e = np.stack([np.zeros(n - 1, dtype=np.int64), c], axis=1)
        depth = 2
    elif shape == "pairs":
        m = n // 2
        a = np.arange(m, dtype=np.int64) * 2
        e = np.stack([a, a + 1], axis=1)
        n = 2 * m
        depth = 2
    else:
        raise ValueError(shape)
    e = np.concatenate([e, np.array([[n + 3, n + 2]], dtype=np.int64)])
    return n + 4, e, depth, [0, n // 2, n - 1, n, n + 3]


def summarize(members):
    """members: iterable of ints -> (len, min, max, sum, sum of squares mod p) as exact Python ints."""
    a = np.asarray(members, dtype=np.int64)
    if a.size == 0:
        return (0, -1, -1, 0, 0)
    return (int(a.size), int(a.min()), int(a.max()), int(a.sum()), int((a * a % 1000003).sum()))


def ladder_child(shape, n, func):
    """Executed in a forked child.  Returns list of component summaries (or per-root summaries)."""
    import resource

    import biotite.structure as struc
    from biotite.structure import AtomArray, BondList

    soft, hard = resource.getrlimit(resource.RLIMIT_STACK)
    want = 8 * 1024 * 1024
    if hard != resource.RLIM_INFINITY and hard < want:
        want = hard
    resource.setrlimit(resource.RLIMIT_STACK, (want, hard))
    N, e, depth, roots = ladder_graph(shape, n)
    bl = BondList(N, e)
    if func == "find_connected":
        out = []
        for r in roots:
            res = struc.find_connected(bl, r)
            out.append(summarize(res))
        m = np.asarray(struc.find_connected(bl, roots[0], as_mask=True)).astype(bool)
        if m.shape != (N,):
            raise TypeError("mask shape %r" % (m.shape,))
        out.append(summarize(np.where(m)[0]))
        return out
    if func == "get_molecule_indices":
        return sorted(summarize(x) for x in struc.get_molecule_indices(bl))
    if func == "get_molecule_masks":
        m = struc.get_molecule_masks(bl)
        if m.dtype != bool or m.ndim != 2 or m.shape[1] != N:
            raise TypeError("mask array has dtype %s shape %s" % (m.dtype, m.shape))
        return sorted(summarize(np.where(row)[0]) for row in m)
    if func == "molecule_iter":
        atoms = AtomArray(N)
        atoms.res_id = np.arange(N)
        atoms.bonds = bl
        return sorted(summarize(mol.res_id) for mol in struc.molecule_iter(atoms))
    raise ValueError(func)


_LADDER_CACHE = {}


def ladder_expected(shape, n):
    key = (shape, n)
    if key not in _LADDER_CACHE:
        _LADDER_CACHE.clear()
        N, e, depth, roots = ladder_graph(shape, n)
        comps = components(N, e.tolist())
        of_root = {}
        for c in comps:  # member lists are ascending
            for r in roots:
                if _in_sorted(c, r):
                    of_root[r] = c
        per_root = [summarize(of_root[r]) for r in roots] + [summarize(of_root[roots[0]])]
        _LADDER_CACHE[key] = (N, depth, per_root, sorted(summarize(c) for c in comps))
    return _LADDER_CACHE[key]


def check_ladder(ctx, case):
    shape, n, func = case["shape"], case["n"], case["func"]
    N, depth, per_root, all_comps = ladder_expected(shape, n)
    exp = per_root if func == "find_connected" else all_comps
    dcls = "bond_path_gt_1e4" if depth > DEEP else "bond_path_le_1e4"
    r = ctx.isolated(ladder_child, shape, n, func, timeout=LADDER_TIMEOUT)
    ctx.outcome((shape, n, func, r[0]))
    if r[0] == "ok":
        got = [tuple(x) for x in r[1]]
        if got != exp:
            ctx.violation("%s|wrong_value|ladder_%s" % (func, dcls), "large graph: result is not the set of connected "
                          "components", case, expected=exp[:6], observed=got[:6])
        else:
            ctx.count("ladder_ok")
        return
    if r[0] == "signal":
        import signal as _sig

        try:
            name = _sig.Signals(r[1]).name
        except ValueError:
            name = "SIG%d" % r[1]
        ctx.count("ladder_crash")
        ctx.violation("%s|process_killed_%s|ladder_%s" % (func, name, dcls),
                      "%s on a %s graph with %d atoms terminated the interpreter (%s)" % (func, shape, N, name),
                      case, expected="connected components", observed=list(r))
        return
    if r[0] == "timeout":
        ctx.violation("%s|did_not_terminate|ladder_%s" % (func, dcls), "no result within %d s" % LADDER_TIMEOUT, case,
                      expected="connected components", observed="timeout")
        return
    ctx.violation("%s|%s|ladder_%s" % (func, "raised_" + r[1] if r[0] == "exc" else "exit", dcls),
                  "large graph: call failed: %r" % (r,), case, expected="connected components", observed=list(r))


def _in_sorted(lst, x):
    import bisect

    i = bisect.bisect_left(lst, x)
    return i < len(lst) and lst[i] == x


# ---------------------------------------------------------------------------
# shards
# ---------------------------------------------------------------------------
def seg_palettes(tier, seed):
    if tier == "quick":
        return [seed % len(PALETTES)]
    return [0, 1 + seed % (len(PALETTES) - 1)]


# 12-letter sub-alphabets used for L = 5 (thorough): residue name fixed / insertion code fixed
SUB = {
    "all": list(range(NLET)),
    "name_fixed": [d for d in range(NLET) if d % 2 == 0],
    "ins_fixed": [d for d in range(NLET) if (d // 2) % 2 == 0],
}


def shards(tier, seed):
    out = []
    # widest first
    if tier == "thorough":
        for sub in ("name_fixed", "ins_fixed"):
            for f in SUB[sub]:
                for g in SUB[sub]:
                    out.append({"kind": "seg", "L": 5, "pal": 0, "sub": sub, "prefix": [f, g], "level": "core"})
        for k in range(256):
            out.append({"kind": "graph", "v": 7, "parts": 256, "part": k})
    l4 = "core" if tier == "quick" else "full"
    for p in seg_palettes(tier, seed):
        for f in range(NLET):
            for g in range(0, NLET, 6):
                out.append({"kind": "seg", "L": 4, "pal": p, "sub": "all", "prefix": [f], "second": [g, g + 6],
                            "level": l4})
        for f in range(NLET):
            out.append({"kind": "seg", "L": 3, "pal": p, "sub": "all", "prefix": [f], "level": "full"})
        for L in (2, 1, 0):
            out.append({"kind": "seg", "L": L, "pal": p, "sub": "all", "prefix": [], "level": "full"})
    for k in range(16):
        out.append({"kind": "graph", "v": 6, "parts": 16, "part": k})
    out.append({"kind": "graph", "v": [0, 1, 2, 3, 4, 5], "parts": 1, "part": 0})
    lad = []
    for shape in LADDER_SHAPES:
        for n in LADDER_SIZES[tier]:
            if n > SHAPE_MAX.get(shape, 10**9):
                continue
            lad.append({"kind": "ladder", "shape": shape, "n": n})
        if shape == "star":
            lad.append({"kind": "ladder", "shape": shape, "n": 3000})
    # big ladder shards early (they take longest), rest rotated by seed
    lad.sort(key=lambda s: -s["n"])
    big = [s for s in lad if s["n"] >= 100000]
    small = [s for s in lad if s["n"] < 100000]
    rest = out + small
    k = (seed * 7) % len(rest)
    return big + rest[k:] + rest[:k]


def stack_rule(tier, L, idx):
    if L <= 3:
        return True
    if L == 4:
        return idx % (8 if tier == "quick" else 4) == 1
    return idx % 16 == 5


class CaseTimeout(BaseException):
    """Raised by the per-case alarm: turns a Python-level endless loop into an observation."""


def _on_alarm(signum, frame):
    raise CaseTimeout()


CASE_TIMEOUT = 30.0
MAX_TIMEOUTS_PER_SHARD = 3


def _arm():
    import signal

    signal.signal(signal.SIGALRM, _on_alarm)


def _timer(seconds):
    import signal

    signal.setitimer(signal.ITIMER_REAL, seconds)


def run_shard(shard, ctx):
    k = shard["kind"]
    if k == "seg":
        _arm()
        run_seg(shard, ctx)
    elif k == "graph":
        _arm()
        run_graph(shard, ctx)
    elif k == "ladder":
        for func in LADDER_FUNCS:
            case = {"kind": "ladder", "shape": shard["shape"], "n": shard["n"], "func": func}
            if not ctx.journal(case):
                continue
            ctx.ev(1, 1)
            check_ladder(ctx, case)
            if shard["shape"] == "path" and shard["n"] == 100000 and func == "find_connected":
                ctx.sample(case)
    else:
        raise ValueError(shard)


def run_seg(shard, ctx):
    L, p, prefix, full = shard["L"], shard["pal"], shard["prefix"], shard["level"] == "full"
    pal = PALETTES[p]
    letters = SUB[shard["sub"]]
    free = L - len(prefix)
    second = shard.get("second")
    base = 0
    timeouts = 0
    for d in prefix:
        base = base * NLET + d
    for tail in itertools.product(letters, repeat=free):
        if second is not None and not (second[0] <= tail[0] < second[1]):
            continue
        digs = list(prefix) + list(tail)
        if shard["sub"] == "ins_fixed" and all(d % 2 == 0 for d in digs):
            continue  # residue name also fixed: already enumerated under name_fixed
        idx = base
        for d in tail:
            idx = idx * NLET + d
        rows = rows_of(digs, pal)
        for as_stack in (False, True):
            if as_stack and not stack_rule(ctx.tier, L, idx):
                continue
            cs_ = '{"kind": "seg", "L": %d, "idx": %d, "pal": %d, "stack": %s, "level": "%s"}' % (
                L, idx, p, "true" if as_stack else "false", shard["level"])
            if not ctx.journal(cs_):
                continue
            case = {"kind": "seg", "L": L, "idx": idx, "pal": p, "stack": as_stack, "level": shard["level"]}
            try:
                _timer(CASE_TIMEOUT)
                rs, cs = check_pattern(ctx, case, rows, as_stack, full)
                _timer(0)
            except CaseTimeout:
                ctx.ev(1)
                ctx.violation("seg_views|did_not_terminate|%s" % ("empty_array" if L == 0 else "nonempty"),
                              "a residue/chain view did not return within %d s" % CASE_TIMEOUT, case,
                              expected="a result", observed="timeout")
                timeouts += 1
                if timeouts >= MAX_TIMEOUTS_PER_SHARD:
                    ctx.note("C17: a seg shard was cut short after %d case time-outs" % timeouts)
                    return
                continue
            finally:
                _timer(0)
            nt = (1 < len(rs) < L) or (1 < len(cs) < L)
            ctx.ev(1, 1 if nt else 0)
            if not as_stack:
                ctx.outcome((tuple(rs), tuple(cs)))
            if nt and len(ctx.samples) < 1 and idx % 97 == 11 and digs[0] % 6 == 1:
                ctx.sample({**case, "atoms": [list(r) for r in rows], "residue_starts": rs, "chain_starts": cs})


def _canary(tier, seed):
    """Forked child: every graph on <= 4 vertices through check_graph.  Only survival matters
    (the same graphs are judged in-process by the small-graph shard)."""
    from mc.ctx import Ctx

    c = Ctx(ID, tier, seed)
    for v in range(5):
        for bits in range(1 << (v * (v - 1) // 2)):
            check_graph(c, {"kind": "graph", "v": v, "bits": bits, "variant": bits % 2}, v, bits, bits % 2)
    return c.viol_total


def run_graph(shard, ctx):
    # a defect that kills or hangs the interpreter on ordinary small graphs would take the worker down
    # once per case; find that out in a child first
    canary_case = {"kind": "graph_canary"}
    if ctx.journal(canary_case):
        r = ctx.isolated(_canary, ctx.tier, ctx.seed, timeout=60)
        if r[0] in ("signal", "timeout", "exit"):
            what = {"signal": "process_killed_signal_%s" % (r[1:] or ("?",))[0], "timeout": "did_not_terminate",
                    "exit": "process_exit"}[r[0]]
            ctx.violation("molecules|%s|graphs_up_to_4_vertices" % what,
                          "the molecule functions killed / hung a child process on the graphs with <= 4 vertices; "
                          "in-process enumeration of this shard skipped", canary_case, expected="results",
                          observed=list(r))
            ctx.note("C17: graph enumeration skipped in shards whose canary child died")
            return
        if r[0] == "exc":
            raise RuntimeError("canary raised %r" % (r,))
    vs = shard["v"] if isinstance(shard["v"], list) else [shard["v"]]
    timeouts = 0
    for v in vs:
        nb = v * (v - 1) // 2
        for bits in range(1 << nb):
            if bits % shard["parts"] != shard["part"]:
                continue
            variants = (0, 1) if v <= 6 else ((0,) if bits % 2 else (1,))
            for variant in variants:
                cs_ = '{"kind": "graph", "v": %d, "bits": %d, "variant": %d}' % (v, bits, variant)
                if not ctx.journal(cs_):
                    continue
                case = {"kind": "graph", "v": v, "bits": bits, "variant": variant}
                try:
                    _timer(CASE_TIMEOUT)
                    comps, nt = check_graph(ctx, case, v, bits, variant)
                    _timer(0)
                except CaseTimeout:
                    ctx.ev(1)
                    ctx.violation("molecules|did_not_terminate|small_graph", "a molecule function did not return "
                                  "within %d s" % CASE_TIMEOUT, case, expected="a result", observed="timeout")
                    timeouts += 1
                    if timeouts >= MAX_TIMEOUTS_PER_SHARD:
                        ctx.note("C17: a graph shard was cut short after %d case time-outs" % timeouts)
                        return
                    continue
                finally:
                    _timer(0)
                ctx.ev(1, 1 if nt else 0)
                if variant == variants[0]:
                    ctx.outcome((v, tuple(comps)))
                if nt and len(ctx.samples) < 1 and bits % 101 == 37:
                    ctx.sample({**case, "edges": [p for k, p in enumerate(pairs_of(v)) if bits >> k & 1],
                                "components": [list(c) for c in comps]})


def crash_class(case):
    if isinstance(case, dict):
        k = case.get("kind")
        if k == "seg":
            return "seg|L%d" % case.get("L", -1)
        if k == "graph":
            return "graph|v%d" % case.get("v", -1)
        if k == "ladder":
            return "ladder|%s" % case.get("func")
        if k == "graph_canary":
            return "graph_canary"
    return "unclassified"


def replay(case, ctx):
    if isinstance(case, str):
        case = json.loads(case)
    k = case["kind"]
    if k == "seg":
        rows = rows_of(digits(case["idx"], case["L"]), PALETTES[case["pal"]])
        _arm()
        try:
            _timer(CASE_TIMEOUT)
            check_pattern(ctx, case, rows, case["stack"], case["level"] == "full")
        except CaseTimeout:
            ctx.violation("seg_views|did_not_terminate|%s" % ("empty_array" if case["L"] == 0 else "nonempty"),
                          "a residue/chain view did not return", case, expected="a result", observed="timeout")
        finally:
            _timer(0)
    elif k == "graph":
        _arm()
        try:
            _timer(CASE_TIMEOUT)
            check_graph(ctx, case, case["v"], case["bits"], case["variant"])
        except CaseTimeout:
            ctx.violation("molecules|did_not_terminate|small_graph", "a molecule function did not return", case,
                          expected="a result", observed="timeout")
        finally:
            _timer(0)
    elif k == "graph_canary":
        r = ctx.isolated(_canary, ctx.tier, ctx.seed, timeout=60)
        if r[0] in ("signal", "timeout", "exit"):
            what = {"signal": "process_killed_signal_%s" % (r[1:] or ("?",))[0], "timeout": "did_not_terminate",
                    "exit": "process_exit"}[r[0]]
            ctx.violation("molecules|%s|graphs_up_to_4_vertices" % what, "canary child died", case,
                          expected="results", observed=list(r))
    elif k == "ladder":
        check_ladder(ctx, case)
    else:
        raise ValueError(case)
