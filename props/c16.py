"""C16 - superimposition minimises RMSD with a proper rotation.

E2: complete enumeration of lattice point sets (up to rotation) x the 24 cube rotations x
translation palette x single-coordinate noise x atom masks x container/stack combinations on
the real `superimpose`, `AffineTransformation`, `superimpose_without_outliers`,
`superimpose_homologs` and `rmsd`, against the float64 reference in mc/models/superpos.py
(Horn closed-form optimum, Kabsch, brute-force group, perturbation witnesses).
"""

import itertools
import json

import numpy as np

from mc.models import superpos as sp

ID = "C16"
LEVEL = "model_checking"
RULE = (
    "fit spaces: every fixed point set (one representative per rotation orbit of all 1..4-subsets of "
    "{0,1,2}^3, mirror images kept apart, + 6 listed sets of 5-8 points; thorough also all 5-subsets) x "
    "every listed motion (24 cube rotations x 3 translations) x every single-coordinate displacement "
    "(atom x axis x +-2 magnitudes) x every atom mask with >= 1 atom, executed as one stack call per "
    "(set, mask) and again as single array calls; one evaluation = one fitted model.  A case is "
    "non-trivial when the motion is not the identity or a coordinate is displaced, and n >= 2.  "
    "shape: every (fixed container, mobile container, mask mode) over the listed geometry palette.  "
    "outlier: every (set, displacement, parameter triple).  homolog: every ordered pair of residue "
    "sequences of the stated lengths x geometry x min_anchors x kwargs.  No case is repeated."
)
ASSUMPTIONS = [
    "biotite computes in float32 (coord() casts every ndarray): tolerances are 1e-5*(1+max|coordinate|) on "
    "coordinates/RMSD and 1e-5 on orthonormality/determinant; inputs are float32-exact so the float64 "
    "reference sees the same numbers",
    "for rank-deficient sets the rotation is not unique: only properness, RMSD and self-consistency are demanded",
    "atom masks are boolean ndarrays with >= 1 True (index arrays and empty masks are not generated)",
    "stack depth 1 vs k>=2 (both stacks), and fixed stack k>=2 vs mobile depth-1 stack: EITHER "
    "(exception or model-wise correct result); depth 2 vs 3: must raise",
    "superimpose_homologs: ValueError is accepted wherever the documentation allows it (too few backbone "
    "atoms, fallback with unequal counts, peptide vs nucleotide, mixed chain types); it must succeed when the "
    "CA/P counts are equal and >= min_anchors",
    "the documented outlier iteration (Notes of superimpose_without_outliers) is re-stated in float64 and the "
    "anchor set compared only when no squared distance comes within 1e-3 (relative) of the threshold",
]
EXHAUSTIVE = True
SHARD_TIMEOUT = {"quick": 600, "thorough": 2400}
CHECK_DOCUMENTED_OUTLIER_LOOP = True

# --- palettes (every table a seed can select is clean on the unchanged tree) ---------------
TRANS_PALETTES = [
    [(0, 0, 0), (-3, 7, 1), (5, -2, -6)],
    [(0, 0, 0), (7, 0, -3), (-1.5, 2.25, 9)],
    [(0, 0, 0), (-8, -4, 2), (0.5, 11, -0.75)],
    [(0, 0, 0), (64, -32, 16), (-2, 3, 5)],
    [(0, 0, 0), (3, 3, 3), (-10, 6, -1)],
]
NOISE_PALETTES = [(0.25, 1.0), (0.5, 1.0), (0.25, 2.0), (0.125, 1.0), (0.5, 1.5)]

BIG_SETS = {
    "cube8": [(0, 0, 0), (2, 0, 0), (0, 2, 0), (2, 2, 0), (0, 0, 2), (2, 0, 2), (0, 2, 2), (2, 2, 2)],
    "line5": [(0, 0, 0), (1, 1, 0), (2, 2, 0), (3, 3, 0), (5, 5, 0)],
    "plane6": [(0, 0, 1), (2, 0, 1), (3, 1.5, 1), (1, 3, 1), (-1, 1.5, 1), (1, 1, 1)],
    "helix6": [(1, 0, 0), (0, 1, 0.5), (-1, 0, 1), (0, -1, 1.5), (1, 0, 2), (0, 1, 2.5)],
    "mirror6": [(1, 0, 0), (-1, 0, 0), (2, 1, 0.5), (-2, 1, 0.5), (0, 2, 1), (0, -1, -0.5)],
    "generic7": [(0, 0, 0), (1.5, 0.25, 0), (2.75, 1, 0.5), (3, 2.5, 1.25), (2, 3.5, 2.5), (0.5, 3.25, 3),
                 (-0.75, 2, 3.5)],
}
# six listed motions (rotation index in sp.ROT24, translation index) used where the full 72 are not
M6 = [(0, 0), (3, 1), (8, 2), (13, 1), (18, 2), (22, 0)]
PROBE = np.array([[0, 0, 0], [1, 0, 0], [0, 1, 0], [0, 0, 1], [-2.5, 3.25, 7.0]], dtype=np.float64)
PROT, PSHIFT = sp.perturbations(0.02, 0.02)

_SETS = {}


def lattice_sets(size):
    if size not in _SETS:
        _SETS[size] = [[list(p) for p in s] for s in sp.lattice_sets(size)]
    return _SETS[size]


def pal(seed):
    return TRANS_PALETTES[seed % len(TRANS_PALETTES)], NOISE_PALETTES[seed % len(NOISE_PALETTES)]


def bounds(tier):
    return {
        "lattice": "{0,1,2}^3, subsets of size 1..4 up to the 24 rotations: 4+22+139+779 sets"
                   + ("; size 5: 3455 sets (exact + mask spaces)" if tier == "thorough" else ""),
        "listed_sets": {k: len(v) for k, v in BIG_SETS.items()},
        "motions": "exact/single: 24 rotations x 3 translations (palette by seed); noise: "
                   + ("24 x 3" if tier == "thorough" else "24 rotations x translation #1")
                   + "; mask space: 6 listed motions; single-call noise: " + ("6 listed motions" if tier == "thorough"
                                                                              else "1 listed motion"),
        "noise": "one coordinate of one atom displaced by +-m1, +-m2 (palette by seed), before the motion",
        "masks": "all subsets with >= 1 atom of every set with n >= 2 (listed sets: all 2^n-1)"
                 + ("; 5-point lattice sets with magnitude m2 and 2 of the motions only" if tier == "thorough"
                    else "; 4-point and listed sets with magnitude m2 only"),
        "containers": "9 x 9 (fixed, mobile) over ndarray f64/f32, AtomArray, ndarray stack depth 1/2/3, "
                      "AtomArrayStack depth 1/2/3, x mask {none, full, partial} x {exact, noisy} geometry over all "
                      + ("1..4" if tier == "thorough" else "1..3") + "-point lattice sets + listed sets"
                      + (" (4-point sets: noisy geometry only)" if tier == "thorough"
                         else " (3-point sets: noisy geometry only)"),
        "homolog_variants": "3 geometries x min_anchors {1,2,3} x max_iterations {default, 1"
                            + ("" if tier == "thorough" else " (geometry #1 only)") + "} + min_anchors 4 + hetero tail"
                            " + mobile stack + both stacks",
        "outlier_params": "min_anchors {1,3,n} x max_iterations {1,2,10} x (quantiles,threshold) "
                          "{((.25,.75),1.5), ((.9,.1),.5), ((.4,.6),0)} on the listed sets (displacements +-m1, +-m2, "
                          "+-3 on top of a fixed +0.375 on the last atom; " + ("6" if tier == "thorough" else "2") + " motions; also mobile stacks of depth 2); "
                          + ("all 3- and 4-point lattice sets x all displacements x 11 of the triples" if tier == "thorough"
                             else "all 4-point lattice sets x displacements +-m2 x 5 listed triples"),
        "homolog_sequences": ("peptides {ALA,GLY,SER}^2..4 both sides" if tier == "thorough" else
                              "peptides {ALA,GLY,SER}^2..3 both sides + {ALA,SER}^4 both sides")
                             + "; nucleotides {A,DA}^2..4 both sides; two-chain peptides ({A,G,S}^2)^2; two-chain "
                               "sub-structure copies: (permutations of A,G,S)^2 x each mobile chain {full, first residue "
                               "dropped, last residue dropped}",
        "audit_families": {
            "flavour": "6 sets (one per rank class + helix6, generic7) x 9 fixed x 12 mobile x 6 mask flavours",
            "reuse": "6 sets x 5 containers: repeated apply/as_matrix, aliasing, refused calls, repeated calls",
            "boundary": "superimpose_without_outliers: all 1-/2-point sets + listed sets x min_anchors {n-1,n,n+1} x "
                        "max_iterations {1,2,3}",
            "singleton": "superimpose_homologs: peptides of length 1..2 both sides x min_anchors {1,2} x 2 geometries",
            "perm": "all atom orders of all 3-point sets; 3 re-orderings of the listed sets; all displacements; 2 motions",
            "swap": "roles exchanged for all 2-/3-point sets + listed sets",
            "mirror": "all 2..4-point sets + listed sets x the 24 improper cube symmetries (exact; with noise n != 4)",
            "many": "cubes {0..k-1}^3, k=3,4,5,10: 72 exact motions; first/middle/last atom displaced; 3 masks",
            "identity": "6 sets x 5 containers x {fixed is mobile, equal copy, identity AffineTransformation.apply, "
                        "superimpose_without_outliers of equal structures, translate by 0, rotate/rotate_centered by 0}: "
                        "result is a new object of the same type and value; editing it leaves the argument unchanged",
            "bparam": "coordinates of 0, 1 and 4 dimensions must be refused (fixed / mobile / apply); superimpose_homologs "
                      "x substitution_matrix {default, name, other name, object} x gap_penalty {-10, (-10,-1), -1} x "
                      "terminal_penalty {False, True} over 3 fixed x 36 mobile peptides (+ nucleotides with NUC)",
            "combo": "mirror image + offset (64,-32,16) + noise + every partial mask on all 3-point sets and 3 listed "
                     "sets; NaN coordinate in the one atom the mask excludes (EITHER: exception or NaN stays local)",
            "ladder": "magnitude ladder of the rigid motion: angle 90*2^-k degrees, k=0..20, about x, y, z and (1,2,3) x "
                      "translation {0, 2^-k*(1,-1,.5), (40,-25,10)} x structure {at the origin, shifted by (300,-200,100)} "
                      "on 4 sets (2- and 4-point lattice set, helix6, 4*generic7): single superimpose calls, one stack "
                      "of all 252 motions, stacks of the near-identity motions only, superimpose_without_outliers; "
                      "rotate / rotate_centered / rotate_about_axis on the same ladder against the textbook value",
            "farmask": "partial masks far from the origin: tetra4 (masks with 3 atoms), helix6 (every mask with 3..5 "
                       "atoms), cluster8 (mask = 4 atoms within 1.5 A) x offset {0, (300,-200,100), (1000,1000,1000), "
                       "(3000,0,0)} x 4 motions (identity, 40 deg about (1,2,3) + shift, 0.09 deg about z, cube "
                       "rotation + shift) x {float32 ndarray, AtomArray, stack of the 4}; masked RMSD of the rigid "
                       "copy <= float64 optimum + 20*eps32*(1+max|coord|)",
            "sizes": "6 sets x {superimpose, superimpose_without_outliers, rmsd, bool mask length, index mask} x fixed "
                     "size {1,n,n+2} x second operand size {1,n-1,n,n+1,2n,3n}: unequal sizes = exception or any value, "
                     "arguments untouched; equal sizes must work",
            "ambient": "6 sets x {exact, noisy} x {np.errstate raise, ignore, print options, working directory}: "
                       "bitwise the same results as under the default state, and again after the event is undone",
            "boxed": "7 sets x {AtomArray, stack of 2} x box {none, 1.5/1.5, 1.5/40, none/0.75 A} on fixed/mobile: "
                     "superimpose, superimpose_without_outliers, rmsd bitwise independent of the box",
            "ties": "5 listed sets (n=5,6,6,6,7) x displacements +-1,+-3 x quantiles (0,q) with (n-1)q integer, "
                    "threshold 0 (the threshold is one of the squared distances) x max_iterations {2,10} x "
                    "min_anchors {1,3}",
            "zeroscore": "all equally long peptide pairs ({A,G,S}^2..3, {A,G}^4) with a zero BLOSUM62 score on the diagonal x "
                         "min_anchors {1,2,3} x max_iterations 1 (+ hetero tail on mobile); mobile with more chains",
            "derived": "13 kinds of library-made inputs (fitted, applied, translate/rotate/rotate_centered output, "
                       "strided / masked / index-reordered AtomArray, stack[i], stack[[2,1]], stack[:, :n], coord view) x "
                       "{superimpose, superimpose_without_outliers, apply+rmsd} x 6 sets",
        },
        "tolerances": {"coord_rel": 1e-5, "orthonormal": 1e-5, "perturbation": [0.02, 0.02]},
    }


# ---------------------------------------------------------------------------
# batch descriptors:  {"kind", "mode", "fixed": [[x,y,z]..], "rots": [..], "trans": [[..]..],
#                      "mags": [..] | None, "mask": [bool..] | None}
# ---------------------------------------------------------------------------
def expand(desc):
    """Ordered item list [(rot index, translation index, noise or None)]."""
    n = len(desc["fixed"])
    noises = [None]
    if desc.get("mags"):
        noises = [(i, a, sg * m) for i in desc.get("noise_atoms", range(n)) for a in range(3)
                  for m in desc["mags"] for sg in (1, -1)]
    motions = desc.get("motions") or [(g, t) for g in desc["rots"] for t in range(len(desc["trans"]))]
    return [(g, t, nz) for nz in noises for (g, t) in motions]


def build(desc, items=None):
    """fixed (n,3) float64, mobile (m,n,3) float64 (all values float32-exact)."""
    F = np.array(desc["fixed"], dtype=np.float64)
    items = expand(desc) if items is None else items
    mob = np.empty((len(items),) + F.shape, dtype=np.float64)
    trans = np.array(desc["trans"], dtype=np.float64)
    bn = desc.get("base_noise")
    for k, (g, t, nz) in enumerate(items):
        X = F.copy()
        if bn:
            X[bn[0], bn[1]] += bn[2]
        if nz is not None:
            X[nz[0], nz[1]] += nz[2]
        mob[k] = X @ sp.OCT48_F[g].T + trans[t]
        if desc.get("nan"):
            mob[k][desc["nan"][0], desc["nan"][1]] = np.nan   # a missing coordinate
    return F, mob


def set_class(desc):
    return sp.rank_class(desc["fixed"])


# ---------------------------------------------------------------------------
# the judge (vectorised over m fitted models)
# ---------------------------------------------------------------------------
def extract(transform, m):
    R = np.broadcast_to(np.asarray(transform.rotation, dtype=np.float64), (m, 3, 3))
    ct = np.broadcast_to(np.asarray(transform.center_translation, dtype=np.float64), (m, 3))
    tt = np.broadcast_to(np.asarray(transform.target_translation, dtype=np.float64), (m, 3))
    mat = np.broadcast_to(np.asarray(transform.as_matrix(), dtype=np.float64), (m, 4, 4))
    return R, ct, tt, mat


def hom_apply(mat, pts):
    """mat (m,4,4), pts (m,k,3) or (k,3) -> (m,k,3) via homogeneous coordinates, float64."""
    p = np.broadcast_to(np.asarray(pts, dtype=np.float64), (mat.shape[0],) + np.shape(pts)[-2:])
    h = np.concatenate([p, np.ones(p.shape[:-1] + (1,))], axis=-1)
    r = np.einsum("mxy,mky->mkx", mat, h)
    return r[..., :3], r[..., 3]


def judge(ctx, site, cls, case, fixed, mobile, w, fitted, R, ct, tt, mat, probe_in=None, probe_out=None,
          focus=None, selfcheck=True):
    """fixed (n,3)|(m,n,3), mobile (m,n,3) exact float64; w None | (n,) | (m,n) bool; the rest is what
    the implementation returned (converted to float64).  Emits at most one violation per failure mode."""
    m = mobile.shape[0]
    fixed_b = np.broadcast_to(fixed, mobile.shape)
    ww = None if w is None else np.broadcast_to(np.asarray(w, dtype=np.float64), mobile.shape[:2])
    scale = 1.0 + np.max(np.abs(fixed_b), axis=(1, 2)) + np.max(np.abs(mobile), axis=(1, 2))
    tol = 1e-5 * scale

    def emit(mode, bad, what, expected, observed):
        if focus is not None:
            b2 = np.zeros_like(bad)
            b2[focus] = bad[focus]
            bad = b2
        if not bad.any():
            return False
        k = int(np.argmax(bad))
        ctx.violation("%s|%s|%s" % (site, mode, cls), what, {**case, "focus": k},
                      expected=expected(k), observed=observed(k))
        return True

    fin = (np.isfinite(fitted).all(axis=(1, 2)) & np.isfinite(R).all(axis=(1, 2)) & np.isfinite(ct).all(axis=1)
           & np.isfinite(tt).all(axis=1) & np.isfinite(mat).all(axis=(1, 2)))
    if emit("non_finite", ~fin, "non-finite value in the result", lambda k: "finite", lambda k: fitted[k]):
        return
    # proper rotation
    orth = np.max(np.abs(np.einsum("mxy,mxz->myz", R, R) - np.eye(3)), axis=(1, 2))
    emit("not_orthonormal", orth > 1e-5, "rotation is not orthonormal", lambda k: "R^T R = I (1e-5)",
         lambda k: R[k])
    det = np.linalg.det(R)
    emit("improper_rotation", np.abs(det - 1.0) > 1e-5, "rotation determinant is not +1", lambda k: 1.0,
         lambda k: float(det[k]))
    # 4x4 form
    badm = (np.max(np.abs(mat[:, 3, :] - np.array([0, 0, 0, 1.0])), axis=1) > 1e-6) | (
        np.max(np.abs(mat[:, :3, :3] - R), axis=(1, 2)) > 1e-6)
    emit("matrix_form", badm, "as_matrix() is not [R | t; 0 0 0 1] with R = rotation",
         lambda k: R[k], lambda k: mat[k])
    via_mat, hw = hom_apply(mat, mobile)
    e1 = np.max(np.abs(via_mat - fitted), axis=(1, 2))
    emit("fitted_ne_matrix", (e1 > tol) | (np.max(np.abs(hw - 1.0), axis=1) > 1e-6),
         "fitted coordinates differ from as_matrix() @ (x,y,z,1)",
         lambda k: via_mat[k], lambda k: fitted[k])
    via_attr = np.einsum("mxy,mky->mkx", R, mobile + ct[:, None, :]) + tt[:, None, :]
    e2 = np.max(np.abs(via_attr - fitted), axis=(1, 2))
    emit("fitted_ne_attributes", e2 > tol,
         "fitted coordinates differ from rotation @ (x + center_translation) + target_translation",
         lambda k: via_attr[k], lambda k: fitted[k])
    if probe_in is not None:
        pm, _ = hom_apply(mat, probe_in)
        ptol = 1e-5 * (1.0 + np.max(np.abs(pm), axis=(1, 2)) + np.max(np.abs(probe_in)))
        e3 = np.max(np.abs(pm - probe_out), axis=(1, 2))
        emit("apply_ne_matrix", e3 > ptol, "apply() on other coordinates differs from the 4x4 matrix form",
             lambda k: pm[k], lambda k: probe_out[k])
    # optimality over the selected atoms
    r_impl = sp.rmsd(fixed_b, fitted, ww)
    r_opt = np.sqrt(sp.horn_min_msd(fixed_b, mobile, ww))
    msg = None
    if not selfcheck:
        # tiny batches: Horn vs Kabsch only (the brute-force witnesses run at scale in the fit spaces)
        if w is None or np.ndim(w) == 1:
            sel = slice(None) if w is None else np.asarray(w, dtype=bool)
            Rk, cfk, cmk = sp.kabsch(fixed_b[:, sel], mobile[:, sel])
            k2 = sp.msd(fixed_b[:, sel], sp.place(Rk, cfk, cmk, mobile[:, sel]))
            if np.any(np.abs(k2 - r_opt ** 2) > 1e-9 * scale ** 2):
                msg = "Horn and Kabsch optimum differ"
    elif w is None:
        msg = sp.self_check(fixed_b, mobile, stride=5)
    elif np.ndim(w) == 1:
        sel = np.asarray(w, dtype=bool)
        msg = sp.self_check(fixed_b[:, sel], mobile[:, sel], stride=5)
        if msg is None and np.any(np.abs(sp.horn_min_msd(fixed_b[:, sel], mobile[:, sel]) - r_opt ** 2)
                                  > 1e-9 * scale ** 2):
            msg = "weighted and subset Horn optimum differ"
    if msg:
        raise RuntimeError("reference model self-check failed: " + msg)
    emit("not_optimal", r_impl > r_opt + tol, "a rigid placement with lower RMSD over the selected atoms exists",
         lambda k: {"rmsd_optimal": float(r_opt[k])}, lambda k: {"rmsd_fitted": float(r_impl[k])})
    emit("below_rigid_optimum", r_impl < r_opt - tol,
         "fitted RMSD is below the optimum over proper rigid motions (result is not a rigid placement)",
         lambda k: {"rmsd_optimal": float(r_opt[k])}, lambda k: {"rmsd_fitted": float(r_impl[k])})
    p_min = np.sqrt(sp.perturbed_min_msd(fixed_b, fitted, PROT, PSHIFT, ww))
    emit("beaten_by_perturbation", r_impl > p_min + tol,
         "a small rigid perturbation of the returned placement has lower RMSD",
         lambda k: {"rmsd_perturbed": float(p_min[k])}, lambda k: {"rmsd_fitted": float(r_impl[k])})
    # distinct outcomes
    sig = np.round(np.concatenate([r_impl[:, None], R.reshape(m, 9)], axis=1), 2)
    for row in np.unique(sig, axis=0)[:64]:
        ctx.outcome(row.tobytes())
    return r_impl, r_opt


def noise_cls(desc):
    mirror = any(g >= 24 for g in desc.get("rots", [])) or any(g >= 24 for g, _ in (desc.get("motions") or []))
    return ("nan_" if desc.get("nan") else "") + ("mirror_" if mirror else "") + ("swapped_" if desc.get("swap") else "") + (
        "noise" if desc.get("mags") else "exact")


def mask_cls(mask):
    if mask is None:
        return "nomask"
    return "fullmask" if all(mask) else "partmask%d" % sum(bool(x) for x in mask)


def count_nontrivial(desc, items):
    n = len(desc["fixed"])
    if n < 2:
        return 0
    return sum(1 for (g, t, nz) in items if g != 0 or nz is not None or any(desc["trans"][t]))


# ---------------------------------------------------------------------------
# fit batches: exact / noise / mask,  modes stack / single
# ---------------------------------------------------------------------------
def run_fit_batch(ctx, desc, focus=None):
    import biotite.structure as struc

    items = expand(desc)
    F, mob = build(desc, items)
    m, n = mob.shape[0], F.shape[0]
    mask = None if desc.get("mask") is None else np.array(desc["mask"], dtype=bool)
    mode = desc["mode"]
    cls = "%s/%s/%s/%s" % (mode, set_class(desc), noise_cls(desc), mask_cls(desc.get("mask")))
    case = dict(desc)
    if not ctx.journal(json.dumps({k: case[k] for k in ("kind", "mode", "fixed", "mask")})):
        return
    ctx.ev(m, count_nontrivial(desc, items))
    ctx.count("accepted", m)
    ctx.count("ev_fit_%s_%s_%s" % (mode, noise_cls(desc), "nomask" if mask is None else "mask"), m)
    F_in = F.copy()
    probe_in = np.broadcast_to(PROBE, (m, 5, 3)).copy()
    try:
        if mode == "stack":
            mob_in = mob.astype(np.float32)
            keep = mob_in.copy()
            kw = {} if mask is None else {"atom_mask": mask.copy()}
            fitted, tr = struc.superimpose(F_in, mob_in, **kw)
            if not np.array_equal(mob_in, keep, equal_nan=True) or not np.array_equal(F_in, F):
                ctx.violation("superimpose|input_mutated|" + cls, "an input array was modified", case)
            if not isinstance(fitted, np.ndarray) or fitted.shape != mob.shape:
                ctx.violation("superimpose|shape|" + cls, "fitted has the wrong type/shape", case,
                              expected=list(mob.shape), observed=repr(getattr(fitted, "shape", type(fitted))))
                return
            R, ct, tt, mat = extract(tr, m)
            probe_out = np.asarray(tr.apply(probe_in.astype(np.float32)), dtype=np.float64)
            fitted = np.asarray(fitted, dtype=np.float64)
        else:
            fitted = np.empty_like(mob)
            R = np.empty((m, 3, 3))
            ct = np.empty((m, 3))
            tt = np.empty((m, 3))
            mat = np.empty((m, 4, 4))
            probe_out = np.empty((m, 5, 3))
            for k in range(m):
                mk = mob[k].copy()
                kw = {} if mask is None else {"atom_mask": mask.copy()}
                if desc.get("swap"):
                    f, tr = struc.superimpose(mk, F_in, **kw)  # roles exchanged: the lattice set is the mobile one
                else:
                    f, tr = struc.superimpose(F_in, mk, **kw)
                if f.shape != (n, 3) or tr.rotation.shape != (1, 3, 3):
                    ctx.violation("superimpose|shape|" + cls, "fitted/rotation have the wrong shape",
                                  {**case, "focus": k}, expected=[[n, 3], [1, 3, 3]],
                                  observed=[list(f.shape), list(tr.rotation.shape)])
                    return
                if not np.array_equal(mk, mob[k]) or not np.array_equal(F_in, F):
                    ctx.violation("superimpose|input_mutated|" + cls, "an input array was modified",
                                  {**case, "focus": k})
                fitted[k] = f
                R[k], ct[k], tt[k], mat[k] = [x[0] for x in extract(tr, 1)]
                probe_out[k] = tr.apply(PROBE)
    except Exception as e:  # noqa: BLE001
        if desc.get("nan"):
            ctx.count("unspecified")  # a NaN coordinate (outside the mask) may be refused
            return
        ctx.violation("superimpose|raises_%s|%s" % (type(e).__name__, cls), "legal input raised: %s" % e, case,
                      expected="fitted, transformation", observed=repr(e)[:300])
        return
    if desc.get("nan"):
        # the atom with the missing coordinate is outside the mask: it must stay undefined, everything else is
        # judged as if that atom did not exist
        ka = desc["nan"][0]
        rest = np.array([i != ka for i in range(n)])
        badnan = ~(np.isnan(fitted[:, ka]).any(axis=1) & np.isfinite(fitted[:, rest]).all(axis=(1, 2)))
        if badnan.any():
            ctx.violation("superimpose|nan_pattern|" + cls, "a NaN coordinate outside the mask must stay NaN in fitted "
                          "and must not reach the other atoms", {**case, "focus": int(np.argmax(badnan))},
                          observed=fitted[int(np.argmax(badnan))])
            return
        judge(ctx, "superimpose", cls, case, F[rest], mob[:, rest], mask[rest], fitted[:, rest], R, ct, tt, mat,
              probe_in, probe_out, focus)
        return
    if desc.get("swap"):
        judge(ctx, "superimpose", cls, case, mob, np.broadcast_to(F, mob.shape).copy(), mask, fitted, R, ct, tt, mat,
              probe_in, probe_out, focus)
        return
    res = judge(ctx, "superimpose", cls, case, F, mob, mask, fitted, R, ct, tt, mat, probe_in, probe_out, focus)
    if res is None:
        return
    # the rmsd() function itself (whole structure, no mask)
    try:
        if mode == "stack":
            got = np.asarray(struc.rmsd(F, fitted.astype(np.float32)), dtype=np.float64)
        else:
            got = np.array([float(struc.rmsd(F, fitted[k].astype(np.float32))) for k in range(min(m, 8))])
    except Exception as e:  # noqa: BLE001
        ctx.violation("rmsd|raises_%s|%s" % (type(e).__name__, cls), "rmsd raised", case, observed=repr(e)[:300])
        return
    want = sp.rmsd(F, fitted)[: len(got)]
    scale = 1.0 + np.max(np.abs(F)) + np.max(np.abs(fitted), axis=(1, 2))[: len(got)]
    bad = (got.shape != want.shape) or bool(np.any(np.abs(got - want) > 1e-5 * scale))
    if bad and (focus is None or got.shape != want.shape or abs(got[min(focus, len(got) - 1)]
                                                                  - want[min(focus, len(got) - 1)]) > 1e-5 * scale.max()):
        k = 0 if got.shape != want.shape else int(np.argmax(np.abs(got - want)))
        ctx.violation("rmsd|wrong_value|" + cls, "rmsd() differs from the float64 definition",
                      {**case, "focus": k}, expected=want[:4], observed=got[:4])
    if len(ctx.samples) < 2 and desc.get("mags") and n >= 3:
        ctx.sample({"fixed": desc["fixed"], "item": list(items[-1]), "mask": desc.get("mask"),
                    "rmsd_fitted": float(res[0][-1]), "rmsd_optimal_f64": float(res[1][-1])})


# ---------------------------------------------------------------------------
# shape space: every container / stack-depth combination
# ---------------------------------------------------------------------------
CONTAINERS = ["nd64", "nd32", "aa", "ndst1", "ndst2", "ndst3", "aas1", "aas2", "aas3"]
MASKMODES = ["none", "full", "part"]


def depth_of(c):
    return 0 if c in ("nd64", "nd32", "aa") else int(c[-1])


def shape_models(desc):
    """three fixed and three mobile models (n,3) float64 for the base set of desc."""
    F = np.array(desc["fixed"], dtype=np.float64)
    n = len(F)
    tr = np.array(desc["trans"], dtype=np.float64)
    m1, m2 = desc["mags"]
    noisy = desc["var"] == "noisy"

    def mk(g, t, nz):
        X = F.copy()
        if nz is not None and noisy:
            X[nz[0], nz[1]] += nz[2]
        return X @ sp.ROT24_F[g].T + tr[t]

    fixed = [F.copy(), mk(5, 1, (0, 0, m1)), mk(9, 2, (n - 1, 2, -m1))]
    mobile = [mk(3, 1, (0, 1, m2)), mk(14, 2, None), mk(20, 1, (n - 1, 0, -m1))]
    return fixed, mobile


def make_container(kind, models):
    import biotite.structure as struc

    d = depth_of(kind)
    n = len(models[0])
    if kind == "nd64":
        return models[0].copy()
    if kind == "nd32":
        return models[0].astype(np.float32)
    if kind.startswith("ndst"):
        return np.stack(models[:d]).astype(np.float32 if d == 2 else np.float64)

    def arr(c):
        a = struc.AtomArray(n)
        a.coord = c.astype(np.float32)
        a.atom_name[:] = ["CA", "CB", "N", "O", "C", "OG", "P", "X"][:n]
        a.res_id[:] = np.arange(1, n + 1)
        a.element[:] = "C"
        return a

    if kind == "aa":
        return arr(models[0])
    return struc.stack([arr(c) for c in models[:d]])


def coords_of(x):
    return np.asarray(x if isinstance(x, np.ndarray) else x.coord, dtype=np.float64)


def shape_expectation(fc, mc):
    fd, md = depth_of(fc), depth_of(mc)
    if fd <= 1:
        return "accept" if (fd == 0 or md <= 1) else "either"
    if md == 0:
        # fixed stack (k >= 2) vs a single mobile array: k transformations for one model; the
        # statement does not say this call must succeed (biotite refuses it with a clear
        # IndexError from apply()) -> exception or a correct model-wise result are both fine
        return "either"
    if md == 1:
        return "either"
    return "accept" if md == fd else "refuse"


def run_shape_case(ctx, desc, focus=None):
    import biotite.structure as struc

    fc, mc, mm = desc["fc"], desc["mc"], desc["maskmode"]
    fd, md = depth_of(fc), depth_of(mc)
    fmods, mmods = shape_models(desc)
    n = len(fmods[0])
    mask = None
    if mm == "full":
        mask = np.ones(n, dtype=bool)
    elif mm == "part":
        mask = np.array([True] * (n - 1) + [False])
    exp = shape_expectation(fc, mc)
    fobj = make_container(fc, fmods)
    mobj = make_container(mc, mmods)
    fkeep, mkeep = coords_of(fobj).copy(), coords_of(mobj).copy()
    cls = "fixed_%s/mobile_%s/%s" % (
        "array" if fd == 0 else ("stack1" if fd == 1 else "stackk"),
        "array" if md == 0 else ("stack1" if md == 1 else "stackk"),
        "nomask" if mask is None else ("fullmask" if mask.all() else "partmask"))
    cls_full = "%s>%s/%s/%s/%s" % (fc, mc, mm, set_class(desc), desc["var"])
    case = dict(desc)
    if not ctx.journal(json.dumps({k: case[k] for k in ("kind", "fixed", "fc", "mc", "maskmode", "var")})):
        return
    ctx.ev(1, 1 if n >= 2 else 0)
    ctx.count({"accept": "accepted", "either": "unspecified", "refuse": "refused"}[exp])
    ctx.count("ev_shape")
    try:
        kw = {} if mask is None else {"atom_mask": mask.copy()}
        fitted, tr = struc.superimpose(fobj, mobj, **kw)
    except Exception as e:  # noqa: BLE001
        ctx.outcome(("shape-exc", fc, mc, type(e).__name__))
        if not np.array_equal(coords_of(fobj), fkeep) or not np.array_equal(coords_of(mobj), mkeep):
            ctx.violation("superimpose|input_mutated_by_refused_call|" + cls, "a call that raised modified its arguments",
                          case)
        if exp == "accept":
            ctx.violation("superimpose|raises_%s|%s" % (type(e).__name__, cls.rsplit("/", 1)[0]),
                          "documented container combination raised: %s" % e, case,
                          expected="fitted, transformation", observed=repr(e)[:300])
        return
    if exp == "refuse":
        ctx.violation("superimpose|no_error|" + cls, "stacks with different model counts were accepted", case,
                      expected="exception", observed=repr(getattr(fitted, "shape", None)))
        return
    if not np.array_equal(coords_of(fobj), fkeep) or not np.array_equal(coords_of(mobj), mkeep):
        ctx.violation("superimpose|input_mutated|" + cls, "an input was modified", case)
    mfit = max(fd, md, 1)
    fixed_items = np.stack([fmods[k if fd >= 2 else 0] for k in range(mfit)])
    mobile_items = np.stack([mmods[k if md >= 2 else 0] for k in range(mfit)])
    # type / shape of the result
    want_type = type(mobj)
    fc_arr = coords_of(fitted) if isinstance(fitted, (np.ndarray, struc.AtomArray, struc.AtomArrayStack)) else None
    want_shape = (n, 3) if (md == 0 and mfit == 1) else ((mfit, n, 3) if md == 0 else coords_of(mobj).shape)
    ok_type = isinstance(fitted, np.ndarray) if isinstance(mobj, np.ndarray) else (
        type(fitted) is want_type or (md == 0 and mfit > 1 and isinstance(fitted, struc.AtomArrayStack)))
    if fc_arr is None or not ok_type or (fc_arr.shape != want_shape and not (md == 1 and mfit > 1 and
                                                                           fc_arr.shape == (mfit, n, 3))):
        ctx.violation("superimpose|shape|" + cls, "fitted has the wrong type/shape", case,
                      expected=[want_type.__name__, list(want_shape)],
                      observed=[type(fitted).__name__, list(getattr(fc_arr, "shape", []))])
        return
    if not isinstance(mobj, np.ndarray):
        if fitted is mobj or fitted.coord is mobj.coord or fitted.atom_name.tolist() != mobj.atom_name.tolist() \
                or fitted.res_id.tolist() != mobj.res_id.tolist():
            ctx.violation("superimpose|not_a_copy|" + cls, "fitted is not an annotated copy of mobile", case)
    fitted_items = fc_arr.reshape((-1, n, 3))
    if fitted_items.shape[0] != mfit or np.asarray(tr.rotation).shape != (mfit, 3, 3):
        ctx.violation("superimpose|shape|" + cls, "number of transformations is not the number of fitted models",
                      case, expected=mfit, observed=[fitted_items.shape[0], list(np.asarray(tr.rotation).shape)])
        return
    R, ct, tt, mat = extract(tr, mfit)
    # apply() on other coordinates, ndarray and AtomArray(Stack) flavours
    probe_in = np.stack([PROBE + k for k in range(mfit)])
    try:
        if mfit == 1:
            p1 = np.asarray(tr.apply(probe_in[0]), dtype=np.float64).reshape((1, 5, 3))
            p2 = np.asarray(tr.apply(probe_in), dtype=np.float64)
        else:
            p1 = p2 = np.asarray(tr.apply(probe_in), dtype=np.float64)
        pobj = make_container("aas%d" % mfit if mfit > 1 else "aa", list(probe_in)) if mfit <= 3 else None
        p3 = coords_of(tr.apply(pobj)).reshape((mfit, 5, 3))
        for p in (p2, p3):
            if np.max(np.abs(p - p1)) > 1e-5 * (1 + np.max(np.abs(p1))):
                ctx.violation("apply|container_dependent|" + cls,
                              "apply() gives different coordinates for ndarray/stack/AtomArray input", case,
                              expected=p1, observed=p)
        probe_out = p1
    except Exception as e:  # noqa: BLE001
        ctx.violation("apply|raises_%s|%s" % (type(e).__name__, cls), "apply() raised on matching depth: %s" % e,
                      case, observed=repr(e)[:300])
        return
    # a transformation for mfit models must refuse a stack of another depth
    try:
        tr.apply(np.stack([PROBE] * (mfit + 1)))
        ctx.violation("apply|no_error|wrong_depth", "apply() accepted a stack with a different model count", case)
    except Exception:  # noqa: BLE001
        ctx.count("refused")
    res = judge(ctx, "superimpose", cls, case, fixed_items, mobile_items, mask, fitted_items, R, ct, tt, mat,
                probe_in, probe_out, focus, selfcheck=False)
    ctx.outcome(("shape", cls_full, None if res is None else np.round(res[0], 3).tolist()))
    if res is None or fd != 0:
        return
    try:
        got = np.asarray(struc.rmsd(fobj, fitted), dtype=np.float64)
    except Exception as e:  # noqa: BLE001
        ctx.violation("rmsd|raises_%s|%s" % (type(e).__name__, cls), "rmsd raised", case, observed=repr(e)[:300])
        return
    want = sp.rmsd(fmods[0], fitted_items)
    want = want[0] if md == 0 else want
    if got.shape != np.shape(want) or np.any(np.abs(got - want) > 1e-5 * (1 + np.max(np.abs(fitted_items)))):
        ctx.violation("rmsd|wrong_value|" + cls, "rmsd() differs from the float64 definition", case,
                      expected=want, observed=got)


# ---------------------------------------------------------------------------
# outlier space: superimpose_without_outliers
# ---------------------------------------------------------------------------
QT = [((0.25, 0.75), 1.5), ((0.9, 0.1), 0.5), ((0.4, 0.6), 0.0)]


QUICK_PARAMS = [(1, 10, 0), (3, 10, 0), (3, 2, 0), (3, 1, 0), (3, 10, 1)]


def outlier_params(n, level):
    """level 0: 5 listed triples; 1: 11 triples (all (min_anchors, quantile) at 10 iterations + the default
    quantiles at 1 and 2 iterations); 2: all 27."""
    if level == 0:
        return list(QUICK_PARAMS)
    return [(ma, mi, qi) for ma in sorted({1, 3, n}) for mi in (1, 2, 10) for qi in range(len(QT))
            if level == 2 or mi == 10 or (qi == 0 and ma == 3)]


def run_outlier_batch(ctx, desc, focus=None):
    """desc: fixed, trans, mags, motions (list of (g,t)), params (list of triples), stack (bool).
    One call per (noise, motion, params); judged together."""
    import biotite.structure as struc

    items = expand(desc)
    F, mob = build(desc, items)
    n = len(F)
    case = dict(desc)
    if not ctx.journal(json.dumps({k: case[k] for k in ("kind", "fixed", "stack")})):
        return
    rows = []  # (item index list, params, result)
    calls = []
    if desc.get("stack"):
        # mobile stack of depth 2: item k together with item k+5 (another displacement / motion)
        groups = [(k, (k + 5) % len(items)) for k in range(len(items))]
    else:
        groups = [(k,) for k in range(len(items))]
    for grp in groups:
        for prm in desc["params"]:
            calls.append((grp, prm))
    fit_fixed, fit_mobile, fit_w, fit_fitted, fit_R, fit_ct, fit_tt, fit_mat, fit_call = ([] for _ in range(9))
    cls0 = "%s/%s" % ("stack2" if desc.get("stack") else "array", set_class(desc))
    for ci, (grp, (ma, mi, qi)) in enumerate(calls):
        q, thr = ((0.0, qi[1]), 0.0) if isinstance(qi, list) else QT[qi]   # ["tie", q]: threshold = q-quantile itself
        mobile = mob[list(grp)] if len(grp) > 1 else mob[grp[0]]
        ccase = {**case, "focus": ci}
        ctx.ev(1, 1)
        ctx.count("accepted")
        ctx.count("ev_outlier_" + ("stack2" if desc.get("stack") else "array"))
        try:
            fitted, tr, anchors = struc.superimpose_without_outliers(
                F.copy(), mobile.astype(np.float32), min_anchors=ma, max_iterations=mi, quantiles=q,
                outlier_threshold=thr)
        except Exception as e:  # noqa: BLE001
            if ma > n:
                ctx.count("unspecified")  # more anchors demanded than atoms exist: the documentation is silent
                continue
            ctx.violation("superimpose_without_outliers|raises_%s|%s" % (type(e).__name__, cls0),
                          "legal input raised: %s" % e, ccase, observed=repr(e)[:300])
            continue
        if focus is not None and ci != focus:
            continue
        anchors = np.asarray(anchors)
        okidx = (anchors.ndim == 1 and anchors.dtype.kind in "iu" and len(anchors) >= 1
                 and len(set(anchors.tolist())) == len(anchors) and anchors.min() >= 0 and anchors.max() < n)
        if not okidx:
            ctx.violation("superimpose_without_outliers|bad_anchor_indices|" + cls0,
                          "anchor indices are not distinct valid atom indices", ccase, observed=anchors)
            continue
        if len(anchors) < min(ma, n):
            ctx.violation("superimpose_without_outliers|fewer_than_min_anchors|" + cls0,
                          "fewer anchors than min_anchors were returned", ccase, expected=min(ma, n),
                          observed=anchors)
        if mi == 1 and len(anchors) != n:
            ctx.violation("superimpose_without_outliers|outliers_removed_with_max_iterations_1|" + cls0,
                          "max_iterations=1 is documented to conduct no outlier removal", ccase,
                          expected=list(range(n)), observed=anchors)
        if CHECK_DOCUMENTED_OUTLIER_LOOP and len(grp) == 1:
            # (how several models are combined into one outlier decision is not documented: arrays only)
            ref, amb = sp.outlier_reference(F, mobile, ma, mi, q, thr)
            if amb:
                ctx.count("unspecified")
                if not set(anchors.tolist()) <= set(ref):
                    ctx.violation("superimpose_without_outliers|anchors_not_within_documented_prefix|" + cls0,
                                  "anchors contain an atom the documented iteration had already removed before "
                                  "its first ambiguous decision", ccase, expected=ref, observed=anchors)
            elif ref == anchors.tolist():
                ctx.count("documented_loop_agreed")
            else:
                ctx.violation("superimpose_without_outliers|anchors_differ_from_documented_loop|" + cls0,
                              "anchor set differs from the documented iteration (decision margins > 1e-3)",
                              ccase, expected=ref, observed=anchors)
        fit = np.asarray(fitted, dtype=np.float64).reshape((-1, n, 3))
        mm = len(grp)
        if fit.shape[0] != mm or np.asarray(fitted).shape != np.asarray(mobile).shape:
            ctx.violation("superimpose_without_outliers|shape|" + cls0, "fitted has the wrong shape", ccase,
                          expected=list(np.asarray(mobile).shape), observed=list(np.asarray(fitted).shape))
            continue
        R, ct, tt, mat = extract(tr, mm)
        w = np.zeros(n, dtype=bool)
        w[anchors] = True
        for j, k in enumerate(grp):
            fit_fixed.append(F)
            fit_mobile.append(mob[k])
            fit_w.append(w)
            fit_fitted.append(fit[j])
            fit_R.append(R[j]); fit_ct.append(ct[j]); fit_tt.append(tt[j]); fit_mat.append(mat[j])
            fit_call.append(ci)
        ctx.outcome(("wo", anchors.tolist(), ma, mi, qi))
    if not fit_fitted:
        return
    arr = lambda x: np.array(x)  # noqa: E731
    calls_idx = np.array(fit_call)

    class _Remap:
        """judge reports the index into the flattened fit list; the case wants the call index."""

        def __init__(self, c):
            self.c = c
            self.samples = c.samples

        def violation(self, sig, what, cs, expected=None, observed=None):
            cs = {**cs, "focus": int(calls_idx[cs["focus"]])}
            self.c.violation(sig, what, cs, expected, observed)

        def outcome(self, o):
            self.c.outcome(o)

    judge(_Remap(ctx), "superimpose_without_outliers", cls0 + "/anchors", case, arr(fit_fixed), arr(fit_mobile),
          arr(fit_w), arr(fit_fitted), arr(fit_R), arr(fit_ct), arr(fit_tt), arr(fit_mat))
    if len(ctx.samples) < 2:
        ctx.sample({"fixed": desc["fixed"], "call": [list(items[calls[0][0][0]][:2]), list(calls[-1][1])]})


def run_outlier_refusal(ctx):
    import biotite.structure as struc

    F = np.array(BIG_SETS["helix6"], dtype=np.float64)
    for mi in (0, -1):
        ctx.ev(1)
        ctx.count("refused")
        try:
            struc.superimpose_without_outliers(F, F + 1.0, max_iterations=mi)
            ctx.violation("superimpose_without_outliers|no_error|max_iterations_below_1",
                          "max_iterations < 1 accepted", {"kind": "outlier_refusal", "max_iterations": mi})
        except ValueError:
            pass
        except Exception as e:  # noqa: BLE001
            ctx.violation("superimpose_without_outliers|raises_%s|max_iterations_below_1" % type(e).__name__,
                          "documented ValueError expected", {"kind": "outlier_refusal", "max_iterations": mi})


# ---------------------------------------------------------------------------
# homolog space: superimpose_homologs on synthetic peptides / nucleotides
# ---------------------------------------------------------------------------
POS = [(0, 0, 0), (3.8, 0, 0), (3.8, 3.8, 0), (3.8, 3.8, 3.8), (0, 3.8, 3.8), (0, 0, 3.8), (7.6, 0, 0),
       (7.6, 3.8, 3.8)]
GEO = [(5, 1, None), (11, 2, ("first", 0, 1.0)), (17, 0, ("last", 2, -2.0))]
PEP, NUC = ("ALA", "GLY", "SER"), ("A", "DA")
_RES, _PEPS = {}, {}


def _residue(name):
    if name not in _RES:
        import biotite.structure.info as info

        a = info.residue(name)
        a = a[a.atom_name != "OXT"]
        _RES[name] = a
    return _RES[name]


def build_chains(chains, hetero=False, pos=None):
    """chains: list of residue-name lists -> AtomArray (chain ids A, B, ...; optional hetero tail in chain Z).
    pos: per chain the indices into POS where the residues sit (default: consecutive)."""
    key = (json.dumps(chains), hetero, json.dumps(pos))
    if key in _PEPS:
        return _PEPS[key].copy()
    parts = []
    gi = 0
    for ci, names in enumerate(chains):
        for ri, nm in enumerate(names):
            r = _residue(nm).copy()
            r.res_id[:] = ri + 1
            r.chain_id[:] = "AB"[ci]
            r.coord = r.coord + np.array(POS[gi if pos is None else pos[ci][ri]], dtype=np.float32)
            parts.append(r)
            gi += 1
    if hetero:
        for hi, nm in enumerate(("HOH", "NA", "LIG")):
            r = _residue(nm).copy()
            r.res_id[:] = 100 + hi
            r.chain_id[:] = "Z"
            r.hetero[:] = True
            r.coord = r.coord + np.array((-5.0 - 3 * hi, 2.0, 1.0), dtype=np.float32)
            parts.append(r)
    arr = parts[0]
    for r in parts[1:]:
        arr = arr + r
    _PEPS[key] = arr
    return arr.copy()


def anchor_atoms(arr):
    """indices of CA atoms of amino acids / P atoms of nucleotides, by the residue names we generate."""
    out = []
    for i in range(arr.array_length()):
        rn, an = arr.res_name[i], arr.atom_name[i]
        if (rn in PEP and an == "CA") or (rn in NUC and an == "P"):
            out.append(i)
    return out


def move(arr, geo):
    g, t, nz = GEO[geo]
    c = arr.coord.astype(np.float64)
    if nz is not None:
        idx = anchor_atoms(arr)
        c[idx[0] if nz[0] == "first" else idx[-1], nz[1]] += nz[2]
    out = arr.copy()
    out.coord = (c @ sp.ROT24_F[g].T + np.array(TRANS_PALETTES[0][t], dtype=np.float64)).astype(np.float32)
    return out


def chain_type(names):
    k = {("p" if x in PEP else "n") for x in names}
    return k.pop() if len(k) == 1 else "x"


def homolog_expectation(fch, mch, ma):
    nf, nm = sum(map(len, fch)), sum(map(len, mch))
    if len(fch) != len(mch):
        return "refuse"
    if nf < ma or nm < ma:
        return "refuse"
    ft, mt = [chain_type(c) for c in fch], [chain_type(c) for c in mch]
    if ft != mt or "x" in ft or len(set(ft)) > 1:
        return "either"
    if nf == nm:
        return "accept"
    return "either"


def run_homolog_case(ctx, case):
    import biotite.structure as struc

    fch, mch, ma = case["f"], case["m"], case["ma"]
    fixed = build_chains(fch, case.get("hetero", False), pos=case.get("fpos"))
    base = build_chains(mch, case.get("mhetero", False), pos=case.get("mpos"))
    geos = case["geo"] if isinstance(case["geo"], list) else [case["geo"]]
    mobs = [move(base, g) for g in geos]
    mobile = mobs[0] if not case.get("stack") else struc.stack(mobs)
    if case.get("fstack"):
        fixed = struc.stack([fixed, move(fixed, 0)])
    exp = homolog_expectation(fch, mch, ma)
    kw = {"min_anchors": ma}
    if case.get("mi") is not None:
        kw["max_iterations"] = case["mi"]
    if case.get("hp") is not None:
        kw.update(homolog_extra_kwargs(case))
    types = "".join(sorted({chain_type(c) for c in fch + mch}))
    cls = "%dchain/%s/%s%s%s" % (len(fch), types, "stack" if case.get("stack") else "array",
                                 "/hetero" if case.get("hetero") else "", "/mhetero" if case.get("mhetero") else "")
    ctx.ev(1, 1)
    ctx.count({"accept": "accepted", "either": "unspecified", "refuse": "refused"}[exp])
    ctx.count("ev_homolog_%dchain" % len(fch))
    mkeep = mobile.coord.copy()
    fkeep_h = fixed.coord.copy()
    try:
        res = struc.superimpose_homologs(fixed, mobile, **kw)
    except ValueError as e:
        ctx.outcome(("hom-exc", str(e)[:40]))
        if not np.array_equal(mobile.coord, mkeep) or not np.array_equal(fixed.coord, fkeep_h):
            ctx.violation("superimpose_homologs|input_mutated_by_refused_call|" + cls,
                          "a call that raised modified its arguments", case)
        if exp == "accept":
            ctx.violation("superimpose_homologs|raises_ValueError|%s/equal_anchor_counts" % cls,
                          "structures with equal CA/P counts >= min_anchors were refused: %s" % e, case,
                          observed=repr(e)[:300])
        elif exp == "either" and len(set(types)) > 1 and len(fch) == 2 and \
                [chain_type(c) for c in fch] == [chain_type(c) for c in mch]:
            ctx.count("observed_mixed_chain_types_refused")
        return
    except Exception as e:  # noqa: BLE001
        if exp != "refuse":
            ctx.violation("superimpose_homologs|raises_%s|%s" % (type(e).__name__, cls),
                          "undocumented exception class: %s" % e, case, observed=repr(e)[:300])
        return
    if exp == "refuse":
        ctx.violation("superimpose_homologs|no_error|%s/%s" % (cls, "chain_count" if len(fch) != len(mch)
                                                               else "too_few_backbone_atoms"),
                      "input documented as rejected was accepted", case)
        return
    if not isinstance(res, tuple) or len(res) != 4:
        ctx.violation("superimpose_homologs|shape|" + cls, "result is not a 4-tuple", case)
        return
    fitted, tr, fi, mi = res
    fi, mi = np.asarray(fi), np.asarray(mi)
    nfa, nma = fixed.array_length(), mobile.array_length()
    fa, mb = set(anchor_atoms(fixed if not case.get("fstack") else fixed[0])), set(anchor_atoms(base))
    ok = (fi.ndim == 1 and fi.shape == mi.shape and len(fi) >= 1 and fi.dtype.kind in "iu" and mi.dtype.kind in "iu"
          and len(set(fi.tolist())) == len(fi) and len(set(mi.tolist())) == len(mi)
          and set(fi.tolist()) <= fa and set(mi.tolist()) <= mb)
    if not ok:
        ctx.violation("superimpose_homologs|bad_anchor_indices|" + cls,
                      "anchor indices are not equally long lists of distinct CA/P atom indices", case,
                      expected=[sorted(fa), sorted(mb)], observed=[fi, mi])
        return
    if len(fi) < ma:
        ctx.violation("superimpose_homologs|fewer_than_min_anchors|" + cls, "fewer anchors than min_anchors",
                      case, expected=ma, observed=[fi, mi])
    if case.get("mi") == 1 and case.get("hp") is None and len(fch) == 1 and len(mch) == 1 \
            and len(fch[0]) == len(mch[0]) and set(fch[0] + mch[0]) <= set(PEP) and not case.get("stack"):
        # documented: "Only aligned residues with a positive score are considered as initial anchors"; without
        # outlier removal the result is those anchors, or all CA atoms if fewer than min_anchors were found.
        # Decided only where the ungapped, unshifted alignment is provably the unique optimum.
        L = len(fch[0])
        sc = lambda a, b: BLOSUM62_AGS[tuple(sorted((a, b)))]  # noqa: E731
        diag = [sc(a, b) for a, b in zip(fch[0], mch[0])]
        shifts = [sum(sc(fch[0][i], mch[0][i + d]) for i in range(L) if 0 <= i + d < L) for d in range(-L + 1, L) if d]
        if sum(diag) > max(shifts + [6 * (L - 1) - 10]):
            pos = [k for k in range(L) if diag[k] > 0]
            want = pos if len(pos) >= ma else list(range(L))
            fa_l, mb_l = sorted(fa), sorted(mb)
            got = sorted((fa_l.index(a), mb_l.index(b)) for a, b in zip(fi.tolist(), mi.tolist()))
            if got != [(k, k) for k in want]:
                ctx.violation("superimpose_homologs|zero_score_pair_handling|" + cls,
                              "without outlier removal the anchors must be the aligned residues with a positive score "
                              "(or all, if those are fewer than min_anchors)", case, expected=[(k, k) for k in want],
                              observed=got)
            else:
                ctx.count("initial_anchor_rule_agreed")
    if not np.array_equal(mobile.coord, mkeep) or type(fitted) is not type(mobile) or fitted is mobile \
            or fitted.coord.shape != mobile.coord.shape:
        ctx.violation("superimpose_homologs|not_a_copy|" + cls, "fitted is not a fresh copy of mobile / mobile changed",
                      case)
        return
    M = mobile.coord.astype(np.float64).reshape((-1, nma, 3))
    Fx = fixed.coord.astype(np.float64).reshape((-1, nfa, 3))
    fit = fitted.coord.astype(np.float64).reshape((-1, nma, 3))
    mm = max(M.shape[0], Fx.shape[0])
    if np.asarray(tr.rotation).shape != (mm, 3, 3) or fit.shape[0] != mm:
        ctx.violation("superimpose_homologs|shape|" + cls, "number of transformations != number of models", case,
                      expected=mm, observed=list(np.asarray(tr.rotation).shape))
        return
    R, ct, tt, mat = extract(tr, mm)
    allm, _ = hom_apply(mat, M)
    if np.max(np.abs(allm - fit)) > 1e-5 * (1 + np.max(np.abs(M)) + np.max(np.abs(fit))):
        ctx.violation("superimpose_homologs|fitted_ne_matrix|" + cls,
                      "fitted coordinates (all atoms) differ from as_matrix() @ (x,y,z,1)", case)
    ap = np.asarray(tr.apply(mobile).coord, dtype=np.float64).reshape(fit.shape)
    if np.max(np.abs(ap - fit)) > 1e-5 * (1 + np.max(np.abs(fit))):
        ctx.violation("superimpose_homologs|fitted_ne_apply|" + cls, "fitted differs from transform.apply(mobile)",
                      case)
    judge(ctx, "superimpose_homologs", cls + "/anchors", case, np.broadcast_to(Fx[:, fi], (mm, len(fi), 3)),
          np.broadcast_to(M[:, mi], (mm, len(mi), 3)).copy(), None, fit[:, mi], R, ct, tt, mat, selfcheck=False)
    if case.get("mpos") is not None:
        # mobile is an exact rigid copy of a sub-structure of fixed (residue at POS[k] <-> residue at POS[k]); the
        # sequences have one unambiguous alignment, so the common residues must end up superimposed
        fpos = [k for ch in case["fpos"] for k in ch]
        mposl = [k for ch in case["mpos"] for k in ch]
        fa_l, mb_l = sorted(fa), sorted(mb)
        pairs = [(fa_l[fpos.index(k)], mb_l[j]) for j, k in enumerate(mposl) if k in fpos]
        pf, pm = [a for a, _ in pairs], [b for _, b in pairs]
        rr = sp.rmsd(Fx[:, pf], fit[:, pm])
        if np.any(rr > 1e-5 * (1 + np.max(np.abs(Fx)) + np.max(np.abs(M)))):
            ctx.violation("superimpose_homologs|exact_copy_not_superimposed|" + cls,
                          "mobile is a rigid copy of a sub-structure but its residues do not land on their originals",
                          case, expected=0.0, observed=rr)
    ctx.outcome(("hom", fi.tolist(), mi.tolist()))
    if len(ctx.samples) < 1 and len(fi) >= 3:
        ctx.sample({**case, "fixed_anchors": fi.tolist(), "mobile_anchors": mi.tolist()})


def homolog_cases(shard, tier):
    """All cases of one homolog shard (a shard = one fixed chain list + family)."""
    fam, fch = shard["fam"], shard["f"]
    out = []
    if fam in ("pep", "nuc"):
        alpha = PEP if fam == "pep" else NUC
        if fam == "pep" and tier == "quick":
            mobs = [list(s) for k in (2, 3) for s in itertools.product(PEP, repeat=k)]
            mobs += [list(s) for s in itertools.product(("ALA", "SER"), repeat=4)]
        else:
            mobs = [list(s) for k in (2, 3, 4) for s in itertools.product(alpha, repeat=k)]
        for ms in mobs:
            for geo in range(len(GEO)):
                for ma in (1, 2, 3):
                    for mi in (None, 1):
                        if mi == 1 and geo != 1 and tier == "quick":
                            continue
                        out.append({"kind": "homolog", "f": fch, "m": [ms], "geo": geo, "ma": ma, "mi": mi})
            if len(ms) <= 3 and len(fch[0]) <= 3:
                out.append({"kind": "homolog", "f": fch, "m": [ms], "geo": 1, "ma": 2, "mi": None, "hetero": True})
                out.append({"kind": "homolog", "f": fch, "m": [ms], "geo": [1, 2], "ma": 2, "mi": None, "stack": True})
                out.append({"kind": "homolog", "f": fch, "m": [ms], "geo": [0, 2], "ma": 3, "mi": None, "stack": True,
                            "fstack": True})
            out.append({"kind": "homolog", "f": fch, "m": [ms], "geo": 0, "ma": 4, "mi": None})
    elif fam == "two":
        for m1 in itertools.product(PEP, repeat=2):
            for m2 in itertools.product(PEP, repeat=2):
                out.append({"kind": "homolog", "f": fch, "m": [list(m1), list(m2)], "geo": 1, "ma": 2, "mi": None})
        out.append({"kind": "homolog", "f": fch, "m": [fch[0] + fch[1]], "geo": 1, "ma": 2, "mi": None})
    elif fam == "sub":
        full = [[0, 1, 2], [3, 4, 5]]
        for v1 in range(3):
            for v2 in range(3):
                ms, mp = [], []
                for ch, v, ps in ((fch[0], v1, full[0]), (fch[1], v2, full[1])):
                    sl = slice(None) if v == 0 else (slice(1, None) if v == 1 else slice(None, -1))
                    ms.append(ch[sl])
                    mp.append(ps[sl])
                for mi in (None, 1):
                    out.append({"kind": "homolog", "f": fch, "m": ms, "fpos": full, "mpos": mp, "geo": 0, "ma": 3,
                                "mi": mi})
                    if (v1, v2) != (0, 0):
                        out.append({"kind": "homolog", "f": ms, "m": fch, "fpos": mp, "mpos": full, "geo": 0, "ma": 3,
                                    "mi": mi})
    elif fam == "cross":
        for ms in [list(s) for k in (2, 3) for s in itertools.product(NUC, repeat=k)]:
            out.append({"kind": "homolog", "f": fch, "m": [ms], "geo": 1, "ma": 2, "mi": None})
        for nuc in (["A", "DA"], ["DA", "A", "A"]):
            for ma in (2, 3):
                out.append({"kind": "homolog", "f": [fch[0], nuc], "m": [fch[0], nuc], "geo": 2, "ma": ma, "mi": None})
                out.append({"kind": "homolog", "f": [nuc, fch[0]], "m": [nuc, fch[0]], "geo": 2, "ma": ma, "mi": None})
    return out


# ---------------------------------------------------------------------------
# shards
# ---------------------------------------------------------------------------
def sets_of(size):
    if size == "big":
        return [[list(map(float, p)) for p in v] for v in BIG_SETS.values()]
    return lattice_sets(size)


def all_masks(n):
    return [list(bits) for bits in itertools.product([False, True], repeat=n) if any(bits)]


def _parts(kind, size, tier):
    """number of shards a (space, size) is cut into (by set index)."""
    table = {
        ("exact", 4): 4, ("exact", 5): 12, ("noise", 4): 24, ("noise", 3): 3, ("mask", 4): 24, ("mask", 3): 3,
        ("mask", 5): 48, ("mask", "big"): 6, ("single", 4): 8, ("single", 3): 2, ("shape", 3): 12,
        ("shape", 4): 48, ("shape", 2): 2, ("outlier", 4): 24, ("outlier", 3): 4, ("outlier", "big"): 6,
        ("noise", "big"): 2,
    }
    return table.get((kind, size), 1)


def shards(tier, seed):
    out = []
    th = tier == "thorough"
    for size in [4, 3, 2, 1, "big"] + ([5] if th else []):
        for p in range(_parts("exact", size, tier)):
            out.append({"kind": "fit", "space": "exact", "mode": "stack", "size": size, "part": p,
                        "parts": _parts("exact", size, tier)})
    for size in [4, 3, 2, 1, "big"]:
        for p in range(_parts("single", size, tier)):
            out.append({"kind": "fit", "space": "single", "mode": "single", "size": size, "part": p,
                        "parts": _parts("single", size, tier)})
        for p in range(_parts("noise", size, tier)):
            out.append({"kind": "fit", "space": "noise", "mode": "stack", "size": size, "part": p,
                        "parts": _parts("noise", size, tier)})
    for size in [4, 3, 2, "big"] + ([5] if th else []):
        for p in range(_parts("mask", size, tier)):
            out.append({"kind": "fit", "space": "mask", "mode": "stack", "size": size, "part": p,
                        "parts": _parts("mask", size, tier)})
    for size in [3, 2, 1, "big"] + ([4] if th else []):
        for p in range(_parts("shape", size, tier)):
            out.append({"kind": "shape", "size": size, "part": p, "parts": _parts("shape", size, tier)})
    for size in [4, "big"] + ([3] if th else []):
        for p in range(_parts("outlier", size, tier)):
            out.append({"kind": "outlier", "size": size, "part": p, "parts": _parts("outlier", size, tier)})
    # homologs: one shard per fixed sequence
    if th:
        peps = [list(s) for k in (2, 3, 4) for s in itertools.product(PEP, repeat=k)]
    else:
        peps = [list(s) for k in (2, 3) for s in itertools.product(PEP, repeat=k)]
        peps += [list(s) for s in itertools.product(("ALA", "SER"), repeat=4)]
    for s in peps:
        out.append({"kind": "homolog", "fam": "pep", "f": [s]})
    for s in [list(s) for k in (2, 3, 4) for s in itertools.product(NUC, repeat=k)]:
        out.append({"kind": "homolog", "fam": "nuc", "f": [s]})
    for s1 in itertools.product(PEP, repeat=2):
        out.append({"kind": "homolog", "fam": "two", "f": [list(s1), ["GLY", "SER"]]})
        out.append({"kind": "homolog", "fam": "two", "f": [["SER", "ALA"], list(s1)]})
    for s in (["ALA", "GLY", "SER"], ["SER", "SER"]):
        out.append({"kind": "homolog", "fam": "cross", "f": [s]})
    perms = [list(x) for x in itertools.permutations(PEP)]
    for c1 in perms:
        for c2 in perms:
            out.append({"kind": "homolog", "fam": "sub", "f": [c1, c2]})
    out += [dict(x) for x in AUDIT_SHARDS] + [dict(x) for x in AUDIT2_SHARDS] + [dict(x) for x in AUDIT3_SHARDS]
    out += [dict(x) for x in LADDER_SHARDS] + [dict(x) for x in FARMASK_SHARDS]
    # heavy first
    weight = {"fit": 0, "outlier": 1, "shape": 2, "homolog": 3, "audit": 4}
    out.sort(key=lambda s: (weight[s["kind"]], 0 if s.get("size") in (4, 5) else 1))
    return out


def fit_descs(shard, tier, seed):
    """The batch descriptors of one fit shard, in a fixed order."""
    trans, mags = pal(seed)
    trans = [list(map(float, t)) for t in trans]
    mags = list(mags)
    th = tier == "thorough"
    space, size = shard["space"], shard["size"]
    sets = sets_of(size)
    for si, F in enumerate(sets):
        if si % shard["parts"] != shard["part"]:
            continue
        n = len(F)
        base = {"kind": "fit", "fixed": F, "trans": trans}
        if space == "exact":
            yield {**base, "mode": "stack", "rots": list(range(24)), "mags": None, "mask": None}
        elif space == "single":
            yield {**base, "mode": "single", "rots": list(range(24)), "mags": None, "mask": None}
            if n >= 2:
                yield {**base, "mode": "single", "rots": [], "motions": (M6 if th else [[13, 1]]), "mags": mags,
                       "mask": None}
        elif space == "noise":
            if th:
                yield {**base, "mode": "stack", "rots": list(range(24)), "mags": mags, "mask": None}
            else:
                yield {**base, "mode": "stack", "rots": [], "motions": [[g, 1] for g in range(24)], "mags": mags,
                       "mask": None}
        elif space == "mask":
            mg = mags if (th and size != 5) or (size in (2, 3)) else [mags[1]]
            mo = M6[1:3] if size == 5 else M6
            for mask in all_masks(n):
                yield {**base, "mode": "stack", "rots": [], "motions": [list(x) for x in mo], "mags": mg,
                       "mask": mask}


def shape_descs(shard, tier, seed):
    trans, mags = pal(seed)
    trans = [list(map(float, t)) for t in trans]
    for si, F in enumerate(sets_of(shard["size"])):
        if si % shard["parts"] != shard["part"]:
            continue
        for var in ("exact", "noisy"):
            if var == "exact" and shard["size"] == (3 if tier == "quick" else 4):
                continue
            for fc in CONTAINERS:
                for mc in CONTAINERS:
                    for mm in MASKMODES:
                        if mm == "part" and len(F) < 2:
                            continue
                        yield {"kind": "shape", "fixed": F, "trans": trans, "mags": list(mags), "var": var,
                               "fc": fc, "mc": mc, "maskmode": mm}


def outlier_descs(shard, tier, seed):
    trans, mags = pal(seed)
    trans = [list(map(float, t)) for t in trans]
    big = shard["size"] == "big"
    for si, F in enumerate(sets_of(shard["size"])):
        if si % shard["parts"] != shard["part"]:
            continue
        n = len(F)
        th = tier == "thorough"
        motions = [list(x) for x in (M6 if th else M6[1:3])] if big else [[8, 2]]
        prm = [list(p) for p in outlier_params(n, 2 if big else (1 if th else 0))]
        mg = list(mags) + [3.0] if big else (list(mags) if th else [mags[1]])
        # a second, small displacement on the last atom keeps the remainder generic after the outlier is gone
        yield {"kind": "outlier", "fixed": F, "trans": trans, "mags": mg, "base_noise": [n - 1, 1, 0.375],
               "rots": [], "motions": motions, "params": prm, "stack": False}
        if big:
            yield {"kind": "outlier", "fixed": F, "trans": trans, "mags": list(mags), "rots": [],
                   "motions": motions[:2] if th else motions[:1], "params": prm, "stack": True}


def run_shard(shard, ctx):
    import os
    import time

    t0 = time.process_time()
    try:
        _run_shard(shard, ctx)
    finally:
        if os.environ.get("C16_PROFILE"):
            ctx.count("cpu_ms_%s_%s_%s" % (shard["kind"], shard.get("space", shard.get("fam", "")), shard.get("size", "")),
                      int(1000 * (time.process_time() - t0)))


def _run_shard(shard, ctx):
    k = shard["kind"]
    if k == "fit":
        for d in fit_descs(shard, ctx.tier, ctx.seed):
            run_fit_batch(ctx, d)
    elif k == "shape":
        for d in shape_descs(shard, ctx.tier, ctx.seed):
            run_shape_case(ctx, d)
    elif k == "outlier":
        if shard["size"] == "big" and shard["part"] == 0:
            run_outlier_refusal(ctx)
        for d in outlier_descs(shard, ctx.tier, ctx.seed):
            run_outlier_batch(ctx, d)
    elif k == "homolog":
        from mc import ccd

        ccd.install_ccd()
        for c in homolog_cases(shard, ctx.tier):
            if ctx.journal(json.dumps(c)):
                run_homolog_case(ctx, c)
    elif k == "audit" and shard["fam"] == "ladder":
        run_ladder_shard(shard, ctx)
    elif k == "audit" and shard["fam"] == "farmask":
        for c in farmask_cases():
            if ctx.journal(json.dumps(c)):
                run_farmask_case(ctx, c)
    elif k == "audit" and shard["fam"] in ("sizes", "ambient", "boxed", "ties", "zeroscore"):
        run_audit3_shard(shard, ctx)
    elif k == "audit" and shard["fam"] in ("identity", "bparam", "combo", "derived"):
        run_audit2_shard(shard, ctx)
    elif k == "audit":
        run_audit_shard(shard, ctx)
    else:
        raise ValueError(shard)


def replay(case, ctx):
    if isinstance(case, str):
        case = json.loads(case)
    k = case.get("kind")
    if k == "fit":
        if "rots" not in case:
            return
        run_fit_batch(ctx, {x: case[x] for x in case if x != "focus"}, focus=case.get("focus"))
    elif k == "shape":
        if "trans" in case:
            run_shape_case(ctx, case, focus=None)
    elif k == "outlier":
        if "params" in case:
            run_outlier_batch(ctx, {x: case[x] for x in case if x != "focus"}, focus=case.get("focus"))
    elif k == "outlier_refusal":
        run_outlier_refusal(ctx)
    elif k == "homolog":
        from mc import ccd

        ccd.install_ccd()
        run_homolog_case(ctx, case)
    elif k == "audit" and case.get("fam") == "flavour":
        run_flavour_case(ctx, case)
    elif k == "audit" and case.get("fam") == "reuse":
        run_reuse_case(ctx, case)
    elif k == "audit" and case.get("fam") == "identity":
        run_identity_case(ctx, case)
    elif k == "audit" and case.get("fam") == "derived":
        run_derived_case(ctx, case)
    elif k == "audit" and case.get("fam") == "ndim":
        run_ndim_case(ctx, case)
    elif k == "audit" and case.get("fam") == "sizes":
        run_sizes_case(ctx, case)
    elif k == "audit" and case.get("fam") == "farmask":
        run_farmask_case(ctx, {x: case[x] for x in case if x not in ("focus", "motion")}, focus=case.get("focus"))
    elif k == "audit" and case.get("fam") == "ladder":
        if case.get("mode") == "transform":
            run_ladder_transform(ctx, case)
        else:
            run_ladder_case(ctx, {x: case[x] for x in case if x not in ("focus", "motion", "axis", "k")},
                            focus=case.get("focus"))
    elif k == "audit" and case.get("fam") == "ambient":
        run_ambient_case(ctx, case)
    elif k == "audit" and case.get("fam") == "boxed":
        run_boxed_case(ctx, case)


def crash_class(case):
    if isinstance(case, dict):
        return "%s|%s" % (case.get("kind", "?"), case.get("mode") or case.get("fc") or case.get("fam") or "")
    return "unclassified"


# ===========================================================================
# dimension-audit families (array flavours, object reuse / aliasing / error paths, boundaries,
# orientation / order, many atoms) - see notes/C16.md "Dimension audit"
# ===========================================================================
FLAV_FIXED = ["c64", "f32", "strided", "fortran", "tview", "readonly", "list", "int64", "int32"]
FLAV_MOBILE = FLAV_FIXED + ["st2_strided", "st2_fortran", "st2_readonly"]
FLAV_MASK = ["none", "bool", "bool_strided", "bool_readonly", "list", "index"]
FLAV_EITHER = {"list", "int64", "int32", "index"}   # outside the documented parameter types


def audit_sets():
    """one lattice set per rank class + two listed sets."""
    out = []
    for size, want in ((1, "point"), (2, "collinear"), (3, "planar"), (4, "spatial")):
        out.append(next(s for s in lattice_sets(size) if sp.rank_class(s) == want))
    out.append([list(map(float, p)) for p in BIG_SETS["helix6"]])
    out.append([list(map(float, p)) for p in BIG_SETS["generic7"]])
    return out


def flavour(kind, models):
    """models: list of (k,3) float64 arrays; returns the object handed to biotite or None (not expressible)."""
    a = models[0]
    if kind == "c64":
        return a.copy()
    if kind == "f32":
        return a.astype(np.float32)
    if kind == "strided":
        big = np.full((2 * len(a), 3), 77.0)
        big[::2] = a
        return big[::2]
    if kind == "fortran":
        return np.asfortranarray(a)
    if kind == "tview":
        return np.ascontiguousarray(a.T).T
    if kind == "readonly":
        r = a.copy()
        r.flags.writeable = False
        return r
    if kind == "list":
        return a.tolist()
    if kind in ("int64", "int32"):
        return a.astype(kind) if np.all(a == np.round(a)) else None
    st = np.stack(models[:2])
    if kind == "st2_strided":
        big = np.full((4,) + st.shape[1:], 77.0)
        big[::2] = st
        return big[::2]
    if kind == "st2_fortran":
        return np.asfortranarray(st)
    if kind == "st2_readonly":
        st.flags.writeable = False
        return st
    raise ValueError(kind)


def mask_flavour(kind, n):
    base = np.array([True] * (n - 1) + [n == 1])
    if kind == "none":
        return None, None
    if kind == "bool":
        return base, base.copy()
    if kind == "bool_strided":
        big = np.zeros(2 * n, dtype=bool)
        big[::2] = base
        return base, big[::2]
    if kind == "bool_readonly":
        r = base.copy()
        r.flags.writeable = False
        return base, r
    if kind == "list":
        return base, base.tolist()
    return base, np.where(base)[0]


def flavour_models(F):
    F = np.array(F, dtype=np.float64)
    X = F.copy()
    X[0, 1] += 1.0
    return [F], [X @ sp.ROT24_F[3].T + np.array([-3.0, 7.0, 1.0]), F @ sp.ROT24_F[14].T + np.array([5.0, -2.0, -6.0])]


def run_flavour_case(ctx, case):
    import biotite.structure as struc

    fk, mk, kk = case["ff"], case["mf"], case["kf"]
    fm, mm = flavour_models(case["fixed"])
    n = len(fm[0])
    fobj, mobj = flavour(fk, fm), flavour(mk, mm)
    if fobj is None or mobj is None:
        return
    depth = 2 if mk.startswith("st2") else 1
    base, mobj_mask = mask_flavour(kk, n)
    either = bool({fk, mk, kk} & FLAV_EITHER)
    cls = "%s>%s/%s" % (fk, mk, kk)
    ctx.ev(1, 1 if n >= 2 else 0)
    ctx.count("unspecified" if either else "accepted")
    ctx.count("ev_audit_flavour")
    fkeep = np.array(fobj, dtype=np.float64).copy()
    mkeep = np.array(mobj, dtype=np.float64).copy()
    kkeep = None if mobj_mask is None else np.array(mobj_mask).copy()
    try:
        kw = {} if mobj_mask is None else {"atom_mask": mobj_mask}
        fitted, tr = struc.superimpose(fobj, mobj, **kw)
        m = depth
        R, ct, tt, mat = extract(tr, m)
        pm = [PROBE + 0.5, PROBE - 2.0]
        pobj = flavour(mk, pm) if flavour(mk, pm) is not None else flavour("c64", pm)
        pin = np.array(pobj, dtype=np.float64).reshape((-1, 5, 3))
        pout = np.asarray(tr.apply(pobj), dtype=np.float64).reshape((-1, 5, 3))
        rm = np.asarray(struc.rmsd(fobj, fitted), dtype=np.float64)
    except Exception as e:  # noqa: BLE001
        ctx.outcome(("flav-exc", cls, type(e).__name__))
        if not either:
            ctx.violation("superimpose|raises_%s|flavour/%s" % (type(e).__name__, cls),
                          "float ndarray input in another memory layout raised: %s" % e, case, observed=repr(e)[:300])
        return
    if not np.array_equal(np.array(fobj, dtype=np.float64), fkeep) or not np.array_equal(
            np.array(mobj, dtype=np.float64), mkeep) or (kkeep is not None and not np.array_equal(np.array(mobj_mask), kkeep)):
        ctx.violation("superimpose|input_mutated|flavour/" + cls, "an argument was modified", case)
    fit = np.asarray(fitted, dtype=np.float64)
    want_shape = (2, n, 3) if depth == 2 else (n, 3)
    if fit.shape != want_shape or pout.shape[0] != depth:
        ctx.violation("superimpose|shape|flavour/" + cls, "fitted / applied coordinates have the wrong shape", case,
                      expected=list(want_shape), observed=list(fit.shape))
        return
    fit = fit.reshape((-1, n, 3))
    mob = np.stack(mm[:depth])
    judge(ctx, "superimpose", "flavour/" + cls, case, fm[0], mob, base, fit, R, ct, tt, mat, pin, pout,
          selfcheck=False)
    want = sp.rmsd(fm[0], fit)
    want = want if depth == 2 else want[0]
    if rm.shape != np.shape(want) or np.any(np.abs(rm - want) > 1e-5 * (1 + np.max(np.abs(fit)))):
        ctx.violation("rmsd|wrong_value|flavour/" + cls, "rmsd() differs from the float64 definition", case,
                      expected=want, observed=rm)
    ctx.outcome(("flav", cls, np.round(want, 3).tolist()))


def flavour_cases():
    for F in audit_sets():
        for ff in FLAV_FIXED:
            for mf in FLAV_MOBILE:
                for kf in FLAV_MASK:
                    yield {"kind": "audit", "fam": "flavour", "fixed": F, "ff": ff, "mf": mf, "kf": kf}


# --- object reuse / aliasing / error paths -------------------------------------------------
REUSE_CONT = ["nd64", "nd32", "aa", "ndst2", "aas2"]


def _snap(tr):
    return [np.array(x, copy=True) for x in (tr.center_translation, tr.rotation, tr.target_translation)]


def _same(a, b):
    return all(x.shape == y.shape and np.array_equal(x, y) for x, y in zip(a, b))


def run_reuse_case(ctx, case):
    import biotite.structure as struc
    from biotite.structure import AffineTransformation

    cont = case["cont"]
    d = {"fixed": case["fixed"], "trans": TRANS_PALETTES[0], "mags": [0.25, 1.0], "var": "noisy"}
    fmods, mmods = shape_models(d)
    n = len(fmods[0])
    depth = max(depth_of(cont), 1)
    fkind = "aa" if cont.startswith("aa") else "nd64"
    ctx.ev(1, 1 if n >= 2 else 0)
    ctx.count("accepted")
    ctx.count("ev_audit_reuse")

    def bad(what, msg, **kw):
        ctx.violation("reuse|%s|%s" % (what, cont), msg, case, **kw)

    fobj, mobj = make_container(fkind, fmods), make_container(cont, mmods)
    f1, t1 = struc.superimpose(fobj, mobj)
    c1 = coords_of(f1).copy()
    s1 = _snap(t1)
    m1 = np.array(t1.as_matrix(), copy=True)
    # aliasing of results with arguments / with each other
    raw_f1 = f1 if isinstance(f1, np.ndarray) else f1.coord
    raw_in = [x if isinstance(x, np.ndarray) else x.coord for x in (fobj, mobj)]
    parts = [t1.center_translation, t1.rotation, t1.target_translation]
    if any(np.shares_memory(raw_f1, x) for x in raw_in) or any(np.shares_memory(p, x) for p in parts for x in raw_in + [raw_f1]):
        bad("result_aliases_argument", "fitted / transformation share memory with an argument or each other")
    probe = np.stack([PROBE + k for k in range(depth)]).astype(np.float32)
    probe1 = probe if depth > 1 else probe[0]
    a1 = np.array(t1.apply(probe1), copy=True)
    ma = t1.as_matrix()
    a2 = np.array(t1.apply(probe1), copy=True)
    t1.apply(np.concatenate([probe, probe], axis=1) if depth > 1 else np.concatenate([probe[0], probe[0]]))
    try:
        t1.apply(np.stack([PROBE] * (depth + 1)))
        bad("no_error_wrong_depth", "apply() accepted a stack with another model count")
    except Exception:  # noqa: BLE001
        ctx.count("refused")
    a3 = np.array(t1.apply(probe1), copy=True)
    if not (np.array_equal(a1, a2) and np.array_equal(a1, a3)):
        bad("apply_not_repeatable", "a second / third apply() (after as_matrix(), another shape and a refused call) "
            "differs from the first", expected=a1, observed=a3)
    if not _same(s1, _snap(t1)):
        bad("transformation_changed_by_use", "apply()/as_matrix() changed the transformation's attributes")
    ma[...] += 1.0  # a caller scribbling over the returned matrix
    if not np.array_equal(np.asarray(t1.as_matrix()), m1):
        bad("as_matrix_not_fresh", "as_matrix() differs after the array returned earlier was modified", expected=m1,
            observed=np.asarray(t1.as_matrix()))
    # mutate the mobile argument afterwards
    raw_in[1][...] += 50.0
    if not np.array_equal(coords_of(f1), c1) or not _same(s1, _snap(t1)):
        bad("result_follows_argument", "modifying mobile after the call changed fitted / the transformation")
    raw_f1[...] += 100.0
    if not _same(s1, _snap(t1)) or not np.array_equal(np.array(t1.apply(probe1)), a1):
        bad("transformation_follows_fitted", "modifying fitted changed the transformation")
    # same call again from fresh arguments, another fit in between (module-level state)
    o_f, o_m = shape_models({**d, "fixed": [[0, 0, 0], [2, 1, 0], [0, 1, 2], [1, 1, 1]]})
    struc.superimpose(o_f[0], np.stack(o_m))
    try:
        struc.superimpose(np.stack(fmods[:2]), np.stack(mmods[:3]))
    except Exception:  # noqa: BLE001
        ctx.count("refused")
    f2, t2 = struc.superimpose(make_container(fkind, fmods), make_container(cont, mmods))
    if not np.array_equal(coords_of(f2), c1) or not _same(s1, _snap(t2)):
        bad("second_call_differs", "the same call after other (valid and refused) calls gives another result",
            expected=c1, observed=coords_of(f2))
    # user-constructed transformation: arguments untouched; aliasing of arguments is existing behaviour
    args = [x.copy() for x in s1]
    keep = [x.copy() for x in args]
    T = AffineTransformation(*args)
    b1 = np.array(T.apply(probe1), copy=True)
    if not _same(args, keep):
        bad("constructor_modified_arguments", "AffineTransformation()/apply() modified the arrays it was given")
    if not np.array_equal(b1, a1):
        bad("constructed_differs", "AffineTransformation built from the returned attributes applies differently",
            expected=a1, observed=b1)
    args[1][...] = 0.0
    if not np.array_equal(np.array(T.apply(probe1)), b1):
        ctx.count("unspecified_constructor_keeps_reference_to_arguments")
    # outlier variant: arguments untouched, repeatable, refusal leaves nothing behind
    if cont in ("nd64", "ndst2"):
        q = [0.75, 0.25]
        Fo, Mo = fmods[0], (np.stack(mmods[:2]) if depth > 1 else mmods[0])
        Mo_in = Mo.astype(np.float32)
        r1 = struc.superimpose_without_outliers(Fo, Mo_in, min_anchors=1, quantiles=q)
        if q != [0.75, 0.25] or not np.array_equal(Mo_in, Mo.astype(np.float32)):
            bad("outlier_arguments_modified", "superimpose_without_outliers modified quantiles / mobile")
        k1 = [np.array(r1[0], copy=True), _snap(r1[1]), np.array(r1[2], copy=True)]
        r1[2][...] = 0
        try:
            struc.superimpose_without_outliers(Fo, Mo_in, max_iterations=0)
        except ValueError:
            ctx.count("refused")
        r2 = struc.superimpose_without_outliers(Fo, Mo.astype(np.float32), min_anchors=1, quantiles=(0.75, 0.25))
        if not (np.array_equal(r2[0], k1[0]) and _same(k1[1], _snap(r2[1])) and np.array_equal(r2[2], k1[2])):
            bad("outlier_second_call_differs", "repeating the call (after a refused one) gives another result")
    ctx.outcome(("reuse", cont, np.round(c1, 2).tolist()))


def reuse_cases():
    for F in audit_sets():
        for cont in REUSE_CONT:
            yield {"kind": "audit", "fam": "reuse", "fixed": F, "cont": cont}


# --- boundaries: min_anchors around n, few iterations, one / two atoms, one residue -----------
def boundary_descs(seed):
    trans, mags = pal(seed)
    trans = [list(map(float, t)) for t in trans]
    for F in lattice_sets(1) + lattice_sets(2) + sets_of("big"):
        n = len(F)
        prm = [[ma, mi, 0] for ma in (n - 1, n, n + 1) for mi in (1, 2, 3)]
        yield {"kind": "outlier", "fixed": F, "trans": trans, "mags": [mags[1]], "base_noise": [n - 1, 1, 0.375],
               "rots": [], "motions": [[8, 2]], "params": prm, "stack": False}


def singleton_cases():
    seqs = [[a] for a in PEP] + [list(s) for s in itertools.product(PEP, repeat=2)]
    for f in seqs:
        for m in seqs:
            for ma in (1, 2):
                for geo in (0, 1):
                    yield {"kind": "homolog", "f": [f], "m": [m], "geo": geo, "ma": ma, "mi": None}


# --- orientation / order / many atoms: more fit batches ------------------------------------
def _cube(k):
    return [[float(x), float(y), float(z)] for x in range(k) for y in range(k) for z in range(k)]


def audit_fit_descs(shard, seed):
    trans, mags = pal(seed)
    trans = [list(map(float, t)) for t in trans]
    fam, part, parts = shard["fam"], shard.get("part", 0), shard.get("parts", 1)
    base = {"kind": "fit", "trans": trans}
    if fam == "perm":
        jobs = []
        for F in lattice_sets(3):
            jobs += [[F[i] for i in p] for p in itertools.permutations(range(3)) if list(p) != [0, 1, 2]]
        for F in sets_of("big"):
            jobs += [F[::-1], F[1:] + F[:1], [F[1], F[0]] + F[2:]]
        for i, F in enumerate(jobs):
            if i % parts == part:
                yield {**base, "fixed": F, "mode": "stack", "rots": [], "motions": [list(x) for x in M6[:2]],
                       "mags": list(mags), "mask": None}
    elif fam == "swap":
        for i, F in enumerate(lattice_sets(2) + lattice_sets(3) + sets_of("big")):
            if i % parts == part:
                yield {**base, "fixed": F, "mode": "single", "rots": [], "motions": [list(M6[3])], "mags": [mags[1]],
                       "mask": None, "swap": True}
    elif fam == "mirror":
        allsets = lattice_sets(2) + lattice_sets(3) + lattice_sets(4) + sets_of("big")
        for i, F in enumerate(allsets):
            if i % parts != part:
                continue
            yield {**base, "fixed": F, "mode": "stack", "rots": [], "motions": [[24 + g, 1] for g in range(24)],
                   "mags": None, "mask": None}
            if len(F) != 4:
                yield {**base, "fixed": F, "mode": "stack", "rots": [], "motions": [[24, 1], [31, 1], [40, 1]],
                       "mags": [mags[1]], "mask": None}
    elif fam == "many":
        for k in (3, 4, 5, 10):
            F = _cube(k)
            n = len(F)
            yield {**base, "fixed": F, "mode": "stack", "rots": list(range(24)), "mags": None, "mask": None}
            for mask in (None, [i % 2 == 0 for i in range(n)], [i < n // 2 for i in range(n)]):
                yield {**base, "fixed": F, "mode": "stack", "rots": [], "motions": [list(x) for x in M6[:2]],
                       "mags": [mags[1]], "noise_atoms": [0, n // 2, n - 1], "mask": mask}


AUDIT_SHARDS = ([{"kind": "audit", "fam": "flavour", "part": p, "parts": 2} for p in range(2)]
                + [{"kind": "audit", "fam": f} for f in ("reuse", "boundary", "singleton", "swap", "many")]
                + [{"kind": "audit", "fam": "perm", "part": p, "parts": 2} for p in range(2)]
                + [{"kind": "audit", "fam": "mirror", "part": p, "parts": 4} for p in range(4)])


def run_audit_shard(shard, ctx):
    fam = shard["fam"]
    if fam == "flavour":
        for i, c in enumerate(flavour_cases()):
            if i % shard["parts"] == shard["part"] and ctx.journal(json.dumps(c)):
                run_flavour_case(ctx, c)
    elif fam == "reuse":
        for c in reuse_cases():
            if ctx.journal(json.dumps(c)):
                run_reuse_case(ctx, c)
    elif fam == "boundary":
        for d in boundary_descs(ctx.seed):
            run_outlier_batch(ctx, d)
    elif fam == "singleton":
        from mc import ccd

        ccd.install_ccd()
        for c in singleton_cases():
            if ctx.journal(json.dumps(c)):
                run_homolog_case(ctx, c)
    else:
        for d in audit_fit_descs(shard, ctx.seed):
            run_fit_batch(ctx, d)


# ===========================================================================
# second dimension audit: result identity, value branches of the parameters, two features in one
# input, derived inputs - see notes/C16.md "Second dimension audit"
# ===========================================================================
def _rich_array(c, stackdepth=0):
    """AtomArray(Stack) with annotations, an extra annotation, bonds and a box."""
    import biotite.structure as struc

    n = len(c[0]) if stackdepth else len(c)

    def one(x):
        a = struc.AtomArray(n)
        a.coord = np.asarray(x, dtype=np.float32)
        a.atom_name[:] = [["CA", "CB", "N", "O", "C", "OG", "P", "X"][i % 8] for i in range(n)]
        a.res_id[:] = np.arange(1, n + 1)
        a.element[:] = "C"
        a.set_annotation("extra", np.arange(n))
        a.bonds = struc.BondList(n, np.array([[i, i + 1, 1] for i in range(n - 1)], dtype=np.int64).reshape((-1, 3)))
        a.box = np.eye(3, dtype=np.float32) * 50
        return a

    if not stackdepth:
        return one(c)
    return struc.stack([one(x) for x in c[:stackdepth]])


def _state(a):
    """value snapshot of an ndarray / AtomArray(Stack) through public attributes."""
    if isinstance(a, np.ndarray):
        return ("nd", a.shape, a.tobytes())
    return ("aa", type(a).__name__, a.coord.tobytes(), tuple(sorted(a.get_annotation_categories())),
            tuple(a.get_annotation(k).tolist().__repr__() for k in sorted(a.get_annotation_categories())),
            None if a.bonds is None else a.bonds.as_array().tobytes(), None if a.box is None else a.box.tobytes())


def _edit_result(r):
    """re-binding / in-place edits a caller may do to a result he believes to be his own."""
    if isinstance(r, np.ndarray):
        r[...] = r + 7.0
        return
    r.coord[...] += 7.0
    r.res_id[0] = 99
    r.set_annotation("mine", np.zeros(r.array_length()))
    r.del_annotation("extra")
    if r.bonds is not None and r.array_length() >= 2:
        r.bonds.remove_bond(0, 1)
        r.bonds.add_bond(0, r.array_length() - 1, 2)
    r.box = None


IDENT_CONT = ["nd64", "nd32", "ndst2", "aa", "aas2"]
IDENT_SCEN = ["same_object", "equal_copy", "identity_apply", "outliers_equal", "translate0", "rotate0"]


def run_identity_case(ctx, case):
    import biotite.structure as struc
    from biotite.structure import AffineTransformation

    cont, scen = case["cont"], case["scen"]
    F = np.array(case["fixed"], dtype=np.float64)
    n = len(F)
    depth = 2 if cont in ("ndst2", "aas2") else 0
    models = [F, F + 1.0]

    def mk():
        if cont == "nd64":
            return F.copy()
        if cont == "nd32":
            return F.astype(np.float32)
        if cont == "ndst2":
            return np.stack(models).astype(np.float32)
        return _rich_array(models if depth else F, depth)

    ctx.ev(1, 1 if n >= 2 else 0)
    ctx.count("accepted")
    ctx.count("ev_audit_identity")
    x = mk()
    other = mk()
    before = _state(x)
    try:
        if scen == "same_object":
            results = [struc.superimpose(x, x)[0]]
        elif scen == "equal_copy":
            results = [struc.superimpose(other, x)[0]]
        elif scen == "identity_apply":
            T = AffineTransformation(np.zeros(3), np.eye(3), np.zeros(3)) if not depth else AffineTransformation(
                np.zeros((2, 3)), np.stack([np.eye(3)] * 2), np.zeros((2, 3)))
            results = [T.apply(x)]
        elif scen == "outliers_equal":
            r = struc.superimpose_without_outliers(other, x, min_anchors=1)
            results = [r[0]]
        elif scen == "translate0":
            results = [struc.translate(x, [0.0, 0.0, 0.0])]
        else:
            results = [struc.rotate(x, [0.0, 0.0, 0.0]), struc.rotate_centered(x, [0.0, 0.0, 0.0])]
    except Exception as e:  # noqa: BLE001
        ctx.violation("identity|raises_%s|%s/%s" % (type(e).__name__, scen, cont), "legal call raised: %s" % e, case,
                      observed=repr(e)[:300])
        return
    for r in results:
        if r is x or r is other:
            ctx.violation("identity|returns_operand|%s/%s" % (scen, cont),
                          "an operation documented to return a copy returned its argument itself", case)
            continue
        if type(r) is not type(x):
            ctx.violation("identity|wrong_type|%s/%s" % (scen, cont), "result type differs from the argument's", case,
                          expected=type(x).__name__, observed=type(r).__name__)
            continue
        # the value: nothing had to be done
        cr, cx = coords_of(r), coords_of(x)
        if cr.shape != cx.shape or np.max(np.abs(cr - cx)) > 1e-5 * (1 + np.max(np.abs(cx))):
            ctx.violation("identity|moved|%s/%s" % (scen, cont), "superimposing / transforming by the identity moved "
                          "the coordinates", case, expected=cx, observed=cr)
        _edit_result(r)
        if _state(x) != before:
            ctx.violation("identity|operand_follows_result|%s/%s" % (scen, cont),
                          "editing the result changed the argument (shared annotation dict / bonds / buffer)", case)
            x = mk()
            before = _state(x)
    ctx.outcome(("ident", scen, cont, n))


def identity_cases():
    for F in audit_sets():
        for cont in IDENT_CONT:
            for scen in IDENT_SCEN:
                yield {"kind": "audit", "fam": "identity", "fixed": F, "cont": cont, "scen": scen}


# --- value branches of the parameters: dimensionality, matrix / gap / terminal parameters ------
def run_ndim_case(ctx, case):
    import biotite.structure as struc

    F = np.array(BIG_SETS["helix6"], dtype=np.float64)
    bad = {"1d": F[0], "0d": np.float64(1.0), "4d": np.stack([F, F])[None]}[case["ndim"]]
    good = F if case["ndim"] != "4d" else np.stack([F, F])
    ctx.ev(3)
    ctx.count("refused", 3)
    T = struc.superimpose(F, F + 1.0)[1]
    for name, fn in (("fixed", lambda: struc.superimpose(bad, good)), ("mobile", lambda: struc.superimpose(good, bad)),
                     ("apply", lambda: T.apply(bad))):
        try:
            r = fn()
        except Exception:  # noqa: BLE001
            continue
        ctx.violation("superimpose|no_error|%s_%s" % (name, case["ndim"]),
                      "coordinates that are not (n,3) / (m,n,3) were accepted", case, expected="exception",
                      observed=repr(np.shape(r[0] if isinstance(r, tuple) else r)))


HP_MATRIX = ["none", "BLOSUM62", "BLOSUM50", "object"]
HP_GAP = [-10, [-10, -1], -1]
HP_FIXED = [["ALA", "GLY", "SER"], ["SER", "SER", "ALA", "GLY"], ["GLY", "GLY"]]


def hparam_cases():
    mobs = [list(s) for k in (2, 3) for s in itertools.product(PEP, repeat=k)]
    for f in HP_FIXED:
        for m in mobs:
            for mx in HP_MATRIX:
                for gi in range(len(HP_GAP)):
                    for tp in (False, True):
                        yield {"kind": "homolog", "f": [f], "m": [m], "geo": 1, "ma": 2, "mi": None,
                               "hp": [mx, gi, tp]}
    for f in (["A", "DA", "A"], ["DA", "A"]):
        for m in [list(s) for k in (2, 3) for s in itertools.product(NUC, repeat=k)]:
            for mx in ("none", "NUC", "object"):
                for tp in (False, True):
                    yield {"kind": "homolog", "f": [f], "m": [m], "geo": 2, "ma": 2, "mi": None, "hp": [mx, 0, tp]}


def homolog_extra_kwargs(case):
    """keyword arguments for the 'hp' member of a homolog case."""
    from biotite.sequence.align import SubstitutionMatrix

    mx, gi, tp = case["hp"]
    kw = {"gap_penalty": tuple(HP_GAP[gi]) if isinstance(HP_GAP[gi], list) else HP_GAP[gi], "terminal_penalty": tp}
    if mx == "object":
        kw["substitution_matrix"] = (SubstitutionMatrix.std_protein_matrix() if case["f"][0][0] in PEP
                                     else SubstitutionMatrix.std_nucleotide_matrix())
    elif mx != "none":
        kw["substitution_matrix"] = mx
    return kw


# --- two features in one input ----------------------------------------------------------------
BIG_T = [64.0, -32.0, 16.0]


def combo_descs(seed):
    _, mags = pal(seed)
    sets = lattice_sets(3) + [[list(map(float, p)) for p in BIG_SETS[k]] for k in ("helix6", "generic7", "plane6")]
    for F in sets:
        n = len(F)
        for mask in all_masks(n):
            if all(mask) and n > 3:
                continue
            # mirror image + large offset + partial mask (+ rank deficiency for the planar sets) + noise
            yield {"kind": "fit", "trans": [[0.0, 0.0, 0.0], BIG_T], "fixed": F, "mode": "stack", "rots": [],
                   "motions": [[24 + g, 1] for g in (0, 5, 11, 16, 23)], "mags": [mags[1]], "mask": mask}
    for F in sets[-3:] + lattice_sets(3)[:20]:
        n = len(F)
        for k in range(n):
            for ax in range(3):
                mask = [i != k for i in range(n)]
                # missing (NaN) coordinate in an atom the mask excludes
                yield {"kind": "fit", "trans": [[0.0, 0.0, 0.0], [-3.0, 7.0, 1.0]], "fixed": F, "mode": "stack",
                       "rots": [], "motions": [[3, 1], [24 + 7, 1]], "mags": [mags[1]], "mask": mask,
                       "nan": [k, ax], "noise_atoms": [i for i in range(n) if i != k][:2]}


# --- derived inputs -----------------------------------------------------------------------------
DERIVED = ["fitted_nd", "fitted_aa", "applied", "translated", "rotated", "rot_centered", "aa_strided", "aa_masked",
           "aa_unsorted", "stack_model", "stack_reordered", "stack_atomslice", "coord_view"]
DERIVED_OPS = ["superimpose", "outliers", "apply_rmsd"]


def derive(kind, F):
    """(object handed out by biotite, float64 model of its coordinates or None = take the object's own)."""
    import biotite.structure as struc

    n = len(F)
    mob = F.copy()
    mob[0, 1] += 1.0
    mob = mob @ sp.ROT24_F[8].T + np.array([5.0, -2.0, -6.0])
    v = np.array([1.5, -2.0, 0.25])
    ang = [0.3, -1.1, 2.0]
    Rm = sp.axis_rotation(2, ang[2]) @ sp.axis_rotation(1, ang[1]) @ sp.axis_rotation(0, ang[0])
    big = np.concatenate([mob, mob[::-1] + 3.0])
    if kind == "fitted_nd":
        return struc.superimpose(F + 0.5, mob)[0], None
    if kind == "fitted_aa":
        return struc.superimpose(_rich_array(F + 0.5), _rich_array(mob))[0], None
    if kind == "applied":
        return struc.superimpose(F + 0.5, mob)[1].apply(_rich_array(mob)), None
    if kind == "translated":
        return struc.translate(_rich_array(mob), v), mob + v
    if kind == "rotated":
        return struc.rotate(mob.astype(np.float32), ang), mob @ Rm.T
    if kind == "rot_centered":
        c = mob.mean(axis=0)
        return struc.rotate_centered(_rich_array(mob), ang), (mob - c) @ Rm.T + c
    if kind == "aa_strided":
        return _rich_array(big)[::2][: n], big[::2][:n]
    if kind == "aa_masked":
        m = np.array([True] * n + [False] * n)
        return _rich_array(big)[m], mob
    if kind == "aa_unsorted":
        idx = np.array(list(range(n))[::-1])
        return _rich_array(big)[idx], big[idx]
    st = _rich_array([mob + 2.0, mob, mob - 1.0], 3)
    if kind == "stack_model":
        return st[1], mob
    if kind == "stack_reordered":
        return st[[2, 1]], np.stack([mob - 1.0, mob])
    if kind == "stack_atomslice":
        st2 = _rich_array([big + 2.0, big], 2)
        return st2[:, :n], np.stack([mob + 2.0, mob])
    if kind == "coord_view":
        return struc.coord(_rich_array(big))[:n], mob
    raise ValueError(kind)


def run_derived_case(ctx, case):
    import biotite.structure as struc

    kind, op = case["derived"], case["op"]
    F = np.array(case["fixed"], dtype=np.float64)
    n = len(F)
    cls = "derived/%s/%s" % (kind, op)
    ctx.ev(1, 1 if n >= 2 else 0)
    ctx.count("accepted")
    ctx.count("ev_audit_derived")
    try:
        obj, model = derive(kind, F)
        got = coords_of(obj)
        if model is not None:
            if got.shape != model.shape or np.max(np.abs(got - model)) > 1e-5 * (1 + np.max(np.abs(model))):
                ctx.violation("transform|wrong_coordinates|" + kind, "derived coordinates differ from the textbook "
                              "value (translate: x+v; rotate: Rz Ry Rx x; indexing: numpy semantics)", case,
                              expected=model, observed=got)
                return
        M = got.reshape((-1, n, 3))            # what biotite was really given (float32 values, exactly)
        keep = _state(obj)
        fixed_obj = F.copy() if isinstance(obj, np.ndarray) else _rich_array(F)
        if op == "superimpose":
            fitted, tr = struc.superimpose(fixed_obj, obj)
            anchors = None
        elif op == "outliers":
            fitted, tr, anchors = struc.superimpose_without_outliers(fixed_obj, obj, min_anchors=1)
        else:
            tr = struc.superimpose(fixed_obj, obj)[1]
            fitted = tr.apply(obj)
            rm = np.atleast_1d(np.asarray(struc.rmsd(fixed_obj, fitted), dtype=np.float64))
            anchors = None
        if _state(obj) != keep:
            ctx.violation("superimpose|input_mutated|" + cls, "a derived input was modified", case)
        if type(fitted) is not type(obj) or coords_of(fitted).shape != got.shape:
            ctx.violation("superimpose|shape|" + cls, "fitted has another type / shape than the derived mobile", case)
            return
        fit = coords_of(fitted).reshape((-1, n, 3))
        m = fit.shape[0]
        R, ct, tt, mat = extract(tr, m)
        w = None
        if anchors is not None:
            w = np.zeros(n, dtype=bool)
            w[np.asarray(anchors)] = True
        judge(ctx, "superimpose" if anchors is None else "superimpose_without_outliers", cls, case, F, M, w, fit, R,
              ct, tt, mat, selfcheck=False)
        if op == "apply_rmsd":
            want = sp.rmsd(F, fit)
            if rm.shape != want.shape or np.any(np.abs(rm - want) > 1e-5 * (1 + np.max(np.abs(fit)))):
                ctx.violation("rmsd|wrong_value|" + cls, "rmsd() differs from the float64 definition", case,
                              expected=want, observed=rm)
    except Exception as e:  # noqa: BLE001
        ctx.violation("superimpose|raises_%s|%s" % (type(e).__name__, cls), "derived input raised: %s" % e, case,
                      observed=repr(e)[:300])
        return
    ctx.outcome(("derived", kind, op, n))


def derived_cases():
    for F in audit_sets():
        for kind in DERIVED:
            for op in DERIVED_OPS:
                yield {"kind": "audit", "fam": "derived", "fixed": F, "derived": kind, "op": op}


AUDIT2_SHARDS = [{"kind": "audit", "fam": f} for f in ("identity", "bparam", "combo", "derived")]


def run_audit2_shard(shard, ctx):
    fam = shard["fam"]
    if fam == "identity":
        for c in identity_cases():
            if ctx.journal(json.dumps(c)):
                run_identity_case(ctx, c)
    elif fam == "bparam":
        from mc import ccd

        ccd.install_ccd()
        for nd in ("0d", "1d", "4d"):
            run_ndim_case(ctx, {"kind": "audit", "fam": "ndim", "ndim": nd})
        for c in hparam_cases():
            if ctx.journal(json.dumps(c)):
                run_homolog_case(ctx, c)
    elif fam == "combo":
        for d in combo_descs(ctx.seed):
            run_fit_batch(ctx, d)
    elif fam == "derived":
        for c in derived_cases():
            if ctx.journal(json.dumps(c)):
                run_derived_case(ctx, c)


# ===========================================================================
# third dimension audit: operands of different size, ambient numpy/cwd state, a box stored in the
# object, ties of the outlier / anchor selection - see notes/C16.md "Third dimension audit"
# ===========================================================================
BLOSUM62_AGS = {("ALA", "ALA"): 4, ("GLY", "GLY"): 6, ("SER", "SER"): 4, ("ALA", "SER"): 1, ("ALA", "GLY"): 0,
                ("GLY", "SER"): 0}   # the six entries of the published matrix the synthetic residues can reach


def run_sizes_case(ctx, case):
    """Second operand larger / smaller than the first, or referring to atoms the first lacks.  No model value
    exists (the docstring requires atom-wise correspondence), so: exception or any value, but the arguments
    stay untouched, and equal sizes next to it must still work."""
    import biotite.structure as struc

    F = np.array(case["fixed"], dtype=np.float64)
    n = len(F)
    nf, nm = case["nf"], case["nm"]
    big = np.concatenate([F, F[::-1] + 4.0, F + 9.0])
    # float32, so that biotite works on these very buffers (coord() does not copy float32 arrays)
    fx, mb = big[:nf].astype(np.float32), (big[:nm] @ sp.ROT24_F[8].T + 2.0).astype(np.float32)
    what = case["what"]
    if what in ("mask_len", "index"):
        mb = fx + np.float32(1.0)
    ctx.ev(1, 1)
    ctx.count("ev_audit_sizes")
    keep = (fx.copy(), mb.copy())
    try:
        if what == "coords":
            struc.superimpose(fx, mb)
        elif what == "outliers":
            struc.superimpose_without_outliers(fx, mb, min_anchors=1)
        elif what == "rmsd":
            struc.rmsd(fx, mb)
        elif what == "mask_len":     # mask for nm atoms on structures of nf atoms
            struc.superimpose(fx, mb, atom_mask=np.ones(nm, dtype=bool))
        else:                         # index mask pointing at atom nm-1
            struc.superimpose(fx, mb, atom_mask=np.array([0, nm - 1]))
        ctx.count("unspecified" if nf != nm else "accepted")
        ctx.outcome(("sizes", what, nf, nm, "returned"))
    except Exception as e:  # noqa: BLE001
        ctx.outcome(("sizes", what, nf, nm, type(e).__name__))
        if nf == nm or (what == "index" and nm <= nf):
            ctx.violation("sizes|raises_%s|%s/equal" % (type(e).__name__, what), "operands of equal size raised: %s" % e,
                          case, observed=repr(e)[:300])
        else:
            ctx.count("refused")
    if not (np.array_equal(fx, keep[0]) and np.array_equal(mb, keep[1])):
        ctx.violation("sizes|input_mutated|%s/%s" % (what, "equal" if nf == nm else "unequal"),
                      "a call with operands of %s size modified its arguments" % ("equal" if nf == nm else "different"),
                      case)


def sizes_cases():
    for F in audit_sets():
        n = len(F)
        for what in ("coords", "outliers", "rmsd", "mask_len", "index"):
            for nf in sorted({1, n, n + 2}):
                for nm in sorted({1, n - 1, n, n + 1, 2 * n, 3 * n} - {0}):
                    yield {"kind": "audit", "fam": "sizes", "fixed": F, "what": what, "nf": nf, "nm": nm}


# --- ambient state as an event: numpy error state, print options, working directory ---------------
AMBIENT = ["err_raise", "err_ignore", "printopts", "cwd"]


def run_ambient_case(ctx, case):
    import os
    import tempfile

    import biotite.structure as struc

    F = np.array(case["fixed"], dtype=np.float64)
    n = len(F)
    d = {"fixed": case["fixed"], "trans": TRANS_PALETTES[0], "mags": [0.25, 1.0], "var": case["var"]}
    _, mmods = shape_models(d)
    mob = np.stack(mmods[:2]).astype(np.float32)
    ctx.ev(1, 1 if n >= 2 else 0)
    ctx.count("accepted")
    ctx.count("ev_audit_ambient")

    def ops():
        f, t = struc.superimpose(F, mob)
        o = struc.superimpose_without_outliers(F, mob, min_anchors=1)
        r = struc.rmsd(F, f)
        return [np.array(f), np.array(t.rotation), np.array(t.as_matrix()), np.array(t.apply(PROBE[None].repeat(2, 0))),
                np.array(o[0]), np.array(o[2]), np.array(r)]

    base = ops()
    ev = case["event"]
    cwd, popts = os.getcwd(), np.get_printoptions()
    try:
        if ev == "err_raise":
            with np.errstate(all="raise"):
                got = ops()
        elif ev == "err_ignore":
            with np.errstate(all="ignore"):
                got = ops()
        elif ev == "printopts":
            np.set_printoptions(precision=1, suppress=True, threshold=3)
            got = ops()
        else:
            with tempfile.TemporaryDirectory(dir=str(loader_build())) as td:
                os.chdir(td)
                got = ops()
                os.chdir(cwd)
    except Exception as e:  # noqa: BLE001
        ctx.violation("ambient|raises_%s|%s" % (type(e).__name__, ev),
                      "a legal call raised only because of the ambient %s state: %s" % (ev, e), case,
                      observed=repr(e)[:300])
        return
    finally:
        os.chdir(cwd)
        np.set_printoptions(**popts)
    if not all(x.shape == y.shape and np.array_equal(x, y) for x, y in zip(base, got)):
        ctx.violation("ambient|result_depends_on|" + ev, "results differ from those under the default ambient state",
                      case)
    again = ops()
    if not all(np.array_equal(x, y) for x, y in zip(base, again)):
        ctx.violation("ambient|state_left_behind|" + ev, "results after the event was undone differ", case)
    ctx.outcome(("ambient", ev, n, case["var"]))


def loader_build():
    from mc import loader

    return loader.BUILD


def ambient_cases():
    for F in audit_sets():
        for var in ("exact", "noisy"):
            for ev in AMBIENT:
                yield {"kind": "audit", "fam": "ambient", "fixed": F, "var": var, "event": ev}


# --- a box stored in the object: no function of this property takes or documents periodicity --------
def run_boxed_case(ctx, case):
    import biotite.structure as struc

    F = np.array(case["fixed"], dtype=np.float64)
    n = len(F)
    d = {"fixed": case["fixed"], "trans": TRANS_PALETTES[0], "mags": [0.25, 1.0], "var": "noisy"}
    _, mmods = shape_models(d)
    depth = case["depth"]
    ctx.ev(1, 1 if n >= 2 else 0)
    ctx.count("accepted")
    ctx.count("ev_audit_boxed")

    def mk(models, box):
        a = _rich_array(models if depth else models[0], depth)
        if box is None:
            a.box = None
        elif depth:
            a.box = np.stack([np.eye(3, dtype=np.float32) * box] * depth)
        else:
            a.box = np.eye(3, dtype=np.float32) * box
        return a

    res = []
    try:
        for fbox, mbox in ((None, None), (1.5, 1.5), (1.5, 40.0), (None, 0.75)):
            fx = mk([F, F], fbox) if depth == 0 else mk([F, F + 0.0], fbox)[0]
            mb = mk(mmods, mbox)
            f, t = struc.superimpose(fx, mb)
            o = struc.superimpose_without_outliers(fx, mb, min_anchors=1)
            r = struc.rmsd(fx, f)
            res.append([f.coord.copy(), np.array(t.as_matrix()), o[0].coord.copy(), np.array(o[2]), np.array(r)])
            fb = None if mbox is None else mb.box
            if (f.box is None) != (fb is None) or (fb is not None and not np.array_equal(f.box, fb)):
                ctx.violation("boxed|box_not_copied|depth%d" % depth, "fitted does not carry the mobile's box", case)
    except Exception as e:  # noqa: BLE001
        ctx.violation("boxed|raises_%s|depth%d" % (type(e).__name__, depth), "structures with a box raised: %s" % e,
                      case, observed=repr(e)[:300])
        return
    for k in range(1, len(res)):
        if not all(np.array_equal(x, y) for x, y in zip(res[0], res[k])):
            ctx.violation("boxed|result_depends_on_box|depth%d" % depth,
                          "superimpose / superimpose_without_outliers / rmsd give another result when the structures "
                          "carry a (small) box; none of them documents periodicity", case)
            break
    ctx.outcome(("boxed", depth, n))


def boxed_cases():
    for F in audit_sets() + [[list(map(float, p)) for p in BIG_SETS["cube8"]]]:
        for depth in (0, 2):
            yield {"kind": "audit", "fam": "boxed", "fixed": F, "depth": depth}


# --- ties of the outlier criterion: the threshold is exactly one of the squared distances --------------
def tie_descs():
    sets = {k: [list(map(float, p)) for p in BIG_SETS[k]] for k in ("line5", "plane6", "helix6", "mirror6", "generic7")}
    qs = {5: [0.0, 0.25, 0.5, 0.75, 1.0], 6: [0.0, 0.2, 0.4, 0.6, 0.8, 1.0], 7: [0.0, 0.5, 1.0]}
    for name, F in sets.items():
        n = len(F)
        prm = []
        for q in qs[n]:
            for mi in (2, 10):
                for ma in (1, 3):
                    prm.append([ma, mi, ["tie", q]])
        yield {"kind": "outlier", "fixed": F, "trans": [[0.0, 0.0, 0.0], [-3.0, 7.0, 1.0]], "mags": [1.0, 3.0],
               "base_noise": [n - 1, 1, 0.375], "rots": [], "motions": [[8, 1]], "params": prm, "stack": False}


AUDIT3_SHARDS = [{"kind": "audit", "fam": f} for f in ("sizes", "ambient", "boxed", "ties", "zeroscore")]


def zeroscore_cases():
    seqs = [list(s) for k in (2, 3) for s in itertools.product(("ALA", "GLY", "SER"), repeat=k)]
    seqs += [list(s) for s in itertools.product(("ALA", "GLY"), repeat=4)]
    for f in seqs:
        for m in seqs:
            if len(f) != len(m):
                continue
            sc = [BLOSUM62_AGS[tuple(sorted((a, b)))] for a, b in zip(f, m)]
            if 0 not in sc:
                continue
            for ma in (1, 2, 3):
                yield {"kind": "homolog", "f": [f], "m": [m], "geo": 0, "ma": ma, "mi": 1}
                yield {"kind": "homolog", "f": [f], "m": [m], "geo": 0, "ma": ma, "mi": 1, "mhetero": True}


def run_audit3_shard(shard, ctx):
    fam = shard["fam"]
    if fam == "sizes":
        for c in sizes_cases():
            if ctx.journal(json.dumps(c)):
                run_sizes_case(ctx, c)
    elif fam == "ambient":
        for c in ambient_cases():
            if ctx.journal(json.dumps(c)):
                run_ambient_case(ctx, c)
    elif fam == "boxed":
        for c in boxed_cases():
            if ctx.journal(json.dumps(c)):
                run_boxed_case(ctx, c)
    elif fam == "ties":
        for d in tie_descs():
            run_outlier_batch(ctx, d)
    elif fam == "zeroscore":
        from mc import ccd

        ccd.install_ccd()
        for c in zeroscore_cases():
            if ctx.journal(json.dumps(c)):
                run_homolog_case(ctx, c)
        # more chains in mobile than in fixed (the reverse direction of the existing chain-count case)
        for c in ({"kind": "homolog", "f": [["ALA", "GLY", "SER", "ALA"]], "m": [["ALA", "GLY"], ["SER", "ALA"]],
                   "geo": 1, "ma": 2, "mi": None},):
            run_homolog_case(ctx, c)



# ===========================================================================
# magnitude ladder of the rigid motion (round-5 seed): near-identity rotations / translations,
# also for structures far from the origin - see notes/C16.md "Round-5 seed"
# ===========================================================================
LADDER_K = list(range(21))
LADDER_AXES = {"x": (1, 0, 0), "y": (0, 1, 0), "z": (0, 0, 1), "skew": (1, 2, 3)}
LADDER_OFFSETS = {"origin": (0.0, 0.0, 0.0), "far": (300.0, -200.0, 100.0)}
LADDER_TRANS = ["zero", "ladder", "big"]


def ladder_sets():
    return {
        "pair2": [[0.0, 0.0, 0.0], [1.0, 2.0, 2.0]],
        "tetra4": [[0.0, 0.0, 0.0], [2.0, 0.0, 1.0], [0.0, 2.0, 1.0], [1.0, 1.0, 2.0]],
        "helix6": [list(map(float, p)) for p in BIG_SETS["helix6"]],
        "generic7x4": [[4.0 * c for c in p] for p in BIG_SETS["generic7"]],
    }


def ladder_items():
    return [(ax, k, tr) for ax in LADDER_AXES for k in LADDER_K for tr in LADDER_TRANS]


def ladder_build(setname, offset, items):
    """fixed (n,3) and mobile (m,n,3) as float32-representable float64 arrays: the mobile coordinates are rounded
    to float32 first, and the reference judges exactly those numbers (so the optimum is the rounding residue, not 0)."""
    F = np.array(ladder_sets()[setname], dtype=np.float64) + np.array(LADDER_OFFSETS[offset])
    F = F.astype(np.float32).astype(np.float64)
    mob = np.empty((len(items),) + F.shape)
    for i, (ax, k, tr) in enumerate(items):
        ang = np.deg2rad(90.0) * 2.0 ** (-k)
        R = sp.axis_angle_rotation(LADDER_AXES[ax], ang)
        t = {"zero": np.zeros(3), "ladder": 2.0 ** (-k) * np.array([1.0, -1.0, 0.5]),
             "big": np.array([40.0, -25.0, 10.0])}[tr]
        mob[i] = F @ R.T + t
    return F, mob.astype(np.float32).astype(np.float64)


def run_ladder_case(ctx, case, focus=None):
    import biotite.structure as struc

    setname, offset, mode = case["set"], case["offset"], case["mode"]
    items = ladder_items()
    if mode == "stack_tiny":
        items = [it for it in items if it[1] >= case["kmin"]]
    F, mob = ladder_build(setname, offset, items)
    m, n = mob.shape[0], F.shape[0]
    cls = "ladder/%s/%s/%s" % (mode, offset, sp.rank_class(ladder_sets()[setname]))
    ctx.ev(m, m)
    ctx.count("accepted", m)
    ctx.count("ev_audit_ladder_" + mode, m)
    probe_in = np.broadcast_to(PROBE + np.array(LADDER_OFFSETS[offset]), (m, 5, 3)).astype(np.float32).astype(np.float64)
    w = None
    site = "superimpose"
    try:
        if mode in ("stack_all", "stack_tiny"):
            fitted, tr = struc.superimpose(F.astype(np.float32), mob.astype(np.float32))
            R, ct, tt, mat = extract(tr, m)
            probe_out = np.asarray(tr.apply(probe_in.astype(np.float32)), dtype=np.float64)
            fitted = np.asarray(fitted, dtype=np.float64)
        else:
            fitted = np.empty_like(mob)
            R, ct, tt, mat = np.empty((m, 3, 3)), np.empty((m, 3)), np.empty((m, 3)), np.empty((m, 4, 4))
            probe_out = np.empty((m, 5, 3))
            if mode == "outliers":
                w = np.zeros((m, n), dtype=bool)
                site = "superimpose_without_outliers"
            for i in range(m):
                if mode == "single":
                    f, tr = struc.superimpose(F.astype(np.float32), mob[i].astype(np.float32))
                else:
                    f, tr, anc = struc.superimpose_without_outliers(F.astype(np.float32), mob[i].astype(np.float32),
                                                                    min_anchors=1)
                    w[i, np.asarray(anc)] = True
                fitted[i] = f
                R[i], ct[i], tt[i], mat[i] = [x[0] for x in extract(tr, 1)]
                probe_out[i] = tr.apply(probe_in[i].astype(np.float32))
    except Exception as e:  # noqa: BLE001
        ctx.violation("%s|raises_%s|%s" % (site, type(e).__name__, cls), "legal input raised: %s" % e, case,
                      observed=repr(e)[:300])
        return

    class _Named:
        """add the motion (axis, k, translation kind) of the failing item to the case"""

        def __init__(self, c):
            self.c = c

        def violation(self, sig, what, cs, expected=None, observed=None):
            cs = {**cs, "motion": list(items[cs["focus"]])}
            self.c.violation(sig, what, cs, expected, observed)

        def outcome(self, o):
            self.c.outcome(o)

    judge(_Named(ctx), site, cls, case, F, mob, w, fitted, R, ct, tt, mat, probe_in, probe_out, focus,
          selfcheck=(w is None))
    # "exact rigid copy -> RMSD zero up to float32 rounding": the copy is exact up to the float32 rounding of its
    # coordinates, so the bound is eps32 * max|coordinate| * small factor (40), derived from the magnitudes
    if w is None:
        r = sp.rmsd(F, fitted)
        bound = 40 * 6e-8 * (1.0 + np.max(np.abs(F)) + np.max(np.abs(mob), axis=(1, 2)))
        bad = r > bound
        if focus is not None:
            bad = bad & (np.arange(m) == focus)
        if bad.any():
            i = int(np.argmax(bad))
            ctx.violation("%s|rigid_copy_not_restored|%s" % (site, cls),
                          "RMSD after fitting a rigid copy exceeds the float32 rounding bound", {**case, "focus": i,
                          "motion": list(items[i])}, expected=float(bound[i]), observed=float(r[i]))


def run_ladder_transform(ctx, case):
    """rotate / rotate_centered / rotate_about_axis on the same angle ladder vs the textbook value."""
    import biotite.structure as struc

    setname, offset = case["set"], case["offset"]
    F = (np.array(ladder_sets()[setname]) + np.array(LADDER_OFFSETS[offset])).astype(np.float32)
    F64 = F.astype(np.float64)
    c = F64.mean(axis=0)
    for ax, axis in LADDER_AXES.items():
        for k in LADDER_K:
            ang = np.deg2rad(90.0) * 2.0 ** (-k)
            Rm = sp.axis_angle_rotation(axis, ang)
            jobs = [("rotate_about_axis", lambda: struc.rotate_about_axis(F, axis, ang), F64 @ Rm.T),
                    ("rotate_about_axis_support", lambda: struc.rotate_about_axis(F, axis, ang, support=c),
                     (F64 - c) @ Rm.T + c)]
            if ax != "skew":
                angles = [ang if a == ax else 0.0 for a in "xyz"]
                jobs += [("rotate", lambda: struc.rotate(F, angles), F64 @ Rm.T),
                         ("rotate_centered", lambda: struc.rotate_centered(F, angles), (F64 - c) @ Rm.T + c)]
            for name, fn, want in jobs:
                ctx.ev(1, 1)
                ctx.count("ev_audit_ladder_transform")
                try:
                    got = np.asarray(fn(), dtype=np.float64)
                except Exception as e:  # noqa: BLE001
                    ctx.violation("transform|raises_%s|ladder/%s" % (type(e).__name__, name), "legal call raised: %s" % e,
                                  {**case, "axis": ax, "k": k}, observed=repr(e)[:300])
                    continue
                tol = 1e-5 * (1.0 + np.max(np.abs(F64)))
                if got.shape != want.shape or np.max(np.abs(got - want)) > tol:
                    ctx.violation("transform|wrong_coordinates|ladder/%s/%s" % (name, offset),
                                  "rotated coordinates differ from the textbook value", {**case, "axis": ax, "k": k},
                                  expected=want, observed=got)
    ctx.outcome(("ladder-transform", setname, offset))


LADDER_SHARDS = [{"kind": "audit", "fam": "ladder", "part": p} for p in range(2)]


def ladder_cases(part):
    for si, setname in enumerate(ladder_sets()):
        if si % 2 != part:
            continue
        for offset in LADDER_OFFSETS:
            for mode in ("single", "stack_all", "outliers"):
                yield {"kind": "audit", "fam": "ladder", "set": setname, "offset": offset, "mode": mode}
            for kmin in (9, 12, 16):
                yield {"kind": "audit", "fam": "ladder", "set": setname, "offset": offset, "mode": "stack_tiny",
                       "kmin": kmin}
            yield {"kind": "audit", "fam": "ladder", "set": setname, "offset": offset, "mode": "transform"}


def run_ladder_shard(shard, ctx):
    for c in ladder_cases(shard["part"]):
        if not ctx.journal(json.dumps(c)):
            continue
        if c["mode"] == "transform":
            run_ladder_transform(ctx, c)
        else:
            run_ladder_case(ctx, c)



# ===========================================================================
# partial masks far from the origin (round-6 seed) - see notes/C16.md "Round-6 seed"
# ===========================================================================
FAR_OFFSETS = {"o0": (0.0, 0.0, 0.0), "o300": (300.0, -200.0, 100.0), "o1000": (1000.0, 1000.0, 1000.0),
               "o3000": (3000.0, 0.0, 0.0)}
FAR_SETS = {
    "tetra4": [[0.0, 0.0, 0.0], [2.0, 0.0, 1.0], [0.0, 2.0, 1.0], [1.0, 1.0, 2.0]],
    "helix6": [list(map(float, p)) for p in BIG_SETS["helix6"]],
    # four atoms within 1.5 A (the masked ones) and four far-flung ones
    "cluster8": [[0.0, 0.0, 0.0], [1.0, 0.5, 0.0], [0.25, 1.0, 0.75], [0.75, 0.25, 1.0], [9.0, -4.0, 2.0],
                 [-6.0, 7.0, 3.0], [2.0, 8.0, -9.0], [-5.0, -5.0, 6.0]],
}
FAR_MOTIONS = ["identity", "generic", "tiny", "cube"]
FAR_BOUND_FACTOR = 20     # x eps32 x (1 + max|coordinate|); worst case on the unchanged tree: see notes


def far_masks(setname):
    n = len(FAR_SETS[setname])
    if setname == "cluster8":
        return [[i < 4 for i in range(n)]]
    return [m for m in all_masks(n) if 3 <= sum(m) <= n - 1]


def far_build(setname, offset):
    F = (np.array(FAR_SETS[setname]) + np.array(FAR_OFFSETS[offset])).astype(np.float32).astype(np.float64)
    mots = {"identity": (np.eye(3), np.zeros(3)),
            "generic": (sp.axis_angle_rotation((1, 2, 3), np.deg2rad(40.0)), np.array([40.0, -25.0, 10.0])),
            "tiny": (sp.axis_angle_rotation((0, 0, 1), np.deg2rad(90.0) * 2.0 ** -10), np.zeros(3)),
            "cube": (sp.ROT24_F[8], np.array([5.0, -2.0, -6.0]))}
    c = F.mean(axis=0)
    # rotate about the structure's own centre so that the copy stays at the same distance from the origin
    mob = np.stack([(F - c) @ mots[k][0].T + c + mots[k][1] for k in FAR_MOTIONS])
    return F, mob.astype(np.float32).astype(np.float64)


def run_farmask_case(ctx, case, focus=None):
    import biotite.structure as struc

    setname, offset, cont = case["set"], case["offset"], case["cont"]
    mask = np.array(case["mask"], dtype=bool)
    F, mob = far_build(setname, offset)
    m, n = mob.shape[0], F.shape[0]
    cls = "farmask/%s/%s/%s" % (cont, offset, "cluster" if setname == "cluster8" else "partmask%d" % int(mask.sum()))
    ctx.ev(m, m)
    ctx.count("accepted", m)
    ctx.count("ev_audit_farmask", m)
    try:
        if cont == "stack":
            fitted, tr = struc.superimpose(F.astype(np.float32), mob.astype(np.float32), atom_mask=mask.copy())
            R, ct, tt, mat = extract(tr, m)
            fitted = np.asarray(fitted, dtype=np.float64)
        else:
            fitted = np.empty_like(mob)
            R, ct, tt, mat = np.empty((m, 3, 3)), np.empty((m, 3)), np.empty((m, 3)), np.empty((m, 4, 4))
            for i in range(m):
                if cont == "nd32":
                    f, tr = struc.superimpose(F.astype(np.float32), mob[i].astype(np.float32), atom_mask=mask.copy())
                else:
                    f, tr = struc.superimpose(make_container("aa", [F]), make_container("aa", [mob[i]]),
                                              atom_mask=mask.copy())
                fitted[i] = coords_of(f)
                R[i], ct[i], tt[i], mat[i] = [x[0] for x in extract(tr, 1)]
    except Exception as e:  # noqa: BLE001
        ctx.violation("superimpose|raises_%s|%s" % (type(e).__name__, cls), "legal input raised: %s" % e, case,
                      observed=repr(e)[:300])
        return
    judge(ctx, "superimpose", cls, case, F, mob, mask, fitted, R, ct, tt, mat, focus=focus, selfcheck=False)
    # rigid copy: the masked RMSD must come back to the float64 optimum of the very same float32 numbers, up to a
    # float32 rounding bound derived from the coordinate magnitude
    w = np.broadcast_to(mask.astype(np.float64), (m, n))
    r = sp.rmsd(F, fitted, w)
    opt = np.sqrt(sp.horn_min_msd(F, mob, w))
    bound = FAR_BOUND_FACTOR * 6e-8 * (1.0 + np.max(np.abs(F)) + np.max(np.abs(mob), axis=(1, 2)))
    bad = r > opt + bound
    if focus is not None:
        bad = bad & (np.arange(m) == focus)
    if bad.any():
        i = int(np.argmax(bad))
        ctx.violation("superimpose|masked_rigid_copy_not_restored|" + cls,
                      "masked RMSD after fitting a rigid copy exceeds the optimum by more than the float32 rounding bound",
                      {**case, "focus": i, "motion": FAR_MOTIONS[i]}, expected=[float(opt[i]), float(bound[i])],
                      observed=float(r[i]))
    ctx.outcome(("farmask", cls))
    return float(np.max((r - opt) / bound))


FARMASK_SHARDS = [{"kind": "audit", "fam": "farmask"}]


def farmask_cases():
    for setname in FAR_SETS:
        for mask in far_masks(setname):
            for offset in FAR_OFFSETS:
                for cont in ("nd32", "aa", "stack"):
                    yield {"kind": "audit", "fam": "farmask", "set": setname, "offset": offset, "cont": cont,
                           "mask": mask}
