"""C07 - PDB files round-trip structures and never emit shifted columns.

E2: bounded exhaustive input enumeration.
  * struct : 1-3 atom arrays / stacks; per field a ladder of values on and around the column
             limits; every single deviation at every location, every pair (and, thorough, every
             triple of a reduced ladder), in decimal and hybrid-36 mode.
  * bonds  : every graph on <= 3 (thorough 4) atoms x every assignment of residue kinds
             (hetero / other residue / other chain / insertion code / water), stars with > 4
             partners, component-dictionary residues.
  * codec  : every integer of the hybrid-36 range for widths 1-4 (thorough: 5) against an
             odometer model, refusals, malformed field texts.
  * big    : 100 002 atoms (ids crossing 99999 / 9999).
Oracle = column layout law + read-back law + refusal law, see mc/models/pdbfmt.py.
"""

import io
import itertools
import json
import warnings

import numpy as np

from mc.models import pdbfmt as M

ID = "C07"
LEVEL = "model_checking"
RULE = (
    "struct: a case = (container shape, hybrid36 flag, set of deviations from the plain base structure), each "
    "deviation = (field, location, ladder value); all subsets of size <= k of the ladder with at most one value per "
    "(field, location) are enumerated once; non-trivial = >= 1 deviation and the oracle compared either a written "
    "file (layout + read-back of every model) or an observed refusal. bonds: a case = (residue-kind word, edge set, "
    "id scheme, container, flag); non-trivial = >= 1 edge. codec: one case per integer / field text; non-trivial = "
    "value needs a letter (>= 10^w), is refused, or is a malformed text. reuse: a case = an operation sequence on one "
    "PDBFile object (every ordered pair / triple of the structure palette x getters before the next write yes/no x "
    "object created by set_structure or by read); the state reached by reuse must equal the state reached from scratch "
    "(lines and every getter); all are non-trivial. A failing multi-deviation case is reduced to "
    "its smallest failing sub-case before it is reported, so signatures name minimal causes."
)
ASSUMPTIONS = [
    "coordinates are float32 (AtomArray stores nothing else): 9999.9995 is not representable, the positive "
    "coordinate limit cannot be crossed by rounding",
    "ids above 99999 / 9999 without hybrid36 are the documented wrap-with-warning: layout law only (or refusal)",
    "negative ids in hybrid-36 mode, malformed hybrid-36 texts, an empty element symbol (reader guesses one) and "
    "bonds inside one water residue are unspecified: clean exception or model value both accepted (counted)",
    "atom-name alignment is demanded only where the PDB convention decides it (name begins with the element symbol "
    "or has 4 characters)",
    "box is compared through cell parameters (CRYST1 stores nothing else); one box for all models; angles 30..150 deg "
    "(float32 box vectors cannot resolve 0.01 deg)",
    "altloc, TER, REMARK, assemblies are outside the statement and not generated",
    "bond types do not survive (PDB has none): ANY expected, component-dictionary type for dictionary bonds",
    "reuse: the reference for a reused object is a fresh PDBFile given the same structure (differential oracle); the fresh "
    "object itself is judged by the struct / bonds families",
]
EXHAUSTIVE = True
SHARD_TIMEOUT = {"quick": 600, "thorough": 2400}

EXTRA = ["atom_id", "b_factor", "occupancy", "charge"]
SENTINEL = "REMARK   0 C07 SENTINEL"

PALETTES = [
    {"chain": "A", "res_name": "ALA", "off": 0.0, "btypes": [1, 2, 5]},
    {"chain": "B", "res_name": "GLY", "off": 100.0, "btypes": [0, 3, 6]},
    {"chain": "Z", "res_name": "UNK", "off": -50.0, "btypes": [2, 4, 7]},
    {"chain": "0", "res_name": "DA", "off": 1000.0, "btypes": [5, 6, 1]},
    {"chain": "a", "res_name": "K", "off": -500.0, "btypes": [3, 0, 8]},
]
BASE_ATOMS = [("N", "N"), ("CA", "C"), ("C", "C")]

# ---------------------------------------------------------------------------
# ladders
# ---------------------------------------------------------------------------
COORD_X = ["0", "-0.0004", "0.0005", "0.0625", "1.0005", "-1.0005", "123.456", "-123.456", "999.9995", "9999.998",
           "9999.999", "10000", "99999", "1e10", "-99.9996", "-999.998", "-999.999", "-999.9994", "-999.9995",
           "-999.9996", "-999.99999", "-1000", "-9999.5", "-1e10", "nan", "inf", "-inf"]
COORD_YZ = ["9999.999", "10000", "-999.999", "-999.9996", "-1000", "nan", "-0.0004", "123.456"]
COORD_R = ["9999.999", "-999.999", "-999.9996", "-1000", "nan", "-0.0004"]
B_FULL = ["0", "0.004", "0.005", "0.015", "1", "12.345", "99.995", "999.99", "999.994", "999.995", "999.996", "1000",
          "-0.001", "-9.996", "-99.99", "-99.994", "-99.996", "-100", "nan", "inf", "-inf", "1e10"]
B32_FULL = ["999.99", "999.994", "999.996", "-99.996", "12.345", "nan"]
B_R = ["999.99", "999.996", "-99.996", "nan"]
OCC_FULL = ["0", "0.25", "0.995", "1", "999.99", "999.996", "-99.99", "-99.996", "1000", "-100", "nan", "inf"]
OCC_R = ["999.996", "-99.99"]
CHARGE_FULL = [c for c in range(-10, 11) if c] + [100, -100]
CHARGE_R = [-9, 9, 10]
RES_DEC = [0, -1, -99, -999, -1000, -9999, 2, 999, 9999, 10000, 10001, 19998, 19999, 100000]
RES_H36 = [0, 999, 9999, 10000, 10001, 1223055, 1223056, 2436110, 2436111, 2436112, 10 ** 8, -1, -999, -1000]
RES_DEC_R = [-999, -1000, 9999, 10000]
RES_H36_R = [9999, 10000, 2436111, 2436112, -1]
AID_DEC = [1, 0, 7, 99998, 99999, 100000, 199998, -1, -9998, -9999, -10000, -10001, "rev", "gap", "dup"]
AID_H36 = [1, 0, 99998, 99999, 100000, 100001, 43770015, 43770016, 87440030, 87440031, 87440032, -1, -9999, -10000,
           "rev", "gap"]
AID_DEC_R = [99999, 100000, -9999, -10000]
AID_H36_R = [99999, 100000, 87440031, 87440032]
CHAIN_FULL = ["", "B", "z", "0", "AB", "ABCD"]
CHAIN_R = ["", "AB"]
RESN_FULL = ["", "X", "XY", "UNK", "1AB", "1A", "ABCD", "ABCDE"]
RESN_R = ["", "ABCD"]
NAMES = ["", "C", "CA", "CG1", "CG12", "1", "1H", "1HB", "1HB2", "F", "FE", "FE1", "FE12", "1FE2", "ABCDE", "ABCDEF"]
ELEMS = ["", "C", "H", "FE", "Fe", "XYZ", "ABCD"]
NAME_R = [["CG12", "C"], ["CG1", "C"], ["FE", "FE"], ["CA", "XYZ"], ["1HB", "H"], ["ABCDE", "C"], ["", ""]]
INS_FULL = ["A", "z", "1", "AB", "ABC"]
INS_R = ["A", "AB"]
BOXES = {
    "cubic1": (1, 1, 1, 90, 90, 90),
    "ortho": (10, 20, 30, 90, 90, 90),
    "tric": (10.5, 20.25, 30.125, 60, 70, 80),
    "tric2": (12.345, 23.456, 34.567, 89.99, 90.01, 120),
    "obtuse": (10, 11, 12, 100, 110, 120),
    "sharp": (15, 25, 35, 30, 80, 100),
    "wide": (15, 25, 35, 150, 100, 95),
    "near90": (50, 50, 10, 89.95, 90, 90),
    "rot": (10, 20, 30, 90, 90, 90),
    "rot_tric": (10.5, 20.25, 30.125, 60, 70, 80),        # rotated AND triclinic
    "big_tric": (9999.999, 9999.999, 9999.999, 60, 70, 80),  # full-width lengths AND oblique angles
    "rot_big": (9999.999, 1234.5, 99999.99, 90, 90, 90),    # rotated AND widest lengths that fit
    "big": (9999.999, 9999.999, 9999.999, 90, 90, 90),
    "10k": (10000, 1, 1, 90, 90, 90),
    "99999": (1, 99999.99, 1, 90, 90, 90),
    "100000": (100000, 1, 1, 90, 90, 90),
    "c100000": (1, 1, 100000, 90, 90, 90),
    "1e6": (1, 1e6, 1, 90, 90, 90),
}
BOX_R = ["ortho", "tric", "100000"]

FIELD_ORDER = ["chain_id", "res_name", "name_elem", "ins_code", "res_id", "atom_id", "coord", "b_factor",
               "b_factor32", "occupancy", "charge", "hetero", "box"]


NAME_P = NAME_R + [["C", "C"], ["1HB2", "H"], ["FE1", "FE"], ["CA", "CA"], ["CA", ""], ["F", "Fe"]]


def ladder(shape, h36, reduced, names="full"):
    """All single deviations [field, loc, value] of a shape."""
    _, m, n = shape
    out = []
    for p in range(n):
        for mm in range(m):
            for ax in range(3):
                if reduced:
                    if ax != (p + mm) % 3:
                        continue
                    vals = COORD_R
                else:
                    vals = COORD_X if ax == 0 else COORD_YZ
                out += [["coord", [mm, p, ax], v] for v in vals]
        out += [["b_factor", p, v] for v in (B_R if reduced else B_FULL)]
        if not reduced:
            out += [["b_factor32", p, v] for v in B32_FULL]
        out += [["occupancy", p, v] for v in (OCC_R if reduced else OCC_FULL)]
        out += [["charge", p, v] for v in (CHARGE_R if reduced else CHARGE_FULL)]
        if h36:
            out += [["res_id", p, v] for v in (RES_H36_R if reduced else RES_H36)]
        else:
            out += [["res_id", p, v] for v in (RES_DEC_R if reduced else RES_DEC)]
        out += [["chain_id", p, v] for v in (CHAIN_R if reduced else CHAIN_FULL)]
        out += [["res_name", p, v] for v in (RESN_R if reduced else RESN_FULL)]
        if reduced:
            out += [["name_elem", p, v] for v in NAME_R]
        elif names == "pair":
            out += [["name_elem", p, v] for v in NAME_P]
        else:
            out += [["name_elem", p, [a, e]] for a in NAMES for e in ELEMS]
        out += [["ins_code", p, v] for v in (INS_R if reduced else INS_FULL)]
        out.append(["hetero", p, True])
    if h36:
        out += [["atom_id", None, v] for v in (AID_H36_R if reduced else AID_H36)]
    else:
        out += [["atom_id", None, v] for v in (AID_DEC_R if reduced else AID_DEC)]
    out += [["box", None, v] for v in (BOX_R if reduced else list(BOXES))]
    return out


def group(dev):
    f, loc, _ = dev
    if f == "coord":
        return ("coord",) + tuple(loc)
    if f in ("b_factor", "b_factor32"):
        return ("b", loc)
    return (f, loc)


def atom_of(dev):
    f, loc, _ = dev
    if f == "coord":
        return loc[1]
    return loc


def subsets(devs, k, same_atom_only=False):
    """All k-subsets with pairwise different groups."""
    for combo in itertools.combinations(range(len(devs)), k):
        ds = [devs[i] for i in combo]
        gs = {group(d) for d in ds}
        if len(gs) < k:
            continue
        if same_atom_only:
            atoms = {atom_of(d) for d in ds if atom_of(d) is not None}
            if len(atoms) > 1:
                continue
        yield ds


# ---------------------------------------------------------------------------
# model side: expected structure + classification
# ---------------------------------------------------------------------------
def f32(s):
    return float(np.float32(float(s)))


def atom_ids_of(value, n):
    if value == "rev":
        return list(range(n, 0, -1))
    if value == "gap":
        return [10 * (i + 1) for i in range(n)]
    if value == "dup":
        return [7] * n
    return [value + i for i in range(n)]


def expected(case, pal):
    """The structure the case describes, as plain Python lists."""
    _, m, n = case["shape"]
    e = {
        "m": m, "n": n,
        "chain_id": [pal["chain"]] * n,
        "res_id": [1] * n,
        "ins_code": [""] * n,
        "res_name": [pal["res_name"]] * n,
        "hetero": [False] * n,
        "atom_name": [BASE_ATOMS[p % 3][0] for p in range(n)],
        "element": [BASE_ATOMS[p % 3][1] for p in range(n)],
        "coord": [[[f32(pal["off"] + 1.5 + 10 * mm + 3 * p + 0.125 * ax) for ax in range(3)] for p in range(n)]
                  for mm in range(m)],
        "atom_id": None, "b_factor": None, "occupancy": None, "charge": None, "box": None,
        "b32": False,
    }
    for f, loc, v in case["devs"]:
        if f == "coord":
            e["coord"][loc[0]][loc[1]][loc[2]] = f32(v)
        elif f in ("b_factor", "b_factor32"):
            if e["b_factor"] is None:
                e["b_factor"] = [20.25 + p for p in range(n)]
            e["b_factor"][loc] = f32(v) if f == "b_factor32" else float(v)
            e["b32"] = e["b32"] or f == "b_factor32"
        elif f == "occupancy":
            if e["occupancy"] is None:
                e["occupancy"] = [0.5] * n
            e["occupancy"][loc] = float(v)
        elif f == "charge":
            if e["charge"] is None:
                e["charge"] = [0] * n
            e["charge"][loc] = v
        elif f == "name_elem":
            e["atom_name"][loc], e["element"][loc] = v
        elif f == "atom_id":
            e["atom_id"] = atom_ids_of(v, n)
        elif f == "box":
            vec = M.vectors_from_cell(*BOXES[v])
            if v.startswith("rot"):
                vec = M.rotate_rows(M.rotate_rows(vec, 2, 33.0), 0, 21.0)
            e["box"] = [[f32(x) for x in row] for row in vec]
        else:
            e[f][loc] = v
    if e["b32"]:  # one float32 annotation array: every B-factor of the structure is a float32 value
        e["b_factor"] = [f32(x) for x in e["b_factor"]]
    return e


def cls_real(v, places, width, name):
    """(class, tag) of a real number for a field of `width` columns."""
    if v != v:
        return "R", name + "_nan"
    t = M.fixed(v, places)
    if t is None:
        return "R", name + "_inf"
    sign = "neg" if t.startswith("-") else "pos"
    if len(t) > width:
        if M.int_part_width(v) + places + 1 > width:
            return "R", "%s_exceeds_column_%s" % (name, sign)
        return "R", "%s_rounds_past_column_%s" % (name, sign)
    if len(t) == width:
        return "A", "%s_full_width_%s" % (name, sign)
    if sign == "neg" and float(t) == 0:
        return "A", name + "_negative_zero"
    return "A", name + "_ordinary"


def cls_id(v, h36, width, name):
    if h36:
        if v > M.hy36_max(width):
            return "R", name + "_exceeds_hybrid36"
        if v < 0:
            return ("E", name + "_negative_hybrid36") if len(str(v)) <= width else ("R", name + "_neg_exceeds_column")
        if v >= 10 ** width:
            upper = v < 10 ** width + 26 * 36 ** (width - 1)
            return "A", "%s_hybrid36_%s" % (name, "upper" if upper else "lower")
        return "A", name + ("_full_width" if len(str(v)) == width else "_ordinary")
    if v >= 10 ** width:
        return "W", name + "_wraps"
    if v < 0:
        if len(str(v)) > width:
            return "R", name + "_neg_exceeds_column"
        return "A", name + ("_neg_full_width" if len(str(v)) == width else "_negative")
    return "A", name + ("_full_width" if len(str(v)) == width else ("_zero" if v == 0 else "_ordinary"))


def cls_name(v, limit, name):
    if len(v) > limit:
        return "R", name + "_too_long"
    if not v:
        return "A", name + "_empty"
    return "A", "%s_len%d" % (name, len(v))


def classify_dev(dev, h36, n):
    """List of (class, tag) for one deviation."""
    f, loc, v = dev
    if f == "coord":
        return [cls_real(f32(v), 3, 8, "coord")]
    if f == "b_factor":
        return [cls_real(float(v), 2, 6, "b_factor")]
    if f == "b_factor32":
        return [cls_real(f32(v), 2, 6, "b_factor")]
    if f == "occupancy":
        return [cls_real(float(v), 2, 6, "occupancy")]
    if f == "charge":
        if abs(v) > 9:
            return [("R", "charge_two_digits")]
        return [("A", "charge_pos" if v > 0 else "charge_neg")]
    if f == "res_id":
        return [cls_id(v, h36, 4, "res_id")]
    if f == "atom_id":
        ids = atom_ids_of(v, n)
        cs = [cls_id(i, h36, 5, "atom_id") for i in ids]
        rank = {"R": 0, "W": 1, "E": 2, "A": 3}
        c = min(cs, key=lambda x: rank[x[0]])
        if c[0] == "A" and isinstance(v, str):
            c = ("A", "atom_id_" + v)
        return [c]
    if f == "chain_id":
        return [cls_name(v, 1, "chain_id")]
    if f == "res_name":
        return [cls_name(v, 3, "res_name")]
    if f == "ins_code":
        return [cls_name(v, 1, "ins_code")]
    if f == "name_elem":
        a, e = v
        out = []
        if len(a) > 4:
            out.append(("R", "atom_name_too_long"))
        if len(e) > 2:
            out.append(("R", "element_too_long"))
        if not out:
            tag = "atom_name_len%d%s_element_len%d" % (len(a), "_digit" if a[:1].isdigit() else "", len(e))
            out.append(("A", tag))
        return out
    if f == "hetero":
        return [("A", "hetero")]
    if f == "box":
        a, b, c = BOXES[v][:3]
        for x in (a, b, c):
            t = M.fixed(f32(x), 3)
            if len(t) > 9:
                return [("R", "box_length_exceeds_column")]
        lens = [f32(x) for x in (a, b, c)]
        if max(lens) / min(lens) >= 1000:
            return [("A", "box_anisotropic")]
        if any(0 < abs(x - 90) <= 0.1 for x in BOXES[v][3:]):
            return [("A", "box_near_right_angle")]
        return [("A", "box_" + v)]
    raise ValueError(dev)


def classify(case):
    """(class, tags of the deciding deviations, all tags)."""
    n = case["shape"][2]
    devs = sorted(case["devs"], key=lambda d: (FIELD_ORDER.index(d[0]), json.dumps(d[1]), json.dumps(d[2])))
    per = []
    b32 = any(d[0] == "b_factor32" for d in devs)
    for d in devs:
        if b32 and d[0] == "b_factor":
            d = ["b_factor32", d[1], d[2]]  # stored in the same float32 array
        per += classify_dev(d, case["h36"], n)
    refuse = [t for c, t in per if c == "R"]
    if refuse:
        return "R", refuse[0], [t for _, t in per]
    alltags = sorted({t for _, t in per})
    if any(c in ("E", "W") for c, _ in per):
        return "E", "+".join(alltags), alltags
    return "A", "+".join(alltags) if alltags else "base_" + case["shape"][0], alltags


# ---------------------------------------------------------------------------
# implementation side
# ---------------------------------------------------------------------------
def build(e, stack):
    """biotite AtomArray / AtomArrayStack from the plain description."""
    import biotite.structure as struc

    n, m = e["n"], e["m"]
    arr = struc.AtomArrayStack(m, n) if stack else struc.AtomArray(n)
    arr.chain_id = np.array(e["chain_id"])
    arr.res_id = np.array(e["res_id"], dtype=int)
    arr.ins_code = np.array(e["ins_code"])
    arr.res_name = np.array(e["res_name"])
    arr.hetero = np.array(e["hetero"], dtype=bool)
    arr.atom_name = np.array(e["atom_name"])
    arr.element = np.array(e["element"])
    c = np.array(e["coord"], dtype=np.float32)
    arr.coord = c if stack else c[0]
    if e["atom_id"] is not None:
        arr.set_annotation("atom_id", np.array(e["atom_id"], dtype=int))
    if e["b_factor"] is not None:
        arr.set_annotation("b_factor", np.array(e["b_factor"], dtype=np.float32 if e["b32"] else float))
    if e["occupancy"] is not None:
        arr.set_annotation("occupancy", np.array(e["occupancy"], dtype=float))
    if e["charge"] is not None:
        arr.set_annotation("charge", np.array(e["charge"], dtype=int))
    if e["box"] is not None:
        b = np.array(e["box"], dtype=np.float32)
        arr.box = np.repeat(b[None], m, axis=0) if stack else b
    return arr


IGNORED = ("TER", "END   ", "REMARK", "MASTER")


def check_layout(lines, e, h36, cl):
    """Layout law.  Returns None or (field, message).  `cl`: per-field class info
    {'atom_id': 'A'|'W'|..., 'res_id': [...per atom]}."""
    rows = [ln for ln in lines if not (ln.startswith(IGNORED) and not ln.startswith("ENDMDL"))]
    i = 0
    if e["box"] is not None:
        if not rows or not rows[0].startswith("CRYST1"):
            return "CRYST1", "missing"
        ln = rows[0]
        cell = M.cell_from_vectors(e["box"])
        for k, val in zip(("a", "b", "c", "alpha", "beta", "gamma"), cell):
            a, b = M.CRYST1_COLS[k]
            txt = ln[a:b]
            rx = M._REAL3 if k in "abc" else M._REAL2
            if len(ln) < b or not rx.match(txt):
                return "CRYST1." + k, "field %r" % txt
            tol = (0.0005 + 2 * float(np.spacing(np.float32(val)))) if k in "abc" else 0.006
            if abs(float(txt) - val) > tol:
                return "CRYST1." + k, "%r is not %r" % (txt, val)
        i = 1
    elif rows and rows[0].startswith("CRYST1"):
        return "CRYST1", "written although the structure has no box"
    ids = e["atom_id"] if e["atom_id"] is not None else list(range(1, e["n"] + 1))
    for mm in range(e["m"]):
        framed = e["m"] > 1 or (i < len(rows) and rows[i].startswith("MODEL "))  # optional for a single model
        if framed:
            if i >= len(rows) or not rows[i].startswith("MODEL "):
                return "MODEL", "missing for model %d" % (mm + 1)
            try:
                # serial right-justified in columns 11-14; beyond 4 columns: unspecified
                ok = mm + 1 > 9999 or (int(rows[i][10:14]) == mm + 1 and bool(M._INT.match(rows[i][10:14]))
                                       and not rows[i][14:].strip())
            except ValueError:
                ok = False
            if not ok:
                return "MODEL", "serial %r" % rows[i]
            i += 1
        for p in range(e["n"]):
            if i >= len(rows) or not rows[i].startswith(("ATOM", "HETATM")):
                return "record", "ATOM/HETATM record %d of model %d missing" % (p + 1, mm + 1)
            bad = check_atom_line(rows[i], e, mm, p, ids[p], h36, cl)
            if bad:
                return bad
            i += 1
        if framed:
            if i >= len(rows) or not rows[i].startswith("ENDMDL"):
                return "ENDMDL", "missing"
            i += 1
    rest = rows[i:]
    if any(not ln.startswith("CONECT") for ln in rest):
        return "record", "unexpected trailing record %r" % [ln for ln in rest if not ln.startswith("CONECT")][0]
    return None


def check_atom_line(line, e, mm, p, aid, h36, cl):
    try:
        f = M.split_atom_line(line)
    except M.Layout as x:
        return x.field, str(x)
    if f["record"] != ("HETATM" if e["hetero"][p] else "ATOM  "):
        return "record", "%r for hetero=%r" % (f["record"], e["hetero"][p])
    for key, val, k in (("serial", aid, cl["atom_id"]), ("res_seq", e["res_id"][p], cl["res_id"][p])):
        txt = f[key]
        if k == "W":
            if not M._INT.match(txt):
                return key, "wrapped id is not a decimal number: %r" % txt
            continue
        try:
            got = M.hy36_decode(txt)
        except ValueError:
            return key, "not a number: %r" % txt
        if got != val or (not h36 and not M._INT.match(txt)):
            return key, "%r is not %d" % (txt, val)
    name, el = e["atom_name"][p], e["element"][p]
    if f["name"].strip(" ") != name:
        return "name", "%r is not %r" % (f["name"], name)
    col = M.name_start_column(name, el)
    if name and col is not None and f["name"] != (" " * (col - 12) + name).ljust(4):
        return "name", "%r: %r with element %r must start in column %d" % (f["name"], name, el, col + 1)
    for key, val in (("res_name", e["res_name"][p]), ("chain", e["chain_id"][p]), ("icode", e["ins_code"][p]),
                     ("element", el)):
        if f[key].strip(" ") != val:
            return key, "%r is not %r" % (f[key], val)
    if len(el) == 1 and f["element"] != " " + el:
        return "element", "%r not right-justified" % f["element"]
    for ax, key in enumerate("xyz"):
        v = e["coord"][mm][p][ax]
        if abs(float(f[key]) - v) > 0.0005 * (1 + 1e-9) + 1e-12:
            return key, "%r is not %r to 3 decimals" % (f[key], v)
    for key in ("occupancy", "b_factor"):
        if e[key] is not None and abs(float(f[key]) - e[key][p]) > 0.005 * (1 + 1e-9) + 1e-12:
            return key, "%r is not %r to 2 decimals" % (f[key], e[key][p])
    if e["charge"] is not None:
        c = e["charge"][p]
        want = "  " if c == 0 else "%d%s" % (abs(c), "+" if c > 0 else "-")
        if f["charge"] != want and not (c == 0 and f["charge"] in ("0+", "0-")):
            return "charge", "%r is not %r" % (f["charge"], want)
    return None


def near32(a, b, base):
    return abs(a - b) <= base + 2 * float(np.spacing(np.float32(max(abs(a), abs(b), 1e-3))))


def compare(s, e, mm_list, cl, tag):
    """Read-back law for one returned AtomArray/AtomArrayStack `s` against models mm_list of e."""
    n = e["n"]
    if s.array_length() != n:
        return "atom_count", n, s.array_length(), tag
    for key, ekey in (("chain_id", "chain_id"), ("res_id", "res_id"), ("ins_code", "ins_code"),
                      ("res_name", "res_name"), ("hetero", "hetero"), ("atom_name", "atom_name"),
                      ("element", "element")):
        got = getattr(s, key).tolist()
        want = list(e[ekey])
        if key == "res_id":
            got = [g if c != "W" else w for g, w, c in zip(got, want, cl["res_id"])]
        if key == "element":
            got = [g if w else w for g, w in zip(got, want)]
        if got != want:
            return key, want, got, tag
    ids = e["atom_id"] if e["atom_id"] is not None else list(range(1, n + 1))
    if cl["atom_id"] != "W" and s.atom_id.tolist() != ids:
        return "atom_id", ids, s.atom_id.tolist(), tag
    for key in ("b_factor", "occupancy"):
        if e[key] is not None:
            got = getattr(s, key).tolist()
            if any(not abs(g - w) <= 0.005 + 1e-9 for g, w in zip(got, e[key])):
                return key, e[key], got, tag
    if e["charge"] is not None and s.charge.tolist() != e["charge"]:
        return "charge", e["charge"], s.charge.tolist(), tag
    c = np.asarray(s.coord, dtype=float)
    if c.ndim == 2:
        c = c[None]
    if c.shape != (len(mm_list), n, 3):
        return "coord_shape", [len(mm_list), n, 3], list(c.shape), tag
    for k, mm in enumerate(mm_list):
        for p in range(n):
            for ax in range(3):
                if not near32(float(c[k, p, ax]), e["coord"][mm][p][ax], 0.0005):
                    return "coord", e["coord"][mm][p], c[k, p].tolist(), tag
    if e["box"] is None:
        if s.box is not None:
            return "box", None, np.asarray(s.box).tolist(), tag
    else:
        if s.box is None:
            return "box", e["box"], None, tag
        want = M.cell_from_vectors(e["box"])
        boxes = np.asarray(s.box, dtype=float)
        boxes = boxes[None] if boxes.ndim == 2 else boxes
        if len(boxes) != len(mm_list):
            return "box", len(mm_list), len(boxes), tag
        for b in boxes:
            try:
                got = M.cell_from_vectors(b.tolist())
            except (ZeroDivisionError, ValueError):
                return "box", want, b.tolist(), tag
            for j in range(6):
                ok = near32(got[j], want[j], 0.0005) if j < 3 else abs(got[j] - want[j]) <= 0.006
                if not ok:
                    return "box", list(want), list(got), tag
    return None


def readback(lines, e, cl):
    """Returns None or (mode, expected, observed, what)."""
    from biotite.structure.io.pdb import PDBFile

    m = e["m"]
    try:
        g = PDBFile.read(io.StringIO("\n".join(lines) + "\n"))
        if g.get_model_count() != m:
            return "model_count", m, g.get_model_count(), "get_model_count"
        s = g.get_structure(extra_fields=EXTRA)
        if s.stack_depth() != m:
            return "model_count", m, s.stack_depth(), "get_structure()"
        bad = compare(s, e, list(range(m)), cl, "get_structure()")
        if bad:
            return ("roundtrip_" + bad[0],) + bad[1:]
        ks = list(range(1, m + 1)) if m <= 50 else sorted(k for k in {1, 2, 9, 10, 11, 99, 100, 101, 999, 1000, 1001, m // 2, m - 1, m} if k <= m)
        for k in ks + [-1] + ([-m] if m > 50 else []):
            a = g.get_structure(model=k, extra_fields=EXTRA)
            bad = compare(a, e, [k - 1 if k > 0 else m + k], cl, "get_structure(model=%d)" % k)
            if bad:
                return ("roundtrip_" + bad[0],) + bad[1:]
        c = np.asarray(g.get_coord(), dtype=float)
        if c.shape != (m, e["n"], 3) or any(
                not near32(float(c[mm, p, ax]), e["coord"][mm][p][ax], 0.0005)
                for mm in range(m) for p in range(e["n"]) for ax in range(3)):
            return "roundtrip_coord", e["coord"], c.tolist(), "get_coord()"
    except Exception as x:  # noqa: BLE001
        return "read_error_" + type(x).__name__, "readable file", "%s: %s" % (type(x).__name__, str(x)[:200]), "read"
    return None


def per_field_classes(case, e):
    n = e["n"]
    cl = {"atom_id": "A", "res_id": ["A"] * n}
    for f, loc, v in case["devs"]:
        if f == "atom_id":
            cl["atom_id"] = classify_dev([f, loc, v], case["h36"], n)[0][0]
        elif f == "res_id":
            cl["res_id"][loc] = classify_dev([f, loc, v], case["h36"], n)[0][0]
    return cl


def evaluate(case, pal):
    """Run one struct case.  Returns dict(cls, klass, fail, outcome);
    fail = None | (site, mode, what, expected, observed)."""
    from biotite.structure.io.pdb import PDBFile

    kls, klass, _ = classify(case)
    e = expected(case, pal)
    cl = per_field_classes(case, e)
    arr = build(e, case["shape"][0] == "stack")
    f = PDBFile()
    f.lines = [SENTINEL]
    res = {"cls": kls, "klass": klass, "fail": None}
    try:
        f.set_structure(arr, hybrid36=case["h36"])
        raised = None
    except Exception as x:  # noqa: BLE001
        raised = x
    if raised is not None:
        res["outcome"] = ("raised", type(raised).__name__)
        if kls == "A":
            res["fail"] = ("PDBFile.set_structure", "unexpected_" + type(raised).__name__,
                           "a structure within the format limits was refused", "file written",
                           "%s: %s" % (type(raised).__name__, str(raised)[:200]))
        elif list(f.lines) != [SENTINEL]:
            res["fail"] = ("PDBFile.set_structure", "state_changed_on_refusal",
                           "refused structure changed the file content", [SENTINEL], list(f.lines)[:4])
        return res
    lines = [str(x) for x in f.lines]
    res["outcome"] = ("written", tuple(lines))
    bad = check_layout(lines, e, case["h36"], cl)
    if kls == "R":
        res["fail"] = ("PDBFile.set_structure", "column_shift" if bad else "not_refused",
                       "input exceeding a column was written" + (" with broken layout (%s: %s)" % bad if bad else ""),
                       "an exception", lines[:6])
        return res
    if bad:
        res["fail"] = ("PDBFile.set_structure", "column_shift", "layout law broken at %s: %s" % bad,
                       "fields in the standard columns", lines[:6])
        return res
    rb = readback(lines, e, cl)
    if rb:
        res["fail"] = ("PDBFile.get_structure", rb[0], "read-back differs (%s)" % rb[3], rb[1], rb[2])
    return res


def case_key(case):
    return json.dumps([case["shape"], case["h36"], case["devs"]], sort_keys=True)


def minimise(case, pal, memo):
    """Smallest failing sub-case (fewest deviations, decimal mode preferred)."""
    devs = case["devs"]
    for size in range(0, len(devs) + 1):
        for sub in itertools.combinations(devs, size):
            for h in ([False, True] if case["h36"] else [False]):
                if size == len(devs) and h == case["h36"]:
                    continue
                if not h and any(d[0] in ("res_id", "atom_id") for d in sub) and case["h36"]:
                    # ids were drawn from the hybrid ladder; their class differs in decimal mode
                    continue
                c = {**case, "devs": [list(d) for d in sub], "h36": h}
                k = case_key(c)
                if k not in memo:
                    if len(memo) > 60000:
                        memo.clear()
                    r = evaluate(c, pal)
                    memo[k] = r["fail"] is not None
                if memo[k]:
                    return c
    return case


def report(ctx, case, res, pal, memo):
    if case["devs"] or case["h36"]:
        small = minimise(case, pal, memo)
        if small is not case:
            case = small
            res = evaluate(case, pal)
            if res["fail"] is None:  # cannot happen (deterministic); keep the original
                return
    site, mode, what, exp, obs = res["fail"]
    klass = res["klass"] + ("+hybrid36" if case["h36"] else "")
    ctx.violation("%s|%s|%s" % (site, mode, klass), what, {"kind": "struct", **case, "seed": ctx.seed},
                  expected=exp, observed=obs)


def run_struct_case(ctx, case, pal, memo):
    ctx.ev(1, 1 if case["devs"] else 0)
    res = evaluate(case, pal)
    ctx.count({"A": "accepted", "R": "refused", "E": "unspecified"}[res["cls"]])
    ctx.count("observed_" + res["outcome"][0])
    ctx.outcome(res["outcome"])
    if res["fail"] is not None:
        memo[case_key(case)] = True
        report(ctx, case, res, pal, memo)
    elif len(ctx.samples) < 2 and len(case["devs"]) >= 2 and res["cls"] == "A":
        ctx.sample({"kind": "struct", **case, "written": list(res["outcome"][1])[:3]})


# ---------------------------------------------------------------------------
# shards
# ---------------------------------------------------------------------------
def struct_specs(tier):
    A11, A12, A13 = ["array", 1, 1], ["array", 1, 2], ["array", 1, 3]
    S11, S21, S22, S32 = ["stack", 1, 1], ["stack", 2, 1], ["stack", 2, 2], ["stack", 3, 2]
    specs = []
    for h in (False, True):
        for sh in (A11, A12, A13, S11, S21, S22, S32):
            specs.append({"shape": sh, "h36": h, "mode": "singles", "parts": 1})
        nm = "full" if tier == "thorough" else "pair"
        specs.append({"shape": A11, "h36": h, "mode": "pairs", "parts": 10, "names": nm})
        specs.append({"shape": A12, "h36": h, "mode": "pairs_atom1", "parts": 10, "names": nm})
        specs.append({"shape": S21, "h36": h, "mode": "pairs", "parts": 12, "names": nm})
        for sh in (A12, A13, S11, S22):
            specs.append({"shape": sh, "h36": h, "mode": "rpairs", "parts": 2})
        if tier == "thorough":
            specs.append({"shape": A11, "h36": h, "mode": "rtriples", "parts": 4})
            specs.append({"shape": A12, "h36": h, "mode": "rtriples", "parts": 16})
            specs.append({"shape": A12, "h36": h, "mode": "xpairs", "parts": 32})
            specs.append({"shape": S22, "h36": h, "mode": "xpairs", "parts": 48})
            specs.append({"shape": S32, "h36": h, "mode": "rpairs", "parts": 4})
    return specs


def struct_cases(spec):
    sh, h, mode = spec["shape"], spec["h36"], spec["mode"]
    if mode == "singles":
        yield []
        for d in ladder(sh, h, False):
            yield [d]
    elif mode == "pairs":
        yield from subsets(ladder(sh, h, False, spec.get("names", "full")), 2, same_atom_only=True)
    elif mode == "pairs_atom1":
        devs = [d for d in ladder(sh, h, False, spec.get("names", "full")) if atom_of(d) in (1, None)]
        yield from subsets(devs, 2)
    elif mode == "xpairs":  # pairs on different atoms (same-atom pairs are covered by 'pairs')
        devs = ladder(sh, h, False)
        for ds in subsets(devs, 2):
            a = {atom_of(d) for d in ds}
            if len(a) == 2 and None not in a:
                yield ds
    elif mode == "rpairs":
        yield from subsets(ladder(sh, h, True), 2)
    elif mode == "rtriples":
        yield from subsets(ladder(sh, h, True), 3)
    else:
        raise ValueError(mode)


def bounds(tier):
    return {
        "struct_shapes": "array n=1,2,3; stack (depth,n) = (1,1),(2,1),(2,2),(3,2)",
        "struct_deviations": "singles everywhere; all pairs on (array,1), on atom 2 of (array,2), on (stack 2,1) "
                             + ("" if tier == "thorough" else "(atom name x element restricted to 13 of 105 values inside pairs)") + "; "
                             "reduced-ladder pairs on the other shapes"
                             + ("; reduced triples on array n=1,2; full cross-atom pairs on (array,2),(stack 2,2)"
                                if tier == "thorough" else ""),
        "ladder_sizes": {"coord_x": len(COORD_X), "coord_yz": len(COORD_YZ), "b_factor": len(B_FULL) + len(B32_FULL),
                         "occupancy": len(OCC_FULL), "charge": len(CHARGE_FULL), "res_id": len(RES_DEC),
                         "atom_id": len(AID_DEC), "name_x_element": len(NAMES) * len(ELEMS), "box": len(BOXES)},
        "bond_graphs": "all graphs on 2-3 atoms x 6^n residue kinds" + (", 4 atoms x 4^4 kinds (5 of the 10 id-scheme/container combinations)" if tier == "thorough" else "")
                       + "; stars with 4-9 partners; dictionary residues",
        "hybrid36_widths_complete": [1, 2, 3, 4] + ([5] if tier == "thorough" else []),
        "hybrid36_width5": "complete" if tier == "thorough" else "first and last 3000 values of each of the 53 blocks",
        "big_atoms": 100002,
        "reuse": "operation sequences on ONE PDBFile object: {set_structure(X), read(X)} -> [all getters]? -> "
                 "{set_structure(Y), refused set_structure(Z)}" + (" -> [all getters]? -> {set_structure(W), refused Z}"
                                                                    if tier == "thorough" else "")
                 + " -> all getters; X, Y, W over %d structures, Z over %d invalid ones" % (len(REUSE_ITEMS), len(REUSE_BAD)),
    }


def prepare(tier, seed):
    from mc import ccd

    ccd.ensure_ccd()
    return {"palette": PALETTES[seed % len(PALETTES)]}


def shards(tier, seed):
    out = []
    for spec in struct_specs(tier):
        for part in range(spec["parts"]):
            out.append({"kind": "struct", **spec, "part": part})
    out += bond_shards(tier)
    out += codec_shards(tier)
    out += [{"kind": "big", "h36": True}, {"kind": "big", "h36": False}]
    out += reuse_shards(tier)
    out += audit_shards(tier)
    big = [s for s in out if s["kind"] == "big" or (s["kind"] == "codec" and s.get("w") == 5)]
    rest = [s for s in out if s not in big]
    k = seed % max(1, len(rest))
    return big + rest[k:] + rest[:k]


def run_shard(shard, ctx):
    warnings.simplefilter("ignore")
    from mc import ccd

    ccd.install_ccd()
    k = shard["kind"]
    if k == "struct":
        pal = PALETTES[ctx.seed % len(PALETTES)]
        memo = {}
        for i, devs in enumerate(struct_cases(shard)):
            if i % shard["parts"] != shard["part"]:
                continue
            case = {"shape": shard["shape"], "h36": shard["h36"], "devs": devs}
            run_struct_case(ctx, case, pal, memo)
    elif k == "bonds":
        run_bonds(shard, ctx)
    elif k == "codec":
        run_codec(shard, ctx)
    elif k == "big":
        run_big(shard, ctx)
    elif k == "reuse":
        run_reuse(shard, ctx)
    elif k == "audit":
        for case in audit_cases(shard, ctx.tier):
            run_audit_case(ctx, case, count=True)
    else:
        raise ValueError(shard)


def crash_class(case):
    if isinstance(case, dict):
        return str(case.get("kind", "unclassified")) + ("|" + str(case.get("what")) if case.get("what") else "")
    return "unclassified"


def replay(case, ctx):
    warnings.simplefilter("ignore")
    from mc import ccd

    ccd.install_ccd()
    k = case["kind"]
    if k == "struct":
        pal = PALETTES[case.get("seed", ctx.seed) % len(PALETTES)]
        c = {"shape": case["shape"], "h36": case["h36"], "devs": case["devs"]}
        res = evaluate(c, pal)
        if res["fail"] is not None:
            report(ctx, c, res, pal, {})
    elif k == "bonds":
        run_bond_case(ctx, case)
    elif k == "codec":
        replay_codec(ctx, case)
    elif k == "big":
        run_big(case, ctx)
    elif k == "reuse":
        run_reuse_case(ctx, case)
    elif k == "audit":
        run_audit_case(ctx, case)
    else:
        raise ValueError(case)


# ---------------------------------------------------------------------------
# codec: hybrid-36
# ---------------------------------------------------------------------------
W5_EDGE = 3000
BAD_ALPHA = ["0", "9", "A", "Z", "a", "z", " ", "-"]


def codec_shards(tier):
    out = [{"kind": "codec", "what": "sweep", "w": w, "blocks": [0, 53]} for w in (1, 2, 3)]
    out += [{"kind": "codec", "what": "sweep", "w": 4, "blocks": [b, min(53, b + 4)]} for b in range(0, 53, 4)]
    if tier == "thorough":
        out += [{"kind": "codec", "what": "sweep", "w": 5, "blocks": [b, b + 1]} for b in range(53)]
    else:
        out += [{"kind": "codec", "what": "edges", "w": 5, "blocks": [b, min(53, b + 14)]} for b in range(0, 53, 14)]
    out.append({"kind": "codec", "what": "refuse"})
    out.append({"kind": "codec", "what": "argtypes"})
    out += [{"kind": "codec", "what": "texts", "w": w} for w in (1, 2, 3, 4, 5)]
    return out


def codec_fail(ctx, site, mode, klass, what, case, exp, obs):
    ctx.violation("%s|%s|%s" % (site, mode, klass), what, {"kind": "codec", **case}, expected=exp, observed=obs)


def codec_value(ctx, enc, dec, i, w, s, klass):
    """One integer i whose model text is s (unpadded)."""
    case = {"what": "value", "w": w, "i": i}
    try:
        e = enc(i, w)
    except Exception as x:  # noqa: BLE001
        codec_fail(ctx, "encode_hybrid36", "unexpected_" + type(x).__name__, klass, "value inside the range refused",
                   case, s, repr(x)[:200])
        return
    if e != s and not (isinstance(e, str) and e.rjust(w) == s.rjust(w)):
        codec_fail(ctx, "encode_hybrid36", "wrong_text", klass, "encoding differs from the hybrid-36 sequence", case, s, e)
        return
    for t in {s, s.rjust(w), e}:
        try:
            d = dec(t)
        except Exception as x:  # noqa: BLE001
            codec_fail(ctx, "decode_hybrid36", "unexpected_" + type(x).__name__, klass, "valid text refused",
                       {**case, "text": t}, i, repr(x)[:200])
            return
        if d != i:
            codec_fail(ctx, "decode_hybrid36", "wrong_value", klass, "decode(encode(i)) != i", {**case, "text": t}, i, d)
            return


def run_codec(shard, ctx):
    from biotite.structure.io.pdb.hybrid36 import decode_hybrid36 as dec
    from biotite.structure.io.pdb.hybrid36 import encode_hybrid36 as enc
    from biotite.structure.io.pdb.hybrid36 import max_hybrid36_number as mx

    what = shard["what"]
    if what in ("sweep", "edges"):
        w = shard["w"]
        if not ctx.journal(shard):
            return
        if mx(w) != M.hy36_max(w):
            codec_fail(ctx, "max_hybrid36_number", "wrong_value", "width%d" % w, "maximum differs", {"what": "max", "w": w},
                       M.hy36_max(w), mx(w))
        blocks = M.hy36_blocks(w)[shard["blocks"][0]:shard["blocks"][1]]
        nviol = 0
        for kind, first, start, count in blocks:
            klass = "width%d_%s" % (w, kind)
            n_nontriv = 0
            if what == "edges" and count > 2 * W5_EDGE:
                # block edges: head from the odometer, tail from the positional definition
                # (the two definitions are compared on every value of widths 1-4 by the sweeps)
                head = zip(range(start, start + W5_EDGE), M.hy36_block_strings(w, kind, first))
                tail = ((j, M.hy36_encode(j, w)) for j in range(start + count - W5_EDGE, start + count))
                pairs = itertools.chain(head, tail)
            else:
                pairs = zip(range(start, start + count), M.hy36_block_strings(w, kind, first))
            for i, s in pairs:
                # hot loop: the common, agreeing case is decided with two calls
                try:
                    good = enc(i, w) == s and dec(s) == i
                except Exception:  # noqa: BLE001
                    good = False
                if not good or kind == "dec" and i % 997 == 0:
                    before = ctx.viol_total
                    codec_value(ctx, enc, dec, i, w, s, klass)
                    nviol += ctx.viol_total - before
                    if nviol > 50:
                        break
                n_nontriv += 1
            done = n_nontriv
            ctx.ev(done, done if kind != "dec" else 0)
            ctx.count("accepted", done)
            ctx.outcome(("codec", w, kind, first, nviol))
        if ctx.samples == [] and blocks:
            ctx.sample({"kind": "codec", "w": w, "block": list(blocks[0][:3]), "last_text_checked": s})
    elif what == "refuse":
        for w in (1, 2, 3, 4, 5):
            top = M.hy36_max(w)
            for i in dict.fromkeys([top + 1, top + 2, top + 36, 2 * top, 10 ** 9, 2 ** 31 - 1, 2 ** 31, 2 ** 40]):
                case = {"what": "refuse", "w": w, "i": i}
                ctx.ev(1, 1)
                ctx.count("refused")
                replay_codec(ctx, {"kind": "codec", **case}, (enc, dec))
            for i in dict.fromkeys([-1, -9, -10, 1 - 10 ** (w - 1), -(10 ** (w - 1)), -(10 ** w), -(2 ** 31)]):
                if i >= 0:
                    continue
                case = {"what": "negative", "w": w, "i": i}
                ctx.ev(1, 1)
                ctx.count("unspecified")
                replay_codec(ctx, {"kind": "codec", **case}, (enc, dec))
    elif what == "texts":
        w = shard["w"]
        if not ctx.journal(shard):
            return
        for tup in itertools.product(BAD_ALPHA, repeat=w):
            t = "".join(tup)
            ctx.ev(1, 1)
            replay_codec(ctx, {"kind": "codec", "what": "text", "w": w, "text": t}, (enc, dec), count=True)
    elif what == "argtypes":
        for w in (4, 5):
            for i in (0, 7, 10 ** w - 1, 10 ** w, 10 ** w + 26 * 36 ** (w - 1), M.hy36_max(w)):
                for vt in ARG_INT_TYPES:
                    for wt in ARG_LEN_TYPES:
                        ctx.ev(1, 1)
                        replay_codec(ctx, {"kind": "codec", "what": "argtype", "w": w, "i": i, "vt": vt, "wt": wt},
                                     (enc, dec), count=True)
    else:
        raise ValueError(shard)


ARG_INT_TYPES = ["int", "bool", "int8", "int16", "int32", "int64", "uint8", "uint16", "uint32", "uint64", "0d", "float",
                 "float64", "intsub"]
ARG_LEN_TYPES = ["int", "int64", "uint8", "float"]
ARG_STR_TYPES = ["str", "str_", "strsub", "bytes"]


class _IntSub(int):
    pass


class _StrSub(str):
    pass


def _as_type(v, t):
    if t == "int":
        return int(v)
    if t == "bool":
        return bool(v)
    if t == "0d":
        return np.array(v)
    if t == "float":
        return float(v)
    if t == "intsub":
        return _IntSub(v)
    return getattr(np, t)(v)


def replay_codec(ctx, case, fns=None, count=False):
    if fns is None:
        from biotite.structure.io.pdb.hybrid36 import decode_hybrid36 as dec
        from biotite.structure.io.pdb.hybrid36 import encode_hybrid36 as enc
    else:
        enc, dec = fns
    what = case["what"]
    body = {k: v for k, v in case.items() if k != "kind"}
    if what == "value":
        w, i = case["w"], case["i"]
        s = M.hy36_encode(i, w)
        kind = "dec" if i < 10 ** w else ("upper" if i < 10 ** w + 26 * 36 ** (w - 1) else "lower")
        codec_value(ctx, enc, dec, i, w, s, "width%d_%s" % (w, kind))
    elif what == "max":
        from biotite.structure.io.pdb.hybrid36 import max_hybrid36_number as mx

        if mx(case["w"]) != M.hy36_max(case["w"]):
            codec_fail(ctx, "max_hybrid36_number", "wrong_value", "width%d" % case["w"], "maximum differs", body,
                       M.hy36_max(case["w"]), mx(case["w"]))
    elif what in ("refuse", "negative"):
        w, i = case["w"], case["i"]
        try:
            r = ("returned", enc(i, w))
        except Exception as x:  # noqa: BLE001
            r = ("raised", type(x).__name__)
        ctx.outcome(("codec", what, w, i, r))
        if what == "refuse":
            if r[0] != "raised":
                klass = "above_max" if i < 2 ** 31 else "above_int32"
                codec_fail(ctx, "encode_hybrid36", "not_refused", klass, "number beyond the width's range encoded", body,
                           "an exception", r[1])
        elif r[0] == "returned":
            ok = len(str(i)) <= w and isinstance(r[1], str) and r[1].strip() == str(i)
            if ok:
                try:
                    ok = dec(r[1]) == i
                except Exception:  # noqa: BLE001
                    ok = False
            if not ok:
                codec_fail(ctx, "encode_hybrid36", "wrong_text", "negative", "negative number encoded to a wrong text",
                           body, "exception or %r" % str(i), r[1])
    elif what == "argtype":
        # ARRAY FLAVOURS of the scalar arguments: numpy integer scalars of every width that holds the value must
        # behave like the Python int; other representations: exception or the int result
        w, i, vt, wt = case["w"], case["i"], case["vt"], case["wt"]
        fits = vt in ("int", "intsub", "int64", "uint64", "uint32", "0d", "float", "float64") or (
            vt == "bool" and i in (0, 1)) or (vt in ("int32",) and i < 2 ** 31) or (
            vt[-1:] in "68" and vt not in ("int64", "float64") and i < 2 ** (int(vt.lstrip("uint")) - (0 if vt[0] == "u" else 1)))
        if not fits:
            ctx.count("skipped_value_not_representable")
            return
        strict = vt in ("int", "intsub", "int8", "int16", "int32", "int64", "uint8", "uint16", "uint32", "uint64") and wt in (
            "int", "int64", "uint8")
        if count:
            ctx.count("accepted" if strict else "unspecified")
        want = M.hy36_encode(i, w)
        try:
            got = ("returned", enc(_as_type(i, vt), _as_type(w, wt)))
        except Exception as x:  # noqa: BLE001
            got = ("raised", type(x).__name__)
        ctx.outcome(("argtype", w, i, vt, wt, got))
        if got[0] == "raised":
            if strict:
                codec_fail(ctx, "encode_hybrid36", "unexpected_" + got[1], "argument_%s_length_%s" % (vt, wt),
                           "integer argument of another integer type refused", body, want, got[1])
            return
        if not isinstance(got[1], str) or got[1].strip() != want:
            codec_fail(ctx, "encode_hybrid36", "wrong_text", "argument_%s_length_%s" % (vt, wt),
                       "result depends on the representation of the argument", body, want, got[1])
            return
        for st in ARG_STR_TYPES if vt == "int" and wt == "int" else ():
            text = {"str": want, "str_": np.str_(want), "strsub": _StrSub(want), "bytes": want.encode()}[st]
            try:
                back = ("returned", dec(text))
            except Exception as x:  # noqa: BLE001
                back = ("raised", type(x).__name__)
            if back[0] == "returned" and back[1] != i or (back[0] == "raised" and st == "str"):
                codec_fail(ctx, "decode_hybrid36", "wrong_value", "argument_" + st, "decode depends on the string type", body, i, back[1])
                return
    elif what == "text":
        t = case["text"]
        try:
            want = ("value", M.hy36_decode(t))
        except ValueError:
            want = ("invalid", None)
        try:
            got = ("returned", dec(t))
        except Exception as x:  # noqa: BLE001
            got = ("raised", type(x).__name__)
        ctx.outcome(("text", t, got))
        if want[0] == "invalid":
            if count:
                ctx.count("unspecified")
            if got[0] == "returned" and not isinstance(got[1], int):
                codec_fail(ctx, "decode_hybrid36", "wrong_type", "malformed_text", "non-integer result", body, "int or error",
                           repr(got[1]))
            return
        if count:
            ctx.count("accepted")
        stripped = t.strip(" ")
        klass = "decimal_text" if M._DEC.match(stripped) else "hybrid_text"
        if len(stripped) != len(t) and klass == "hybrid_text":
            # a padded letter field is narrower than its column: not a number of this width
            if count:
                ctx.count("unspecified")
            return
        if got != ("returned", want[1]):
            codec_fail(ctx, "decode_hybrid36", "wrong_value" if got[0] == "returned" else "unexpected_" + got[1], klass,
                       "valid field text not decoded to its value", body, want[1], got[1])
            return
        if klass == "hybrid_text":
            try:
                back = enc(want[1], len(t))
            except Exception as x:  # noqa: BLE001
                back = repr(x)
            if back != t:
                codec_fail(ctx, "encode_hybrid36", "wrong_text", klass, "encode(decode(s), len(s)) != s", body, t, back)
    else:
        raise ValueError(case)


# ---------------------------------------------------------------------------
# bonds / CONECT
# ---------------------------------------------------------------------------
# kind letter -> (chain, res_id, ins_code, res_name, hetero)
KINDS = {
    "a": ("A", 1, "", "UNX", False),
    "b": ("A", 2, "", "UNX", False),
    "c": ("B", 1, "", "UNX", False),
    "h": ("A", 1, "", "UNX", True),
    "i": ("A", 1, "A", "UNX", False),
    "w": ("A", 5, "", "HOH", True),
}
ID_COMBOS = [("default", False), ("gap", False), ("default", True), ("gap", True), ("h36x", True)]
UNSPECIFIED_IDS = ("rev", "perm", "neg", "allneg")  # exception on reading bonds, or the exact bonds
ORDER_CODE = {"SING": 1, "DOUB": 2, "TRIP": 3}


def ccd_bonds(res_name):
    from mc import ccd

    comp = ccd.COMPONENTS.get(res_name)
    if comp is None:
        return {}
    out = {}
    for a1, a2, order, arom in comp[5]:
        out[frozenset((a1, a2))] = ORDER_CODE[order] + (4 if arom == "Y" else 0)
    return out


CCD_CASES = {
    # name: (atoms [chain,res_id,ins,res_name,hetero,atom_name,element], bonds [(i,j,type)])
    "ala_full": ([["A", 1, "", "ALA", False, a, a[0]] for a in ("N", "CA", "C", "O", "CB")],
                 [(0, 1, 1), (1, 2, 1), (2, 3, 2), (1, 4, 1)]),
    "ala_nobonds": ([["A", 1, "", "ALA", False, a, a[0]] for a in ("N", "CA", "C", "O", "CB")], []),
    "ala_partial": ([["A", 1, "", "ALA", False, a, a[0]] for a in ("N", "CA", "C", "O", "CB")], [(0, 1, 1)]),
    "lig_full": ([["A", 9, "", "LIG", True, a, a[0]] for a in ("C1", "C2", "C3", "N1", "O1", "C4", "C5")],
                 [(0, 1, 6), (1, 2, 5), (2, 3, 2), (3, 4, 1), (4, 5, 1), (5, 0, 5), (5, 6, 3)]),
    "lig_extra": ([["A", 9, "", "LIG", True, a, a[0]] for a in ("C1", "C2", "C3", "N1", "O1", "C4", "C5")],
                  [(0, 1, 6), (1, 2, 5), (0, 6, 1), (2, 4, 2)]),
    "dipeptide": ([["A", 1, "", "ALA", False, a, a[0]] for a in ("N", "CA", "C", "O")]
                  + [["A", 2, "", "GLY", False, a, a[0]] for a in ("N", "CA", "C", "O")],
                  [(0, 1, 1), (1, 2, 1), (2, 3, 2), (4, 5, 1), (5, 6, 1), (6, 7, 2), (2, 4, 1)]),
    "dipeptide_nolink": ([["A", 1, "", "ALA", False, a, a[0]] for a in ("N", "CA", "C", "O")]
                         + [["A", 2, "", "GLY", False, a, a[0]] for a in ("N", "CA", "C", "O")],
                         [(0, 1, 1), (1, 2, 1), (2, 3, 2), (4, 5, 1), (5, 6, 1), (6, 7, 2)]),
    "ala_lig": ([["A", 1, "", "ALA", False, a, a[0]] for a in ("N", "CA", "C", "O", "CB")]
                + [["A", 9, "", "LIG", True, a, a[0]] for a in ("C1", "C2")],
                [(0, 1, 1), (1, 2, 1), (2, 3, 2), (1, 4, 1), (4, 5, 1), (5, 6, 6)]),
    "dinucleotide": ([["A", 1, "", "A", False, a, a[0]] for a in ("P", "OP1", "O5'", "C5'", "O3'")]
                     + [["A", 2, "", "A", False, a, a[0]] for a in ("P", "OP1", "O5'", "C5'", "O3'")],
                     [(0, 1, 2), (0, 2, 1), (2, 3, 1), (3, 4, 1), (5, 6, 2), (5, 7, 1), (7, 8, 1), (8, 9, 1), (4, 5, 1)]),
    "dinucleotide_nolink": ([["A", 1, "", "DA", False, a, a[0]] for a in ("P", "O5'", "C5'", "O3'")]
                            + [["A", 2, "", "DA", False, a, a[0]] for a in ("P", "O5'", "C5'", "O3'")],
                            [(0, 1, 1), (1, 2, 1), (2, 3, 1), (4, 5, 1), (5, 6, 1), (6, 7, 1)]),
    "ion": ([["A", 1, "", "ALA", False, "O", "O"], ["A", 7, "", "NA", True, "NA", "NA"]], [(0, 1, 8)]),
}


def bond_atoms(case, btypes):
    """(atoms, bonds) of a bond case."""
    what = case["what"]
    if what == "word":
        atoms = []
        nwater = 0
        for p, k in enumerate(case["word"]):
            ch, rid, ins, rn, het = KINDS[k]
            if k == "w":
                name, el = (("O", "O"), ("H1", "H"), ("H2", "H"), ("H3", "H"))[nwater]
                nwater += 1
            else:
                name, el = "C%d" % (p + 1), "C"
            atoms.append([ch, rid, ins, rn, het, name, el])
        bonds = [(i, j, btypes[k % len(btypes)]) for k, (i, j) in enumerate(case["edges"])]
        return atoms, bonds
    if what == "star":
        k, pos, style = case["partners"], case["centre"], case["style"]
        n = k + 1
        atoms = []
        for p in range(n):
            centre = p == pos
            if style == "hetero":
                ch, rid, ins, rn, het = KINDS["h"]
            else:
                ch, rid, ins, rn, het = KINDS["a" if centre else "b"]
            atoms.append([ch, rid, ins, rn, het, "C%d" % (p + 1), "C"])
        others = [p for p in range(n) if p != pos]
        bonds = [(pos, q, btypes[i % len(btypes)]) for i, q in enumerate(others)]
        return atoms, bonds
    if what == "ccd":
        atoms, bonds = CCD_CASES[case["name"]]
        return [list(a) for a in atoms], list(bonds)
    if what == "btype":  # every bond type value with every seed
        ks = "hh" if case["style"] == "hetero" else "ab"
        atoms = [list(KINDS[k]) + ["C%d" % (p + 1), "C"] for p, k in enumerate(ks)]
        return atoms, [(0, 1, case["t"])]
    if what == "solvent":  # every residue name that is (or looks like) a solvent name
        rn = case["res_name"]
        atoms = [["A", 5, "", rn, True, "O", "O"], ["A", 5, "", rn, True, "H1", "H"], ["A", 1, "", "UNX", False, "C1", "C"]]
        return atoms, [(0, 1, 1), (0, 2, 1)]
    raise ValueError(case)


SOLVENT_NAMES = ("HOH", "SOL")  # residue names the library documents as solvent


def is_water(a):
    return a[3] in SOLVENT_NAMES


def pair_class(a, b, degree_gt4):
    pre = "water_" if (is_water(a) or is_water(b)) else ""
    if (a[4] and not is_water(a)) or (b[4] and not is_water(b)):
        c = "hetero"
    elif a[0] != b[0]:
        c = "inter_chain"
    elif a[1] != b[1]:
        c = "inter_res_id"
    elif a[2] != b[2]:
        c = "inter_ins_code_only"
    else:
        c = "intra_residue"
    return pre + c + ("_degree_gt4" if degree_gt4 else "")


def bond_model(atoms, bonds):
    """pair -> dict(input type or None, carried (True/False/None=unspecified), ccd type or None, link)."""
    n = len(atoms)
    inp = {frozenset((i, j)): t for i, j, t in bonds}
    info = {}
    for i in range(n):
        for j in range(i + 1, n):
            a, b = atoms[i], atoms[j]
            pr = frozenset((i, j))
            same_res = a[:4] == b[:4]
            ccdt = ccd_bonds(a[3]).get(frozenset((a[5], b[5]))) if same_res else None
            lo, hi = (a, b) if a[1] < b[1] else (b, a)
            link = (not same_res and a[0] == b[0] and abs(a[1] - b[1]) == 1
                    and (({a[3], b[3]} <= {"ALA", "GLY", "SER"} and (lo[5], hi[5]) == ("C", "N"))
                         or ({a[3], b[3]} <= {"A", "DA"} and (lo[5], hi[5]) == ("O3'", "P"))))
            if pr in inp:
                het = (a[4] and not is_water(a)) or (b[4] and not is_water(b))
                inter = a[0] != b[0] or a[1] != b[1] or a[2] != b[2]
                carried = True if (het or inter) else False
                if same_res and is_water(a):
                    carried = None
            else:
                carried = False
            info[pr] = {"in": inp.get(pr), "carried": carried, "ccd": ccdt, "link": link}
    return info


def bond_case_e(case, atoms):
    n = len(atoms)
    m = 2 if case["stack"] else 1
    ids = None
    if case["ids"] == "gap":
        ids = [10 * (p + 1) for p in range(n)]
    elif case["ids"] == "h36x":
        ids = [99999 - (n // 2) + p for p in range(n)]
    elif case["ids"] == "rev":
        ids = list(range(n, 0, -1))
    elif case["ids"] == "perm":
        ids = [[20, 10, 30, 5][p] for p in range(n)]
    elif case["ids"] == "neg":
        ids = [p - 1 for p in range(n)]
    elif case["ids"] == "allneg":
        ids = [p - 5 for p in range(n)]
    return {
        "m": m, "n": n,
        "chain_id": [a[0] for a in atoms], "res_id": [a[1] for a in atoms], "ins_code": [a[2] for a in atoms],
        "res_name": [a[3] for a in atoms], "hetero": [a[4] for a in atoms], "atom_name": [a[5] for a in atoms],
        "element": [a[6] for a in atoms],
        "coord": [[[f32(1.5 * p + 20 * mm + 0.25 * ax) for ax in range(3)] for p in range(n)] for mm in range(m)],
        "atom_id": ids, "b_factor": None, "occupancy": None, "charge": None, "box": None, "b32": False,
    }


def bond_shards(tier):
    out = [{"kind": "bonds", "what": "word", "n": 2, "prefix": ""}]
    out += [{"kind": "bonds", "what": "word", "n": 3, "prefix": k} for k in KINDS]
    if tier == "thorough":
        out += [{"kind": "bonds", "what": "word", "n": 4, "prefix": a + b} for a in "abhi" for b in "abhi"]
    out.append({"kind": "bonds", "what": "special"})
    out.append({"kind": "bonds", "what": "ids"})
    return out


def bond_cases(shard):
    if shard["what"] == "ids":
        words = ["".join(w) for w in itertools.product(KINDS, repeat=2)] + ["".join(w) for w in itertools.product("ahb", repeat=3)]
        for word in words:
            all_edges = list(itertools.combinations(range(len(word)), 2))
            for mask in range(1, 1 << len(all_edges)):
                edges = [list(e) for b, e in enumerate(all_edges) if mask >> b & 1]
                for ids in UNSPECIFIED_IDS:
                    yield {"kind": "bonds", "what": "word", "word": word, "edges": edges, "ids": ids, "h36": False,
                           "stack": False}
    elif shard["what"] == "word":
        n = shard["n"]
        letters = "abhi" if n == 4 else "".join(KINDS)
        all_edges = list(itertools.combinations(range(n), 2))
        for word in itertools.product(letters, repeat=n):
            word = "".join(word)
            if not word.startswith(shard["prefix"]):
                continue
            for mask in range(1 << len(all_edges)):
                edges = [list(e) for b, e in enumerate(all_edges) if mask >> b & 1]
                for ids, h36 in ID_COMBOS:
                    for stack in (False, True):
                        if n == 4 and (ids == "gap" or (stack and ids != "default")):
                            continue  # 4-atom graphs: default ids (array+stack, both modes) and the A0000 crossing
                        yield {"kind": "bonds", "what": "word", "word": word, "edges": edges, "ids": ids,
                               "h36": h36, "stack": stack}
    else:
        for ids, h36 in ID_COMBOS:
            for stack in (False, True):
                for k in (3, 4, 5, 6, 8, 9):
                    for pos in (0, k):
                        for style in ("hetero", "inter"):
                            yield {"kind": "bonds", "what": "star", "partners": k, "centre": pos, "style": style,
                                   "ids": ids, "h36": h36, "stack": stack}
                for name in CCD_CASES:
                    yield {"kind": "bonds", "what": "ccd", "name": name, "ids": ids, "h36": h36, "stack": stack}
        for h36 in (False, True):
            for stack in (False, True):
                for t in range(10):
                    for style in ("hetero", "inter"):
                        yield {"kind": "bonds", "what": "btype", "t": t, "style": style, "ids": "default", "h36": h36,
                               "stack": stack}
                for rn in ("HOH", "SOL", "WAT", "DOD", "H2O"):
                    yield {"kind": "bonds", "what": "solvent", "res_name": rn, "ids": "default", "h36": h36, "stack": stack}


def run_bonds(shard, ctx):
    for case in bond_cases(shard):
        case["seed"] = ctx.seed
        run_bond_case(ctx, case, count=True)


def run_bond_case(ctx, case, count=False):
    import biotite.structure as struc
    from biotite.structure.io.pdb import PDBFile

    btypes = PALETTES[case.get("seed", ctx.seed) % len(PALETTES)]["btypes"]
    atoms, bonds = bond_atoms(case, btypes)
    e = bond_case_e(case, atoms)
    n = e["n"]
    info = bond_model(atoms, bonds)
    if count:
        ctx.ev(1, 1 if bonds else 0)
        ctx.count("unspecified" if case["ids"] in UNSPECIFIED_IDS else "accepted")
    deg = [0] * n
    for pr, d in info.items():
        if d["in"] is not None and d["carried"]:
            for x in pr:
                deg[x] += 1

    def pclass(pr):
        i, j = sorted(pr)
        return pair_class(atoms[i], atoms[j], deg[i] > 4 or deg[j] > 4)

    def fail(site, mode, klass, what, exp, obs):
        if case["ids"] in UNSPECIFIED_IDS and site == "PDBFile.get_structure" and mode.startswith("bond_"):
            mode, klass = "bonds_differ", "atom_ids_" + case["ids"]  # one cause, one signature
        ctx.violation("%s|%s|%s" % (site, mode, klass), what, case, expected=exp, observed=obs)

    arr = build(e, case["stack"])
    arr.bonds = struc.BondList(n, np.array([list(b) for b in bonds], dtype=np.int64).reshape(-1, 3))
    f = PDBFile()
    gen = "bonds_%s_ids_%s%s" % (case["what"], case["ids"], "+hybrid36" if case["h36"] else "")
    try:
        f.set_structure(arr, hybrid36=case["h36"])
    except Exception as x:  # noqa: BLE001
        fail("PDBFile.set_structure", "unexpected_" + type(x).__name__, gen, "bonded structure within the limits refused",
             "file written", "%s: %s" % (type(x).__name__, str(x)[:200]))
        return
    lines = [str(x) for x in f.lines]
    ctx.outcome(("bonds", tuple(lines)))
    cl = {"atom_id": "A", "res_id": ["A"] * n}
    bad = check_layout(lines, e, case["h36"], cl)
    if bad:
        fail("PDBFile.set_structure", "column_shift", gen, "layout law broken at %s: %s" % bad, "standard columns", lines[:8])
        return
    # CONECT records
    ids = e["atom_id"] if e["atom_id"] is not None else list(range(1, n + 1))
    index = {v: p for p, v in enumerate(ids)}
    conect = set()
    for ln in lines:
        if not ln.startswith("CONECT"):
            continue
        try:
            centre, partners = M.split_conect_line(ln)
            nums = [M.hy36_decode(t) for t in [centre] + partners]
            if not case["h36"] and any(not M._INT.match(t) for t in [centre] + partners):
                raise M.Layout("CONECT", "non-decimal serial in %r" % ln)
            idx = [index[v] for v in nums]
        except (M.Layout, ValueError, KeyError) as x:
            fail("PDBFile.set_structure", "conect_layout", gen, "malformed CONECT record: %s" % x, "CONECT with <= 4 serials of "
                 "the structure's atoms in 5-column fields", ln)
            return
        for q in idx[1:]:
            conect.add(frozenset((idx[0], q)))
    for pr in sorted(info, key=sorted):
        d = info[pr]
        if d["carried"] is True and pr not in conect:
            fail("PDBFile.set_structure", "conect_missing", pclass(pr), "bond between %s has no CONECT record" % sorted(pr),
                 "CONECT", [ln for ln in lines if ln.startswith("CONECT")])
            return
        if d["in"] is None and pr in conect:
            fail("PDBFile.set_structure", "conect_spurious", pclass(pr), "CONECT for a pair that is not bonded: %s" % sorted(pr),
                 "no CONECT", [ln for ln in lines if ln.startswith("CONECT")])
            return
    for pr in conect:
        if len(pr) != 2:
            fail("PDBFile.set_structure", "conect_spurious", "self_bond", "CONECT of an atom with itself", "none", sorted(pr))
            return
    # read back
    m = e["m"]
    try:
        g = PDBFile.read(io.StringIO("\n".join(lines) + "\n"))
        got = [("get_structure(include_bonds)", g.get_structure(extra_fields=EXTRA, include_bonds=True), list(range(m)))]
        for k in range(1, m + 1):
            got.append(("get_structure(model=%d,include_bonds)" % k,
                        g.get_structure(model=k, extra_fields=EXTRA, include_bonds=True), [k - 1]))
    except Exception as x:  # noqa: BLE001
        if case["ids"] in UNSPECIFIED_IDS:
            # serial numbers that are not increasing / negative: the reader may refuse to resolve CONECT
            ctx.count("unspecified_observed_raised")
            return
        fail("PDBFile.get_structure", "read_error_" + type(x).__name__, gen, "written file with CONECT not readable",
             "structure", "%s: %s" % (type(x).__name__, str(x)[:200]))
        return
    for tag, s, mm_list in got:
        bad = compare(s, e, mm_list, cl, tag)
        if bad:
            fail("PDBFile.get_structure", "roundtrip_" + bad[0], gen, "read-back differs (%s)" % tag, bad[1], bad[2])
            return
        if s.bonds is None:
            fail("PDBFile.get_structure", "no_bond_list", gen, "include_bonds=True returned no BondList (%s)" % tag, "BondList", None)
            return
        rb = {frozenset((int(i), int(j))): int(t) for i, j, t in s.bonds.as_array()}
        for pr in sorted(info, key=sorted):
            d = info[pr]
            have = pr in rb
            must = d["carried"] is True or (d["carried"] is False and d["in"] is not None and d["ccd"] is not None)
            may = must or pr in conect or d["ccd"] is not None or d["link"] or d["carried"] is None and d["in"] is not None
            if must and not have:
                fail("PDBFile.get_structure", "bond_lost", pclass(pr), "bond %s missing after read-back (%s)" % (sorted(pr), tag),
                     "bond", sorted(map(sorted, rb)))
                return
            if have and not may:
                fail("PDBFile.get_structure", "bond_spurious", pclass(pr), "bond %s appeared (%s)" % (sorted(pr), tag), "no bond",
                     sorted(map(sorted, rb)))
                return
            if have:
                if d["ccd"] is not None:
                    ok = rb[pr] == d["ccd"]
                elif d["link"]:
                    ok = rb[pr] in (0, 1)
                else:
                    ok = rb[pr] == 0
                if not ok:
                    fail("PDBFile.get_structure", "bond_type", pclass(pr) + ("_dictionary" if d["ccd"] is not None else ""),
                         "bond %s has type %d (%s)" % (sorted(pr), rb[pr], tag),
                         d["ccd"] if d["ccd"] is not None else 0, rb[pr])
                    return
        if any(len(pr) != 2 or max(pr) >= n for pr in rb):
            fail("PDBFile.get_structure", "bond_spurious", "out_of_structure", "bond outside the structure", "none", sorted(map(sorted, rb)))
            return
    if count and len(ctx.samples) < 1 and len(bonds) >= 2:
        ctx.sample({**case, "conect": [ln for ln in lines if ln.startswith("CONECT")]})


# ---------------------------------------------------------------------------
# big: ids cross the decimal limits inside one structure
# ---------------------------------------------------------------------------
BIG_N = 100002
BIG_BONDS = [(99989, 99990), (99997, 100000), (99999, 100000), (9, 100001), (0, 100001)]


def run_big(shard, ctx):
    """100 002 atoms in residues of 10: atom serials run to 100002, residue numbers to 10001.
    hybrid36: everything must come back.  decimal: documented wrap, layout law only."""
    import biotite.structure as struc
    from biotite.structure.io.pdb import PDBFile

    h36 = shard["h36"]
    case = {"kind": "big", "h36": h36}
    if not ctx.journal(case):
        return
    n = BIG_N
    res = [1 + p // 10 for p in range(n)]
    arr = struc.AtomArray(n)
    arr.chain_id = np.full(n, "A")
    arr.res_id = np.array(res, dtype=int)
    arr.res_name = np.full(n, "UNX")
    arr.atom_name = np.array(["C%d" % (p % 10) for p in range(n)])
    arr.element = np.full(n, "C")
    coord = np.zeros((n, 3), dtype=np.float32)
    coord[:, 0] = (np.arange(n) % 1000) * 0.125
    coord[:, 1] = (np.arange(n) // 1000) * 0.5
    coord[:, 2] = -3.25
    arr.coord = coord
    if h36:
        arr.bonds = struc.BondList(n, np.array([[i, j, 1] for i, j in BIG_BONDS], dtype=np.int64))
    ctx.ev(1, 1)
    ctx.count("accepted" if h36 else "unspecified")
    klass = "big_structure" + ("+hybrid36" if h36 else "")

    def fail(site, mode, what, exp, obs):
        ctx.violation("%s|%s|%s" % (site, mode, klass), what, case, expected=exp, observed=obs)

    f = PDBFile()
    try:
        f.set_structure(arr, hybrid36=h36)
    except Exception as x:  # noqa: BLE001
        if h36:
            fail("PDBFile.set_structure", "unexpected_" + type(x).__name__, "structure inside the hybrid-36 limits refused",
                 "file", repr(x)[:200])
        ctx.outcome(("big", h36, "raised"))
        return
    lines = [str(x) for x in f.lines]
    atom_lines = [ln for ln in lines if ln.startswith(("ATOM", "HETATM"))]
    ctx.outcome(("big", h36, len(lines), lines[99999], lines[-1]))
    if len(atom_lines) != n:
        fail("PDBFile.set_structure", "record_count", "number of ATOM records", n, len(atom_lines))
        return
    for p, ln in enumerate(atom_lines):
        try:
            fld = M.split_atom_line(ln)
            if h36:
                if M.hy36_decode(fld["serial"]) != p + 1 or M.hy36_decode(fld["res_seq"]) != res[p]:
                    raise M.Layout("serial/res_seq", "%r %r for atom %d residue %d" % (fld["serial"], fld["res_seq"], p + 1, res[p]))
            elif not (M._INT.match(fld["serial"]) and M._INT.match(fld["res_seq"])):
                raise M.Layout("serial/res_seq", "not decimal: %r %r" % (fld["serial"], fld["res_seq"]))
            if (p < 99999 and int(fld["serial"]) != p + 1) or (res[p] <= 9999 and int(fld["res_seq"]) != res[p]):
                raise M.Layout("serial/res_seq", "%r %r for atom %d residue %d" % (fld["serial"], fld["res_seq"], p + 1, res[p]))
            if fld["name"] != " C%d " % (p % 10) or fld["res_name"] != "UNX" or fld["chain"] != "A":
                raise M.Layout("name", "%r %r %r" % (fld["name"], fld["res_name"], fld["chain"]))
            if abs(float(fld["x"]) - float(coord[p, 0])) > 0.00051 or abs(float(fld["y"]) - float(coord[p, 1])) > 0.00051:
                raise M.Layout("coord", "%r %r" % (fld["x"], fld["y"]))
        except (M.Layout, ValueError) as x:
            fail("PDBFile.set_structure", "column_shift", "layout law broken in record %d: %s" % (p + 1, x), "standard columns", ln)
            return
    if not h36:
        return
    want_pairs = {frozenset(b) for b in BIG_BONDS}
    conect = set()
    for ln in lines:
        if ln.startswith("CONECT"):
            try:
                c, ps = M.split_conect_line(ln)
                for q in ps:
                    conect.add(frozenset((M.hy36_decode(c) - 1, M.hy36_decode(q) - 1)))
            except (M.Layout, ValueError) as x:
                fail("PDBFile.set_structure", "conect_layout", "malformed CONECT: %s" % x, "CONECT record", ln)
                return
    if conect != want_pairs:
        fail("PDBFile.set_structure", "conect_missing", "CONECT records do not carry the inter-residue bonds",
             sorted(map(sorted, want_pairs)), sorted(map(sorted, conect)))
        return
    try:
        g = PDBFile.read(io.StringIO("\n".join(lines) + "\n"))
        s = g.get_structure(model=1, extra_fields=["atom_id"], include_bonds=True)
    except Exception as x:  # noqa: BLE001
        fail("PDBFile.get_structure", "read_error_" + type(x).__name__, "big hybrid-36 file not readable", "structure", repr(x)[:200])
        return
    for key, want in (("atom_id", np.arange(1, n + 1)), ("res_id", np.array(res)), ("atom_name", arr.atom_name),
                      ("chain_id", arr.chain_id), ("res_name", arr.res_name), ("element", arr.element)):
        got = getattr(s, key)
        if got.shape != want.shape or not (got == want).all():
            k = int(np.argmax(got != want)) if got.shape == want.shape else -1
            fail("PDBFile.get_structure", "roundtrip_" + key, "read-back differs at atom %d" % k, str(want[k]), str(got[k]) if k >= 0 else list(got.shape))
            return
    if not np.allclose(s.coord, coord, atol=0.00051, rtol=0):
        fail("PDBFile.get_structure", "roundtrip_coord", "coordinates differ", "equal", "different")
        return
    rb = {frozenset((int(i), int(j))): int(t) for i, j, t in s.bonds.as_array()}
    if set(rb) != want_pairs or any(t != 0 for t in rb.values()):
        fail("PDBFile.get_structure", "bond_lost", "bonds across the serial 99999/100000 boundary differ",
             sorted(map(sorted, want_pairs)), sorted((sorted(k), v) for k, v in rb.items()))
    if not ctx.samples:
        ctx.sample({"kind": "big", "h36": True, "records": [lines[99998], lines[99999], lines[-1]]})


# ---------------------------------------------------------------------------
# reuse: operation sequences on ONE PDBFile object (differential: reuse vs from scratch)
# ---------------------------------------------------------------------------
# name -> dict(stack, m, n, h36, extras)
REUSE_ITEMS = {
    "a1": {"m": 1, "n": 1, "stack": False},
    "a3": {"m": 1, "n": 3, "stack": False},
    "a7x": {"m": 1, "n": 7, "stack": False, "annot": True, "box": "tric"},
    "a3h": {"m": 1, "n": 3, "stack": False, "h36": True, "big_ids": True},
    "s2n3": {"m": 2, "n": 3, "stack": True},
    "s3n1b": {"m": 3, "n": 1, "stack": True, "box": "ortho"},
    "s2n4c": {"m": 2, "n": 4, "stack": True, "bonds": "star", "bfac": True},
    "a4c": {"m": 1, "n": 4, "stack": False, "bonds": "chain"},
    "a2w": {"m": 1, "n": 2, "stack": False, "wrap_ids": True},  # decimal mode, ids beyond the columns: documented wrap
    "s3n3": {"m": 3, "n": 3, "stack": True},            # same path as s2n3 with one model more
    "a4c2": {"m": 1, "n": 4, "stack": False, "bonds": "chain_short"},  # same path as a4c with one CONECT record fewer
}
REUSE_BAD = {
    "bad_chain5": {"m": 1, "n": 5, "stack": False, "bad": "chain"},
    "bad_nan2": {"m": 2, "n": 2, "stack": True, "bad": "nan"},
    "bad_b1": {"m": 1, "n": 1, "stack": False, "bad": "b_factor"},
}


def reuse_build(name):
    """(biotite structure, hybrid36 flag) of a palette entry."""
    import biotite.structure as struc

    spec = REUSE_ITEMS.get(name) or REUSE_BAD[name]
    k = (list(REUSE_ITEMS) + list(REUSE_BAD)).index(name)
    m, n = spec["m"], spec["n"]
    e = {
        "m": m, "n": n,
        "chain_id": ["A"] * n, "res_id": [1 + p for p in range(n)], "ins_code": [""] * n, "res_name": ["UNX"] * n,
        "hetero": [False] * n, "atom_name": ["C%d" % (p + 1) for p in range(n)], "element": ["C"] * n,
        "coord": [[[f32(100.0 * k + 10 * mm + 1.5 * p + 0.25 * ax) for ax in range(3)] for p in range(n)]
                  for mm in range(m)],
        "atom_id": None, "b_factor": None, "occupancy": None, "charge": None, "box": None, "b32": False,
    }
    if spec.get("annot"):
        e["atom_id"] = [10 * (p + 1) for p in range(n)]
        e["b_factor"] = [10.25 + p for p in range(n)]
        e["occupancy"] = [0.5 + 0.0625 * p for p in range(n)]
        e["charge"] = [(p % 3) - 1 for p in range(n)]
    if spec.get("bfac"):
        e["b_factor"] = [30.5 + p for p in range(n)]
    if spec.get("big_ids"):
        e["atom_id"] = [99999 + p for p in range(n)]
        e["res_id"] = [9999 + p for p in range(n)]
    if spec.get("wrap_ids"):
        e["atom_id"] = [99999 + p for p in range(n)]
        e["res_id"] = [9999 + p for p in range(n)]
    if spec.get("box"):
        e["box"] = [[f32(x) for x in row] for row in M.vectors_from_cell(*BOXES[spec["box"]])]
    if spec.get("bonds") == "star":
        e["hetero"] = [True] * n
    bad = spec.get("bad")
    if bad == "chain":
        e["chain_id"][n - 1] = "AB"
    elif bad == "nan":
        e["coord"][m - 1][n - 1][2] = float("nan")
    elif bad == "b_factor":
        e["b_factor"] = [1000.0] * n
    arr = build(e, spec["stack"])
    if spec.get("bonds") == "star":
        arr.bonds = struc.BondList(n, np.array([[0, q, 1] for q in range(1, n)], dtype=np.int64))
    elif spec.get("bonds") in ("chain", "chain_short"):
        last = n - 1 if spec["bonds"] == "chain" else n - 2
        arr.bonds = struc.BondList(n, np.array([[q, q + 1, 2] for q in range(last)], dtype=np.int64))
    return arr, bool(spec.get("h36"))


def canon_result(x):
    """JSON-like canonical form of whatever a getter returned (NaN-safe through repr)."""
    import biotite.structure as struc

    if isinstance(x, (struc.AtomArray, struc.AtomArrayStack)):
        d = {"type": type(x).__name__, "coord": np.asarray(x.coord).tolist(), "shape": list(x.coord.shape)}
        for cat in sorted(x.get_annotation_categories()):
            d["annot:" + cat] = x.get_annotation(cat).tolist()
        d["box"] = None if x.box is None else np.asarray(x.box).tolist()
        d["bonds"] = None if x.bonds is None else sorted(map(tuple, x.bonds.as_array().tolist()))
        return repr(sorted(d.items()))
    if isinstance(x, np.ndarray):
        return repr((list(x.shape), str(x.dtype), x.tolist()))
    return repr(x)


REUSE_GETTERS = [
    ("get_model_count", lambda f: f.get_model_count()),
    ("get_structure_all", lambda f: f.get_structure(extra_fields=EXTRA, include_bonds=True)),
    ("get_structure_first", lambda f: f.get_structure(model=1, extra_fields=EXTRA, include_bonds=True)),
    ("get_structure_last", lambda f: f.get_structure(model=-1, extra_fields=EXTRA)),
    ("get_coord_all", lambda f: f.get_coord()),
    ("get_coord_first", lambda f: f.get_coord(model=1)),
    ("get_coord_last", lambda f: f.get_coord(model=-1)),
    ("get_b_factor_all", lambda f: f.get_b_factor()),
    ("get_b_factor_first", lambda f: f.get_b_factor(model=1)),
    ("get_remark", lambda f: f.get_remark(350)),
    # serialisations (may cache counts / positions); trailing blanks are not significant (read() pads)
    ("write", lambda f: _written_text(f)),
    ("str", lambda f: [ln.rstrip() for ln in str(f).split("\n")]),
    ("get_space_group", lambda f: tuple(f.get_space_group())),
]


def _written_text(f):
    buf = io.StringIO()
    f.write(buf)
    return [ln.rstrip() for ln in buf.getvalue().split("\n")]


def reuse_observe(f):
    out = []
    for name, fn in REUSE_GETTERS:
        try:
            out.append((name, "ok", canon_result(fn(f))))
        except Exception as x:  # noqa: BLE001
            out.append((name, "exc", type(x).__name__))
    return out


_REUSE_REF = {}


def reuse_ref(name):
    """Lines and getter results of a FRESH PDBFile that was given the structure."""
    from biotite.structure.io.pdb import PDBFile

    if name not in _REUSE_REF:
        arr, h36 = reuse_build(name)
        f = PDBFile()
        f.set_structure(arr, hybrid36=h36)
        _REUSE_REF[name] = ([str(x) for x in f.lines], reuse_observe(f))
    return _REUSE_REF[name]


def reuse_shards(tier):
    out = [{"kind": "reuse", "depth": 2}, {"kind": "reuse", "depth": "aba"}]
    if tier == "thorough":
        out += [{"kind": "reuse", "depth": 3, "first": x} for x in REUSE_ITEMS]
    return out


def reuse_cases(shard):
    if shard["depth"] == "aba":
        # there and back: content of another size and the original size again, getters in between
        for origin in ("set", "read"):
            for x in REUSE_ITEMS:
                for y in REUSE_ITEMS:
                    if x != y:
                        yield {"kind": "reuse", "ops": [[origin, x], ["probe"], ["set", y], ["probe"], ["set", x]]}
        return
    seconds = [["set", y] for y in REUSE_ITEMS] + [["refuse", z] for z in REUSE_BAD]
    firsts = [x for x in REUSE_ITEMS if shard.get("first") in (None, x)]
    for origin in ("set", "read"):
        for x in firsts:
            for p1 in (False, True):
                for op2 in seconds:
                    head = [[origin, x]] + ([["probe"]] if p1 else []) + [op2]
                    if shard["depth"] == 2:
                        yield {"kind": "reuse", "ops": head}
                        continue
                    for p2 in (False, True):
                        for op3 in seconds:
                            yield {"kind": "reuse", "ops": head + ([["probe"]] if p2 else []) + [op3]}


def run_reuse(shard, ctx):
    for case in reuse_cases(shard):
        ctx.ev(1, 1)
        ctx.count("refused" if case["ops"][-1][0] == "refuse" else "accepted")
        run_reuse_case(ctx, case, count=True)


def cmp_word(a, b):
    return "same" if a == b else ("fewer" if b < a else "more")


def run_reuse_case(ctx, case, count=False):
    """Execute one operation sequence on one object.  Returns True if a violation was reported."""
    from biotite.structure.io.pdb import PDBFile

    ops = case["ops"]
    obj = None
    content = None
    origin = ops[0][0]
    probed = False
    trans = "initial"

    def klass():
        return "%s_%s_%s" % (origin, "getters_used_before" if probed else "no_getter_before", trans)

    def fail(mode, what, exp, obs):
        ctx.violation("PDBFile.reuse|%s|%s" % (mode, klass()), what, case, expected=exp, observed=obs)
        return True

    def check_getters(where):
        ref = reuse_ref(content)[1]
        got = reuse_observe(obj)
        for (name, st, val), (_, rst, rval) in zip(got, ref):
            if (st, val) != (rst, rval):
                return fail("stale_" + name, "%s on a reused PDBFile differs from a fresh PDBFile holding the same "
                            "structure (%s)" % (name, where), [rst, rval[:300]], [st, val[:300]])
        return False

    for k, op in enumerate(ops):
        if op[0] == "read":
            obj = PDBFile.read(io.StringIO("\n".join(reuse_ref(op[1])[0]) + "\n"))
            content = op[1]
        elif op[0] == "probe":
            if check_getters("before the next write"):
                return True
            probed = True
        elif op[0] == "set":
            if obj is None:
                obj = PDBFile()
            arr, h36 = reuse_build(op[1])
            if content is not None:
                a, b = REUSE_ITEMS[content], REUSE_ITEMS[op[1]]
                trans = "atoms_%s_models_%s" % (cmp_word(a["n"], b["n"]), cmp_word(a["m"], b["m"]))
            try:
                obj.set_structure(arr, hybrid36=h36)
            except Exception as x:  # noqa: BLE001
                return fail("unexpected_" + type(x).__name__, "set_structure of a valid structure raised on a reused object",
                            "file written", "%s: %s" % (type(x).__name__, str(x)[:200]))
            content = op[1]
            lines = [str(x).rstrip() for x in obj.lines]
            want = [x.rstrip() for x in reuse_ref(content)[0]]
            if lines != want:
                return fail("lines_differ", "lines after set_structure on a reused object differ from a fresh object's",
                            want[:6], lines[:6])
        elif op[0] == "refuse":
            arr, h36 = reuse_build(op[1])
            a, b = REUSE_ITEMS[content], REUSE_BAD[op[1]]
            trans = "refused_%s_atoms_%s_models_%s" % (b["bad"], cmp_word(a["n"], b["n"]), cmp_word(a["m"], b["m"]))
            before = [str(x) for x in obj.lines]
            try:
                obj.set_structure(arr, hybrid36=h36)
                raised = False
            except Exception:  # noqa: BLE001
                raised = True
            if not raised:
                return fail("not_refused", "invalid structure was written", "an exception", [str(x) for x in obj.lines][:4])
            if [str(x) for x in obj.lines] != before:
                return fail("refusal_changed_lines", "refused set_structure changed the lines of a file holding a valid "
                            "structure", before[:6], [str(x) for x in obj.lines][:6])
        else:
            raise ValueError(op)
    bad = check_getters("after the last operation")
    if count:
        ctx.outcome(("reuse", content, ops[-1][0], bad))
        if not bad and len(ctx.samples) < 1 and len(ops) >= 3:
            ctx.sample({**case, "final_content": content, "getters_compared": [g[0] for g in REUSE_GETTERS]})
    return bad


# ---------------------------------------------------------------------------
# audit families: many models, argument aliasing, array flavours, empty pieces / I/O paths
# ---------------------------------------------------------------------------
AUDIT_DEPTHS = [9, 10, 11, 99, 100, 101, 999, 1000, 1001]
AUDIT_DEPTHS_BIG = [9999, 10000, 10001]
INT_DTYPES = ["int8", "int16", "int32", "int64", "uint8", "uint16", "uint32", "uint64"]
IO_PATHS = ["stringio", "file", "fileobj", "rstrip", "crlf", "copy"]
EMPTY_SHAPES = [["array", 1, 0], ["stack", 1, 0], ["stack", 2, 0], ["stack", 0, 2], ["stack", 0, 0]]


def audit_shards(tier):
    out = [{"kind": "audit", "what": w} for w in ("models", "alias", "flavours", "edge", "derived", "third")]
    out.append({"kind": "audit", "what": "models_big"})
    return out


def flavour_variants():
    v = []
    for f in ("res_id", "atom_id", "charge"):
        v += [[f, d] for d in INT_DTYPES if not (f == "res_id" and d == "uint64")]
        v += [[f, x] for x in ("strided", "readonly", "list")]
    for f in ("b_factor", "occupancy"):
        v += [[f, x] for x in ("float16", "float32", "float64", "strided", "readonly", "list")]
    v += [["coord", x] for x in ("float64", "float16", "strided_axis", "strided_atoms", "fortran", "readonly", "list")]
    for f in ("chain_id", "res_name", "atom_name", "element", "ins_code"):
        v += [[f, x] for x in ("U10", "S4", "object", "strided", "readonly", "list")]
    v += [["hetero", x] for x in ("strided", "readonly", "int8", "list")]
    v += [["box", x] for x in ("float64", "fortran", "strided", "readonly", "list")]
    v += [["bonds", x] for x in ("rows_reversed", "pairs_swapped", "int32", "uint32", "added_one_by_one")]
    v += [["annot_order", "reversed"], ["hybrid36_flag", "numpy_bool"], ["hybrid36_flag", "int"]]
    v += [["model_arg", x] for x in ("int64", "int32", "uint8", "intsub", "float", "0d")]
    v += [["extra_fields", x] for x in ("tuple", "ndarray", "reversed")]
    return v


def audit_cases(shard, tier):
    w = shard["what"]
    if w == "models":
        for d in AUDIT_DEPTHS:
            for n in (1, 2):
                for h in ((False, True) if tier == "thorough" else (False,)):
                    yield {"kind": "audit", "what": "models", "depth": d, "n": n, "h36": h}
    elif w == "models_big":
        for d in AUDIT_DEPTHS_BIG:
            for n in ((1, 2) if tier == "thorough" else (1,)):
                yield {"kind": "audit", "what": "models", "depth": d, "n": n, "h36": False}
    elif w == "alias":
        for name in list(REUSE_ITEMS) + list(REUSE_BAD):
            yield {"kind": "audit", "what": "alias", "item": name}
    elif w == "flavours":
        for stack in (False, True):
            for h in (False, True):
                for var in flavour_variants():
                    yield {"kind": "audit", "what": "flavours", "stack": stack, "h36": h, "var": var}
    elif w == "third":
        for name in REUSE_ITEMS:
            yield {"kind": "audit", "what": "model_range", "item": name}
            for state in AMBIENT_STATES:
                for phase in ("write", "read", "both"):
                    yield {"kind": "audit", "what": "ambient", "item": name, "state": state, "phase": phase}
        for name in REUSE_BAD:
            for state in AMBIENT_STATES:
                yield {"kind": "audit", "what": "ambient", "item": name, "state": state, "phase": "write"}
        for stack in (False, True):
            for occ in OCC_POLICY:
                for opt in ("first", "occupancy", "all"):
                    yield {"kind": "audit", "what": "altloc", "stack": stack, "occ": occ, "option": opt}
    elif w == "derived":
        for name in REUSE_ITEMS:
            for d in DERIVATIONS:
                if derivation_applies(name, d):
                    yield {"kind": "audit", "what": "derived", "item": name, "how": d}
    elif w == "edge":
        for sh in EMPTY_SHAPES:
            for h in (False, True):
                yield {"kind": "audit", "what": "empty", "shape": sh, "h36": h}
        for name in REUSE_ITEMS:
            for path in IO_PATHS:
                yield {"kind": "audit", "what": "io", "item": name, "path": path}
    else:
        raise ValueError(shard)


def deep_canon(arr):
    return (canon_result(arr), str(arr.coord.dtype), [(c, str(arr.get_annotation(c).dtype)) for c in
                                                       sorted(arr.get_annotation_categories())])


def mutate_everything(s):
    """Change every array of a structure in place."""
    s.coord += 7.0
    for cat in s.get_annotation_categories():
        a = s.get_annotation(cat)
        if a.dtype.kind in "iuf":
            a += 3
        elif a.dtype.kind == "b":
            a[:] = ~a
        else:
            a[:] = "Q"
    if s.box is not None:
        s.box *= 2.0
    if s.bonds is not None and s.array_length() > 1:
        s.bonds.add_bond(0, s.array_length() - 1, 3)
        s.bonds.remove_bond(0, 1)


def flavour_base(stack):
    m, n = (2 if stack else 1), 3
    return {
        "m": m, "n": n, "chain_id": ["A", "A", "B"], "res_id": [1, 2, 3], "ins_code": ["", "A", ""],
        "res_name": ["UNX", "UN", "U"], "hetero": [True, True, False], "atom_name": ["C1", "CA", "N"],
        "element": ["C", "C", "N"],
        "coord": [[[f32(10 * mm + 1.5 * p + 0.25 * ax - 3) for ax in range(3)] for p in range(n)] for mm in range(m)],
        "atom_id": [5, 6, 7], "b_factor": [1.5, 20.25, 30.0], "occupancy": [1.0, 0.5, 0.25], "charge": [1, 0, 2],
        "box": [[f32(x) for x in row] for row in M.vectors_from_cell(*BOXES["tric"])], "b32": False,
    }


FLAVOUR_BONDS = [[0, 1, 1], [1, 2, 2]]
UNSPEC_FLAVOURS = {"float16", "object", "S4", "list", "float", "0d", "ndarray"}


def strided_copy(a, axis=0):
    a = np.asarray(a)
    shape = list(a.shape)
    shape[axis] *= 2
    big = np.zeros(shape, dtype=a.dtype)
    idx = [slice(None)] * a.ndim
    idx[axis] = slice(None, None, 2)
    big[tuple(idx)] = a
    v = big[tuple(idx)]
    assert not v.flags.c_contiguous or v.size <= 1
    return v


def apply_flavour(arr, e, stack, field, fl):
    """Replace one array of arr by another representation of the same values."""
    import biotite.structure as struc

    if field == "bonds":
        rows = [list(r) for r in FLAVOUR_BONDS]
        if fl == "rows_reversed":
            rows = rows[::-1]
        elif fl == "pairs_swapped":
            rows = [[j, i, t] for i, j, t in rows]
        if fl == "added_one_by_one":
            bl = struc.BondList(e["n"])
            for i, j, t in rows[::-1]:
                bl.add_bond(j, i, t)
            arr.bonds = bl
        else:
            arr.bonds = struc.BondList(e["n"], np.array(rows, dtype=fl if fl in ("int32", "uint32") else "int64"))
        return
    if field == "annot_order":
        for cat in ("atom_id", "b_factor", "occupancy", "charge"):
            arr.del_annotation(cat)
        for cat in ("charge", "occupancy", "b_factor", "atom_id"):
            arr.set_annotation(cat, np.array(e[cat]))
        return
    if field == "coord":
        c = np.array(e["coord"] if stack else e["coord"][0], dtype=np.float32)
        if fl in ("float64", "float16"):
            c = c.astype(fl)
        elif fl == "strided_axis":
            c = strided_copy(c, c.ndim - 1)
        elif fl == "strided_atoms":
            c = strided_copy(c, c.ndim - 2)
        elif fl == "fortran":
            c = np.asfortranarray(c)
        elif fl == "readonly":
            c.flags.writeable = False
        elif fl == "list":
            c = c.tolist()
        arr.coord = c
        return
    if field == "box":
        b = np.array(e["box"], dtype=np.float32)
        b = np.repeat(b[None], e["m"], axis=0) if stack else b
        if fl == "float64":
            b = b.astype(float)
        elif fl == "fortran":
            b = np.asfortranarray(b)
        elif fl == "strided":
            b = strided_copy(b, b.ndim - 1)
        elif fl == "readonly":
            b.flags.writeable = False
        elif fl == "list":
            b = b.tolist()
        arr.box = b
        return
    vals = e[field]
    base = np.array(vals)
    if fl in INT_DTYPES or fl in ("float16", "float32", "float64", "U10", "S4", "object", "int8"):
        a = np.array(vals, dtype=fl)
    elif fl == "strided":
        a = strided_copy(base)
    elif fl == "readonly":
        a = base.copy()
        a.flags.writeable = False
    elif fl == "list":
        a = list(vals)
    else:
        raise ValueError((field, fl))
    if field in ("atom_id", "b_factor", "occupancy", "charge"):
        arr.set_annotation(field, a)
    else:
        setattr(arr, field, a)


def run_audit_case(ctx, case, count=False):
    import os
    import tempfile

    import biotite.structure as struc
    from biotite.structure.io.pdb import PDBFile

    from mc import loader

    what = case["what"]

    def fail(site, mode, klass, msg, exp, obs):
        ctx.violation("%s|%s|%s" % (site, mode, klass), msg, case, expected=exp, observed=obs)
        return True

    if count:
        ctx.ev(1, 1)
    # ---- MANY ITEMS / SIZE SWITCH: number of models around every width change of the MODEL serial ---------
    if what == "models":
        d, n, h36 = case["depth"], case["n"], case["h36"]
        if not ctx.journal(case):
            return
        klass = "model_count_%d_digits" % len(str(d)) if d <= 9999 else "model_count_exceeds_serial_column"
        if count:
            ctx.count("accepted" if d <= 9999 else "unspecified")
        e = {"m": d, "n": n, "chain_id": ["A"] * n, "res_id": [1 + p for p in range(n)], "ins_code": [""] * n,
             "res_name": ["UNX"] * n, "hetero": [False] * n, "atom_name": ["C%d" % (p + 1) for p in range(n)],
             "element": ["C"] * n,
             "coord": [[[f32(((mm * 7 + p * 3 + ax) % 1999) * 0.125 - 100.0) for ax in range(3)] for p in range(n)]
                       for mm in range(d)],
             "atom_id": None, "b_factor": None, "occupancy": None, "charge": None, "box": None, "b32": False}
        f = PDBFile()
        try:
            f.set_structure(build(e, True), hybrid36=h36)
        except Exception as x:  # noqa: BLE001
            ctx.outcome(("models", d, n, "raised"))
            if d <= 9999:
                fail("PDBFile.set_structure", "unexpected_" + type(x).__name__, klass, "stack within the limits refused", "file",
                     repr(x)[:200])
            return
        lines = [str(x) for x in f.lines]
        ctx.outcome(("models", d, n, len(lines), lines[-2]))
        cl = {"atom_id": "A", "res_id": ["A"] * n}
        bad = check_layout(lines, e, h36, cl)
        if bad:
            return fail("PDBFile.set_structure", "column_shift", klass, "layout law broken at %s: %s" % bad, "standard columns",
                        lines[-3:])
        rb = readback(lines, e, cl)
        if rb:
            return fail("PDBFile.get_structure", rb[0], klass, "read-back differs (%s)" % rb[3], rb[1] if d < 50 else str(rb[1])[:300],
                        rb[2] if d < 50 else str(rb[2])[:300])
        return
    # ---- INPUT ALIASING + arguments after an error ----------------------------------------------------------
    if what == "alias":
        name = case["item"]
        valid = name in REUSE_ITEMS
        if count:
            ctx.count("accepted" if valid else "refused")
        arr, h36 = reuse_build(name)
        snap = deep_canon(arr)
        f = PDBFile()
        try:
            f.set_structure(arr, hybrid36=h36)
            raised = False
        except Exception:  # noqa: BLE001
            raised = True
        ctx.outcome(("alias", name, raised))
        kl = "valid_structure" if valid else "refused_structure"
        if raised == valid:
            return fail("PDBFile.set_structure", "unexpected_exception" if raised else "not_refused", kl, "wrong acceptance", valid,
                        not raised)
        if deep_canon(arr) != snap:
            return fail("PDBFile.set_structure", "argument_modified", kl, "set_structure changed the structure it was given",
                        snap[0][:300], deep_canon(arr)[0][:300])
        if not valid:
            return
        ref_lines, ref_obs = reuse_ref(name)
        mutate_everything(arr)
        if [str(x) for x in f.lines] != ref_lines or reuse_observe(f) != ref_obs:
            return fail("PDBFile.set_structure", "shares_state_with_argument", kl,
                        "changing the structure after set_structure changed the file", ref_lines[:4], [str(x) for x in f.lines][:4])
        ef = list(EXTRA)
        wb = not REUSE_ITEMS[name].get("wrap_ids")  # wrapped serials are not increasing: CONECT cannot be resolved
        s = f.get_structure(extra_fields=ef, include_bonds=wb)
        s1 = f.get_structure(model=1, extra_fields=ef, include_bonds=wb)
        if ef != EXTRA:
            return fail("PDBFile.get_structure", "argument_modified", "extra_fields", "extra_fields list changed", EXTRA, ef)
        mutate_everything(s)
        mutate_everything(s1)
        for g in (f.get_coord(), f.get_coord(model=1), f.get_b_factor(), f.get_b_factor(model=-1)):
            g[...] = -1.0
        got = reuse_observe(f)
        for (gname, st, val), (_, rst, rval) in zip(got, ref_obs):
            if (st, val) != (rst, rval):
                return fail("PDBFile." + gname, "result_shares_state_with_file", kl,
                            "modifying a returned object changed what the file returns next", [rst, rval[:300]], [st, val[:300]])
        if [str(x) for x in f.lines] != ref_lines:
            return fail("PDBFile.getters", "result_shares_state_with_file", kl, "lines changed", ref_lines[:4],
                        [str(x) for x in f.lines][:4])
        return
    # ---- ARRAY FLAVOURS + ORDER INDEPENDENCE ---------------------------------------------------------------------
    if what == "flavours":
        stack, h36, (field, fl) = case["stack"], case["h36"], case["var"]
        klass = "%s_%s" % (field, fl)
        e = flavour_base(stack)

        def canonical():
            a = build(e, stack)
            a.bonds = struc.BondList(e["n"], np.array(FLAVOUR_BONDS, dtype=np.int64))
            return a

        f0 = PDBFile()
        f0.set_structure(canonical(), hybrid36=h36)
        ref_lines = [str(x) for x in f0.lines]
        strict = fl not in UNSPEC_FLAVOURS and not (field == "atom_id" and fl in ("int8", "int16", "uint8", "uint16")) \
            and not (field == "hetero" and fl == "int8")
        if count:
            ctx.count("accepted" if strict else "unspecified")
        if field in ("model_arg", "extra_fields"):
            try:
                if field == "model_arg":
                    want = [canon_result(f0.get_structure(model=k, extra_fields=EXTRA)) for k in (1, -1)] + [
                        canon_result(f0.get_coord(model=1)), canon_result(f0.get_b_factor(model=-1))]
                    got = [canon_result(f0.get_structure(model=_as_type(k, fl), extra_fields=EXTRA)) for k in
                           ((1, -1) if fl[0] != "u" else (1, e["m"]))]
                    if fl[0] == "u":
                        want[1] = canon_result(f0.get_structure(model=e["m"], extra_fields=EXTRA))
                    got += [canon_result(f0.get_coord(model=_as_type(1, fl))),
                            canon_result(f0.get_b_factor(model=_as_type(-1 if fl[0] != "u" else e["m"], fl)))]
                else:
                    want = canon_result(f0.get_structure(extra_fields=EXTRA))
                    ef = {"tuple": tuple(EXTRA), "ndarray": np.array(EXTRA), "reversed": EXTRA[::-1]}[fl]
                    got = canon_result(f0.get_structure(extra_fields=ef))
            except Exception as x:  # noqa: BLE001
                ctx.outcome(("flavour", klass, "raised", type(x).__name__))
                if strict:
                    fail("PDBFile.get_structure", "unexpected_" + type(x).__name__, klass, "argument of another type refused",
                         "result", repr(x)[:200])
                return
            ctx.outcome(("flavour", klass, "returned"))
            if got != want:
                fail("PDBFile.get_structure", "result_depends_on_argument_type", klass, "result differs from the plain-int / list call",
                     str(want)[:300], str(got)[:300])
            return
        arr = canonical()
        flag = h36
        if field == "hybrid36_flag":
            flag = np.bool_(h36) if fl == "numpy_bool" else int(h36)
        else:
            try:
                apply_flavour(arr, e, stack, field, fl)
            except Exception as x:  # noqa: BLE001
                # the container itself does not take this representation: nothing to write
                ctx.count("flavour_not_constructible")
                ctx.outcome(("flavour", klass, "not constructible", type(x).__name__))
                return
            if field in ("res_id", "atom_id", "charge") and fl in INT_DTYPES and arr.get_annotation(field).dtype.kind not in "iu":
                # AtomArray.set_annotation promotes uint64 together with its own int64 default to float64 (atoms.py,
                # property C01): the PDB code never sees an integer array of this flavour
                ctx.count("flavour_changed_by_container")
                ctx.outcome(("flavour", klass, "container stores", str(arr.get_annotation(field).dtype)))
                return
        f = PDBFile()
        try:
            f.set_structure(arr, hybrid36=flag)
        except Exception as x:  # noqa: BLE001
            ctx.outcome(("flavour", klass, "raised", type(x).__name__))
            if strict:
                fail("PDBFile.set_structure", "unexpected_" + type(x).__name__, klass,
                     "same values in another array representation were refused", "file", "%s: %s" % (type(x).__name__, str(x)[:200]))
            return
        lines = [str(x) for x in f.lines]
        ctx.outcome(("flavour", klass, tuple(lines)))

        def conect_pairs(lns):  # order of records / partners is not prescribed: compare as a set of pairs
            out = set()
            for ln in lns:
                if ln.startswith("CONECT"):
                    c, ps = M.split_conect_line(ln)
                    out |= {frozenset((c.strip(), q.strip())) for q in ps}
            return out

        if field == "bonds":
            same = conect_pairs(lines) == conect_pairs(ref_lines)
            lines = [ln for ln in lines if not ln.startswith("CONECT")] + ["CONECT (as a set)"] * (not same)
            ref_lines = [ln for ln in ref_lines if not ln.startswith("CONECT")]
        if lines != ref_lines:
            k = next((i for i, (a, b) in enumerate(zip(lines, ref_lines)) if a != b), min(len(lines), len(ref_lines)))
            fail("PDBFile.set_structure", "lines_depend_on_array_flavour", klass,
                 "same values in another array representation give another file", ref_lines[k:k + 2], lines[k:k + 2])
        return
    if what in ("model_range", "ambient", "altloc"):
        return run_third_case(ctx, case, count, fail)
    # ---- DERIVED INPUTS: structures handed out by the library itself, written like directly built ones -----------
    if what == "derived":
        if count:
            ctx.count("accepted")
        got, want = derived_lines(case["item"], case["how"])
        ctx.outcome(("derived", case["item"], case["how"], tuple(got) if isinstance(got, list) else got))
        if isinstance(got, str) and got.startswith("derivation_failed"):
            ctx.count("derivation_not_offered_by_container")  # e.g. AtomArray[...]: indexing is property C01's business
            return
        if isinstance(got, str):
            return fail("PDBFile.set_structure", got, "derived_" + case["how"], "structure derived by the library refused / not derivable",
                        "file", got)
        if got != want:
            k = next((i for i, (a, b) in enumerate(zip(got, want)) if a != b), min(len(got), len(want)))
            return fail("PDBFile.set_structure", "lines_depend_on_derivation", "derived_" + case["how"],
                        "a structure obtained through %s gives another file than the same structure built directly" % case["how"],
                        want[k:k + 3], got[k:k + 3])
        return
    # ---- EMPTY PIECES ------------------------------------------------------------------------------------------
    if what == "empty":
        kind, m, n = case["shape"]
        if count:
            ctx.count("unspecified")
        arr = struc.AtomArrayStack(m, n) if kind == "stack" else struc.AtomArray(n)
        if n:
            arr.coord[...] = 0.0
        f = PDBFile()
        try:
            f.set_structure(arr, hybrid36=case["h36"])
        except Exception as x:  # noqa: BLE001
            ctx.outcome(("empty", kind, m, n, "raised", type(x).__name__))
            return
        lines = [str(x) for x in f.lines]
        ctx.outcome(("empty", kind, m, n, tuple(lines)))
        if any(ln.startswith(("ATOM", "HETATM")) for ln in lines):
            return fail("PDBFile.set_structure", "atoms_from_nothing", "empty_structure", "ATOM record for a structure without atoms",
                        [], lines[:4])
        try:
            g = PDBFile.read(io.StringIO("\n".join(lines) + "\n"))
            s = g.get_structure()
        except Exception:  # noqa: BLE001
            return
        if s.array_length() != 0 and s.stack_depth() != 0:
            fail("PDBFile.get_structure", "roundtrip_atom_count", "empty_structure", "atoms read from a file without ATOM records", 0,
                 [s.stack_depth(), s.array_length()])
        return
    # ---- I/O PATHS / PARSE STATE -------------------------------------------------------------------------------
    if what == "io":
        name, path = case["item"], case["path"]
        strict = path in ("stringio", "file", "fileobj", "rstrip")
        if count:
            ctx.count("accepted" if strict else "unspecified")
        ref_lines, ref_obs = reuse_ref(name)
        arr, h36 = reuse_build(name)
        f = PDBFile()
        f.set_structure(arr, hybrid36=h36)
        try:
            if path == "copy":
                g = f.copy()
                if g is f or g.lines is f.lines:
                    return fail("PDBFile.copy", "result_is_operand", "io_copy", "copy() returned the file itself / shares its line list",
                                "new object", "same object")
                g.lines.append("REMARK 999 edit of the copy")
                if [str(x) for x in f.lines] != ref_lines:
                    return fail("PDBFile.copy", "result_shares_state_with_operand", "io_copy", "editing the copy changed the original",
                                ref_lines[-2:], [str(x) for x in f.lines][-2:])
                g.lines.pop()
                obs = reuse_observe(g)
                indexed = ("get_model_count", "get_structure", "get_coord", "get_b_factor")  # need the line indices
                if all(st == "exc" for gname, st, _ in obs if gname.startswith(indexed)):
                    # unspecified for C07: copy() carries the lines but not the indices; what works must still agree
                    for (gname, st, val), (_, rst, rval) in zip(obs, ref_obs):
                        if not gname.startswith(indexed) and (st, val) != (rst, rval):
                            return fail("PDBFile.copy", "stale_" + gname, "io_copy", "%s of the copy differs" % gname,
                                        [rst, rval[:300]], [st, val[:300]])
                    ctx.outcome(("io", name, path, "copy unusable"))
                    ctx.count("copy_getters_raise")
                    return
            else:
                buf = io.StringIO()
                if path in ("file", "fileobj"):
                    with tempfile.TemporaryDirectory(dir=str(loader.BUILD)) as d:
                        fn = os.path.join(d, "x.pdb")
                        f.write(fn)
                        if path == "file":
                            g = PDBFile.read(fn)
                        else:
                            with open(fn) as fh:
                                g = PDBFile.read(fh)
                else:
                    f.write(buf)
                    text = buf.getvalue()
                    if path == "rstrip":
                        text = "\n".join(ln.rstrip() for ln in text.split("\n"))
                    elif path == "crlf":
                        text = text.replace("\n", "\r\n")
                    g = PDBFile.read(io.StringIO(text))
                obs = reuse_observe(g)
        except Exception as x:  # noqa: BLE001
            ctx.outcome(("io", name, path, "raised", type(x).__name__))
            if strict:
                fail("PDBFile.read", "unexpected_" + type(x).__name__, "io_" + path, "written file not readable through this path",
                     "file object", repr(x)[:200])
            return
        ctx.outcome(("io", name, path, "ok"))
        for (gname, st, val), (_, rst, rval) in zip(obs, ref_obs):
            if (st, val) != (rst, rval):
                return fail("PDBFile.read", "stale_" + gname, "io_" + path,
                            "%s after write()/read() differs from the object that was written" % gname, [rst, rval[:300]], [st, val[:300]])
        return
    raise ValueError(case)


# ---------------------------------------------------------------------------
# derived inputs (second audit, dimension E)
# ---------------------------------------------------------------------------
DERIVATIONS = ["copy", "slice_all", "ellipsis", "strided", "reversed", "perm", "mask", "mask_all", "index_list", "tail",
               "concatenate", "plus", "stack_model", "stack_last_model", "stack_slice1", "stack_models_rev", "stack_atoms",
               "stack_of_arrays", "from_template", "readback_all", "readback_first", "readback_twice"]


def derivation_applies(name, how):
    spec = REUSE_ITEMS[name]
    if how.startswith("stack_") and how != "stack_of_arrays":
        return spec["stack"]
    if how in ("stack_of_arrays", "from_template"):
        return not spec["stack"] and not spec.get("box")
    if how in ("perm", "reversed", "concatenate", "plus"):
        return not spec.get("big_ids") and not spec.get("wrap_ids")  # keep explicit serial numbers meaningful
    return True


def _atom_index(how, n):
    return {
        "strided": list(range(0, n, 2)), "reversed": list(range(n - 1, -1, -1)),
        "perm": [(p * 2 + 1) % n for p in range(n)] if n % 2 else list(range(1, n)) + [0],
        "mask": [p for p in range(n) if p != 1] if n > 1 else [0], "mask_all": list(range(n)),
        "index_list": [n - 1, 0] if n > 1 else [0], "tail": list(range(n // 2, n)), "stack_atoms": list(range(0, n, 2)),
    }[how]


def _lines_of(arr, h36):
    from biotite.structure.io.pdb import PDBFile

    f = PDBFile()
    f.set_structure(arr, hybrid36=h36)
    lines = [str(x) for x in f.lines]
    pairs = set()
    for ln in lines:
        if ln.startswith("CONECT"):
            c, ps = M.split_conect_line(ln)
            pairs |= {frozenset((c.strip(), q.strip())) for q in ps}
    return [ln for ln in lines if not ln.startswith("CONECT")] + sorted("CONECT " + "-".join(sorted(p)) for p in pairs)


def derived_lines(name, how):
    """(lines from the derived object, lines from the directly built equivalent); CONECT as a sorted pair list."""
    import biotite.structure as struc
    from biotite.structure.io.pdb import PDBFile

    spec = REUSE_ITEMS[name]
    base, h36 = reuse_build(name)
    n, m = spec["n"], spec["m"]
    direct, _ = reuse_build(name)  # second, independent instance: the expected object is assembled from its arrays
    try:
        if how == "copy":
            d, x = base.copy(), direct
        elif how == "slice_all":
            d, x = base[..., :], direct
        elif how == "ellipsis":
            d, x = base[...], direct
        elif how in ("strided", "reversed", "perm", "mask", "mask_all", "index_list", "tail", "stack_atoms"):
            idx = _atom_index(how, n)
            if how == "strided" or how == "stack_atoms":
                d = base[..., ::2]
            elif how == "reversed":
                d = base[..., ::-1]
            elif how in ("mask", "mask_all"):
                d = base[..., np.array([p in idx for p in range(n)])]
            elif how == "tail":
                d = base[..., n // 2:]
            elif how == "index_list":
                d = base[..., idx]
            else:
                d = base[..., np.array(idx)]
            x = rebuild_selected(direct, idx, list(range(m)) if spec["stack"] else None)
        elif how in ("concatenate", "plus"):
            d = struc.concatenate([base, base]) if how == "concatenate" else base + base
            x = rebuild_selected(direct, list(range(n)) * 2, list(range(m)) if spec["stack"] else None, repeat=True)
        elif how == "stack_model":
            d, x = base[0], rebuild_selected(direct, list(range(n)), 0)
        elif how == "stack_last_model":
            d, x = base[-1], rebuild_selected(direct, list(range(n)), m - 1)
        elif how == "stack_slice1":
            d, x = base[m - 1:m], rebuild_selected(direct, list(range(n)), [m - 1])
        elif how == "stack_models_rev":
            d, x = base[::-1], rebuild_selected(direct, list(range(n)), list(range(m - 1, -1, -1)))
        elif how == "stack_of_arrays":
            second = base.copy()
            second.coord = second.coord + np.float32(2.5)
            d = struc.stack([base, second])
            x = rebuild_selected(direct, list(range(n)), None, extra_model=np.float32(2.5))
        elif how == "from_template":
            d = struc.from_template(base, np.stack([base.coord, base.coord + np.float32(2.5)]))
            x = rebuild_selected(direct, list(range(n)), None, extra_model=np.float32(2.5))
        elif how.startswith("readback"):
            f = PDBFile()
            f.set_structure(base, hybrid36=h36)
            wb = bool(spec.get("bonds"))
            g = PDBFile.read(io.StringIO("\n".join(str(v) for v in f.lines) + "\n"))
            d = g.get_structure(extra_fields=EXTRA, include_bonds=wb) if how != "readback_first" else \
                g.get_structure(model=1, extra_fields=EXTRA, include_bonds=wb)
            if how == "readback_twice":
                f2 = PDBFile()
                f2.set_structure(d, hybrid36=h36)
                d = PDBFile.read(io.StringIO("\n".join(str(v) for v in f2.lines) + "\n")).get_structure(
                    extra_fields=EXTRA, include_bonds=wb)
            if how == "readback_first":
                x = rebuild_selected(direct, list(range(n)), 0 if spec["stack"] else None)
            else:
                x = direct if spec["stack"] else rebuild_selected(direct, list(range(n)), None, as_stack=True)
        else:
            raise ValueError(how)
    except Exception as e:  # noqa: BLE001
        return "derivation_failed_" + type(e).__name__, None
    want = _lines_of(x, h36)
    try:
        got = _lines_of(d, h36)
    except Exception as e:  # noqa: BLE001
        return "unexpected_" + type(e).__name__, want
    if how.startswith("readback") and spec.get("wrap_ids"):
        # the ids came back wrapped; writing them again gives the same text as writing the unwrapped ones
        pass
    return got, want


def rebuild_selected(src, idx, models, repeat=False, extra_model=None, as_stack=False):
    """Directly constructed structure holding atoms idx (and models) of src: new contiguous arrays, new BondList."""
    import biotite.structure as struc

    is_stack = isinstance(src, struc.AtomArrayStack)
    n = len(idx)
    coord = np.asarray(src.coord)
    if is_stack:
        if isinstance(models, int):
            out = struc.AtomArray(n)
            out.coord = np.array(coord[models][idx], dtype=np.float32)
        else:
            out = struc.AtomArrayStack(len(models), n)
            out.coord = np.array(coord[models][:, idx], dtype=np.float32)
    elif extra_model is not None:
        out = struc.AtomArrayStack(2, n)
        out.coord = np.array(np.stack([coord[idx], coord[idx] + extra_model]), dtype=np.float32)
    elif as_stack:
        out = struc.AtomArrayStack(1, n)
        out.coord = np.array(coord[idx][None], dtype=np.float32)
    else:
        out = struc.AtomArray(n)
        out.coord = np.array(coord[idx], dtype=np.float32)
    for cat in src.get_annotation_categories():
        out.set_annotation(cat, np.array(src.get_annotation(cat)[idx].tolist(), dtype=src.get_annotation(cat).dtype))
    if src.box is not None:
        box = np.asarray(src.box)
        if is_stack:
            out.box = np.array(box[models], dtype=np.float32)
        elif isinstance(out, struc.AtomArrayStack):
            out.box = np.array(np.repeat(box[None], out.stack_depth(), axis=0), dtype=np.float32)
        else:
            out.box = np.array(box, dtype=np.float32)
    if src.bonds is not None:
        rows = []
        old = [tuple(int(v) for v in r) for r in src.bonds.as_array()]
        if repeat:
            half = n // 2
            rows = [[i, j, t] for i, j, t in old] + [[i + half, j + half, t] for i, j, t in old]
        else:
            pos = {o: k for k, o in enumerate(idx)}
            rows = [[pos[i], pos[j], t] for i, j, t in old if i in pos and j in pos]
        out.bonds = struc.BondList(n, np.array(rows, dtype=np.int64).reshape(-1, 3))
    return out


# ---------------------------------------------------------------------------
# third audit: arguments that refer to more than the file has (F), ambient state as an event (G),
# boundary values of the occupancy the altloc policy compares (I)
# ---------------------------------------------------------------------------
AMBIENT_STATES = ["errstate_raise", "errstate_ignore", "printoptions", "warnings_error"]
OCC_POLICY = {"absent": None, "all_zero": [0.0, 0.0, 0.0], "all_one": [1.0, 1.0, 1.0], "all_equal": [0.5, 0.5, 0.5],
              "all_negative": [-1.0, -1.0, -1.0], "first_not_max": [0.0, 1.0, 0.0], "mixed": [1.0, 0.0, 0.5],
              "max_shared": [0.75, 0.75, 0.25]}


class _Ambient:
    """Context manager that puts one piece of ambient interpreter state into an unusual setting."""

    def __init__(self, state, active):
        self.state, self.active, self.cms = state, active, []

    def __enter__(self):
        if not self.active:
            return self
        if self.state == "errstate_raise":
            self.cms = [np.errstate(all="raise")]
        elif self.state == "errstate_ignore":
            self.cms = [np.errstate(all="ignore")]
        elif self.state == "printoptions":
            self.cms = [np.printoptions(precision=1, threshold=1, edgeitems=1, linewidth=10, suppress=True, sign="+",
                                        floatmode="fixed", legacy="1.13")]
        elif self.state == "warnings_error":
            cm = warnings.catch_warnings()
            self.cms = [cm]
        for cm in self.cms:
            cm.__enter__()
        if self.state == "warnings_error":
            warnings.simplefilter("error")
        return self

    def __exit__(self, *a):
        for cm in reversed(self.cms):
            cm.__exit__(*a)
        return False


def run_third_case(ctx, case, count, fail):
    from biotite.structure.io.pdb import PDBFile

    what = case["what"]
    # ---- F: model numbers / fields beyond what the file holds, in both directions ---------------------------
    if what == "model_range":
        name = case["item"]
        m = REUSE_ITEMS[name]["m"]
        ref_lines, ref_obs = reuse_ref(name)
        arr, h36 = reuse_build(name)
        f = PDBFile()
        f.set_structure(arr, hybrid36=h36)
        for k in (0, m + 1, m + 2, -(m + 1), -(m + 2), 10 ** 6, -(10 ** 6)):
            klass = "zero" if k == 0 else ("positive_beyond_last_model" if k > 0 else "negative_beyond_first_model")
            for gname in ("get_structure", "get_coord", "get_b_factor"):
                if count:
                    ctx.ev(1, 1)
                    ctx.count("refused")
                try:
                    r = getattr(f, gname)(model=k)
                    got = ("returned", canon_result(r)[:200])
                except Exception as x:  # noqa: BLE001
                    got = ("raised", type(x).__name__)
                ctx.outcome(("model_range", name, k, gname, got[0]))
                if got[0] != "raised":
                    return fail("PDBFile.getters", "nonexistent_model_not_refused", klass,
                                "%s(model=%d) on a file with %d model(s) returned something" % (gname, k, m), "an exception", got[1])
        if count:
            ctx.ev(1, 1)
            ctx.count("refused")
        try:
            f.get_structure(model=1, extra_fields=["b_factor", "no_such_field"])
            return fail("PDBFile.get_structure", "unknown_field_not_refused", "extra_field_beyond_the_known_ones", "accepted", "ValueError",
                        "returned")
        except Exception:  # noqa: BLE001
            pass
        obs = reuse_observe(f)
        if obs != ref_obs or [str(x) for x in f.lines] != ref_lines:
            bad = next(g for (g, a, b), (_, c, d) in zip(obs + [("lines", 0, 0)], ref_obs + [("lines", 1, 1)]) if (a, b) != (c, d))
            return fail("PDBFile.getters", "refused_call_changed_state", "after_out_of_range_model",
                        "%s differs after refused getter calls" % bad, "unchanged", bad)
        return
    # ---- G: ambient interpreter state changes between / during the operations ---------------------------------
    if what == "ambient":
        name, state, phase = case["item"], case["state"], case["phase"]
        strict = state in ("printoptions", "errstate_ignore")
        klass = "ambient_%s_during_%s" % (state, phase)
        if name in REUSE_BAD:
            if count:
                ctx.count("refused")
            arr, h36 = reuse_build(name)
            f = PDBFile()
            f.lines = [SENTINEL]
            try:
                with _Ambient(state, True):
                    f.set_structure(arr, hybrid36=h36)
                raised = False
            except Exception:  # noqa: BLE001
                raised = True
            ctx.outcome(("ambient", name, state, raised))
            if not raised or list(f.lines) != [SENTINEL]:
                return fail("PDBFile.set_structure", "not_refused" if not raised else "state_changed_on_refusal", klass,
                            "invalid structure under another ambient state", "refusal, lines untouched", [str(x) for x in f.lines][:3])
            return
        if count:
            ctx.count("accepted" if strict else "unspecified")
        ref_lines, ref_obs = reuse_ref(name)
        arr, h36 = reuse_build(name)
        f = PDBFile()
        try:
            with _Ambient(state, phase in ("write", "both")):
                f.set_structure(arr, hybrid36=h36)
            lines = [str(x) for x in f.lines]
            with _Ambient(state, phase in ("read", "both")):
                g = PDBFile.read(io.StringIO("\n".join(lines) + "\n"))
                obs = reuse_observe(g)
                obs_same_object = reuse_observe(f)
        except Exception as x:  # noqa: BLE001  (reuse_observe catches getter errors itself)
            ctx.outcome(("ambient", name, state, phase, "raised", type(x).__name__))
            if strict:
                return fail("PDBFile.set_structure", "unexpected_" + type(x).__name__, klass,
                            "valid structure refused under another ambient state", "file", repr(x)[:200])
            return
        ctx.outcome(("ambient", name, state, phase, "ok"))
        if [ln.rstrip() for ln in lines] != [ln.rstrip() for ln in ref_lines]:
            k = next((i for i, (a, b) in enumerate(zip(lines, ref_lines)) if a != b), 0)
            return fail("PDBFile.set_structure", "lines_depend_on_ambient_state", klass, "written lines differ", ref_lines[k:k + 2],
                        lines[k:k + 2])
        for o in (obs, obs_same_object):
            for (gname, st, val), (_, rst, rval) in zip(o, ref_obs):
                if (st, val) != (rst, rval):
                    if st == "exc" and not strict:
                        continue  # the state turns warnings / floating point flags into exceptions: unspecified
                    return fail("PDBFile." + gname, "result_depends_on_ambient_state", klass, "getter result differs",
                                [rst, rval[:300]], [st, val[:300]])
        return
    # ---- I: boundary values of the occupancy that the altloc policy compares ---------------------------------------
    if what == "altloc":
        stack, occ, opt = case["stack"], OCC_POLICY[case["occ"]], case["option"]
        if count:
            ctx.count("accepted")
        e = flavour_base(stack)
        e["res_id"], e["ins_code"], e["chain_id"] = [1, 1, 2], ["", "", ""], ["A", "A", "A"]
        e["occupancy"] = occ
        f = PDBFile()
        f.set_structure(build(e, stack))
        g = PDBFile.read(io.StringIO("\n".join(str(x) for x in f.lines) + "\n"))
        cl = {"atom_id": "A", "res_id": ["A"] * 3}
        try:
            got = [("get_structure(altloc=%r)" % opt, g.get_structure(altloc=opt, extra_fields=EXTRA), list(range(e["m"])))]
            for k in range(1, e["m"] + 1):
                got.append(("get_structure(model=%d, altloc=%r)" % (k, opt), g.get_structure(model=k, altloc=opt, extra_fields=EXTRA),
                            [k - 1]))
        except Exception as x:  # noqa: BLE001
            return fail("PDBFile.get_structure", "unexpected_" + type(x).__name__, "altloc_%s_occupancy_%s" % (opt, case["occ"]),
                        "file without alternate locations not readable with this altloc option", "structure", repr(x)[:200])
        ctx.outcome(("altloc", stack, case["occ"], opt, got[0][1].array_length()))
        for tag, s_, mm in got:
            bad = compare(s_, e, mm, cl, tag)
            if bad:
                return fail("PDBFile.get_structure", "roundtrip_" + bad[0], "altloc_%s_occupancy_%s" % (opt, case["occ"]),
                            "atoms of a file without alternate locations dropped / changed by the altloc policy (%s)" % tag, bad[1],
                            bad[2])
            if opt == "all" and [str(v).strip() for v in s_.altloc_id] != [""] * 3:
                return fail("PDBFile.get_structure", "altloc_id_invented", "altloc_all", "non-blank altloc id", [" "] * 3,
                            s_.altloc_id.tolist())
        return
    raise ValueError(case)
