"""C15 - geometry is rigid-motion invariant; periodic helpers act by lattice vectors.

E2: complete enumeration of point tuples on small integer lattices x the 24
proper rotations of the cube x integer translations (exact in float32), all
shape/broadcast combinations, every unit cell of an angle/length palette, all
fractional-grid displacement pairs per box and every bond graph on <= 4 atoms
wrapped across box faces; compared with textbook float64 formulas and
brute-force minimum images from mc/models/geom.py.
"""

import itertools
import json
import math

import numpy as np

from mc.models import geom

ID = "C15"
LEVEL = "model_checking"
RULE = (
    "one evaluation = one measured value (a distance / angle / dihedral / displacement / moved coordinate / "
    "converted cell) compared with the reference.  Tuples: every ordered pair and triple of the 125 points of "
    "{-2..2}^3 and every ordered quadruple of the 27 points of {-1,0,1}^3, each under every listed rigid motion "
    "(no repeats: one shard per rotation x tuple chunk).  Boxes: every cell of the length x angle palette once; "
    "per box every (p1, p2) of the fractional 1/4 grid x lattice shifts once.  remove_pbc: every labelled graph on "
    "<= 4 vertices x geometry x wrap vector assignment once.  Non-trivial = the reference value is defined (no "
    "zero-length arm / collinear normal) and the tuple is not made of identical points; for periodic cases the "
    "pair differs by a non-zero lattice shift or the shortest image is not the plain difference; for remove_pbc at "
    "least one atom is wrapped and the graph has a bond."
)
ASSUMPTIONS = [
    "biotite casts every coordinate input to float32 (structure.coord()), so tolerances are float32-derived: "
    "distance 4 ulp relative; angle compared through its cosine (8 ulp absolute) because arccos amplifies 1 ulp to "
    "3e-4 rad near 0 and pi; dihedral 32 ulp divided by the sines of the two bond angles (conditioning of atan2 of "
    "normalised cross products); generic rotations 1e-5 (distance), 2e-5 (cosine), 1e-4 / conditioning (dihedral)",
    "cube-group rotations and integer translations are applied by the harness in integer arithmetic (exact); "
    "biotite's own translate/rotate/rotate_centered/rotate_about_axis/align_vectors/orient_principal_components are "
    "checked to be the documented rigid motion in the 'transform' shards",
    "periodic: the displacement must differ from the plain difference by a lattice vector always; its length must be "
    "the brute-force minimum over 7^3 images for orthorhombic boxes always and for triclinic boxes when that minimum "
    "is < (half the smallest box height - 1e-3); beyond that range minimality is class EITHER (counted)",
    "undefined textbook values (zero-length arm for angle; zero-length bond or collinear consecutive bonds for "
    "dihedral) are class EITHER: any value or NaN, but no exception",
    "is_orthogonal is only probed on boxes with edge lengths 2..9 whose pairwise dot products are exactly 0 or "
    ">= 0.5 in magnitude (its documented absolute tolerance 1e-6 is not probed)",
    "audit families: 'models' per-model boxes for 1..1000 models with pairwise different boxes; 'order' reversed "
    "argument order and index arrays in other dtypes / layouts (differential); 'alias' no anchored function modifies an "
    "array / AtomArray argument, documented copies do not share memory, a second call gives the same result, refused "
    "calls leave arguments alone; 'flavour' every float32 array argument also as float64 / Fortran / strided / read-only "
    "/ integer / list (lists for boxes, index arrays and the box helpers are class EITHER); 'edge' empty inputs are "
    "class EITHER (exception or correctly shaped empty result), one atom / one model / amount 0 are ordinary inputs; "
    "derived boxes rot:/perm:/skew: (rigidly turned cells, permuted rows, a.b straddling is_orthogonal's documented 1e-6)",
    "remove_pbc: the bonded-pair demand is made for (graph, geometry) pairs whose true bonded distances are all "
    "below half the smallest box height (the unwrapped molecule is then uniquely determined); other graphs only "
    "have to move atoms by lattice vectors",
]
EXHAUSTIVE = True
SHARD_TIMEOUT = {"quick": 900, "thorough": 3000}

EPS = 2.0 ** -23

L5 = [-2, -1, 0, 1, 2]
L3 = [-1, 0, 1]
P125 = np.array(list(itertools.product(L5, repeat=3)), dtype=np.int64)
P27 = np.array(list(itertools.product(L3, repeat=3)), dtype=np.int64)
ROTS = geom.cube_rotations()
TRANS_ALL = [list(t) for t in itertools.product([-3, 0, 7], repeat=3)]
TRANS_QUICK = [[0, 0, 0], [7, 7, 7], [-3, -3, -3], [-3, 0, 7], [7, -3, 0]]
# generic motions (axis, angle, translation); VERIF_SEED rotates which three are used at quick tier
GENERIC = [
    ([1, 2, 3], 0.1, [0.37, -5.2, 11.1]),
    ([1, 2, 3], 1.0, [0.0, 0.0, 0.0]),
    ([-2, 1, 0.5], 2.5, [3.3, 3.3, -3.3]),
    ([0, 0, 1], 1.0, [100.25, -40.5, 7.75]),
    ([1, -1, 1], 2.5, [-0.125, 0.5, 2.0]),
    ([3, 0, -1], 0.1, [9.9, -9.9, 0.1]),
]
ANGLES_DEG = [60.0, 75.0, 90.0, 110.0]
# cell edge palettes; VERIF_SEED picks the second one used next to palette 0
LENGTHS = [[3.0, 4.0, 5.0], [5.0, 5.0, 5.0], [2.0, 5.0, 9.0], [4.0, 3.0, 6.0], [6.0, 2.5, 3.5]]
ORTHO_EXTRA = [[3.0, 3.0, 3.0], [2.0, 5.0, 9.0]]
INT_BOXES = {
    "t1": [[3, 0, 0], [1, 3, 0], [0, 1, 3]],
    "t2": [[4, 0, 0], [2, 3, 0], [1, 1, 3]],
    "lefthanded": [[0, 3, 0], [4, 0, 0], [0, 0, 5]],      # orthorhombic, permuted (negative determinant)
    "rot_ortho": [[0, 0, 3], [4, 0, 0], [0, 5, 0]],
    "upper": [[4, 1, 1], [0, 4, 1], [0, 0, 4]],           # not lower-triangular
    "full": [[4, 1, 0], [-1, 5, 1], [1, 0, 6]],
}


def cells():
    """[(name, lengths, angles_deg)] of every palette cell with positive volume."""
    out = []
    for li, ln in enumerate(LENGTHS):
        for al, be, ga in itertools.product(ANGLES_DEG, repeat=3):
            b = geom.unitcell_vectors(*ln, math.radians(al), math.radians(be), math.radians(ga))
            if b is None:
                continue
            out.append(("c%d_%g_%g_%g" % (li, al, be, ga), ln, [al, be, ga]))
    return out


CELLS = cells()


def box_of(name):
    """float32 box (as biotite stores it) for a cell / integer-box name, returned as float64 values"""
    if name in INT_BOXES:
        return np.array(INT_BOXES[name], dtype=np.float32).astype(np.float64)
    if name.startswith("rot:"):          # rot:<base>:<cube rotation index>  - the same lattice turned rigidly
        _, base, ri = name.split(":")
        return box_of(base) @ np.asarray(ROTS[int(ri)], dtype=np.float64).T
    if name.startswith("perm:"):         # perm:<base>:<row order>          - the same lattice, rows in another order
        _, base, pr = name.split(":")
        return box_of(base)[[int(c) for c in pr]]
    if name.startswith("skew:"):         # unit-ish box whose a.b straddles is_orthogonal's tolerance 1e-6
        sk = float(name.split(":")[1])
        return np.array([[1.5, 0, 0], [sk / 1.5, 2.0, 0], [0, 0, 2.5]], dtype=np.float32).astype(np.float64)
    if name.startswith("o_"):
        ln = [float(x) for x in name[2:].split("_")]
        return np.diag(ln).astype(np.float32).astype(np.float64)
    for n, ln, ang in CELLS:
        if n == name:
            b = geom.unitcell_vectors(*ln, *(math.radians(a) for a in ang))
            b[np.abs(b) < 1e-9] = 0.0
            return b.astype(np.float32).astype(np.float64)
    raise KeyError(name)


def box_is_ortho(box):
    g = box @ box.T
    return abs(g[0, 1]) < 1e-4 and abs(g[0, 2]) < 1e-4 and abs(g[1, 2]) < 1e-4


def box_names(seed, tier):
    pal = [0, 1 + seed % (len(LENGTHS) - 1)] if tier == "quick" else list(range(len(LENGTHS)))
    names = ["o_%g_%g_%g" % tuple(x) for x in ORTHO_EXTRA] + list(INT_BOXES)
    names += [n for n, _, _ in CELLS if int(n[1]) in pal]
    return names


def bounds(tier):
    return {
        "pairs": "all 15625 ordered pairs of {-2..2}^3", "triples": "all 1953125 ordered triples of {-2..2}^3",
        "quadruples": "all 531441 ordered quadruples of {-1,0,1}^3",
        "rotations": 24, "translations": len(TRANS_QUICK) if tier == "quick" else 27,
        "generic_motions": 3 if tier == "quick" else len(GENERIC),
        "cells": {"angles_deg": ANGLES_DEG, "length_palettes": LENGTHS, "valid_cells_per_palette": len(CELLS) // len(LENGTHS),
                  "palettes_used": 2 if tier == "quick" else len(LENGTHS), "extra_boxes": list(INT_BOXES) + ORTHO_EXTRA},
        "displacement_pairs_per_box": "p1 = (f1 + n1) B, f1 in {0,1/4,1/2,3/4}^3, n1 in %d shifts; p2 = (f2 + n2) B, "
                                      "n2 in {-2..2}^3; plus fractional differences {0,7/16,31/64,1/2,33/64,9/16,3/4}^3 "
                                      "x n2 from two p1" % (2 if tier == "quick" else 3),
        "unitcell": "lengths x {60,75,90,110}^3 and {89.99,90,90.01}^3 degrees x scales {1e-3, 1, 1e3}",
        "remove_pbc": "every graph on <= 4 labelled vertices (1+2+8+64) x 3 geometries x 4 boxes; wraps in {-1,0,1}^3 per "
                      "atom: %s" % ("<= 2 atoms wrapped (n=4 zigzag/straddle: <= 1)" if tier == "quick" else
                                    "all (n<=3), <= 3 atoms wrapped (n=4)"),
        "shapes": "every combination of (3,), (n,3), (m,n,3) and Atom/AtomArray/AtomArrayStack per argument",
    }


# ---------------------------------------------------------------------------
# helpers
# ---------------------------------------------------------------------------
def f32(x):
    return np.ascontiguousarray(np.asarray(x, dtype=np.float32))


def first_bad(mask):
    return int(np.flatnonzero(np.asarray(mask).reshape(-1))[0])


def motion_points(P, R, t):
    """integer points P (N,3) rotated by the integer matrix R and translated by the integer vector t: exact."""
    return P @ np.asarray(R).T + np.asarray(t)


class Reporter:
    """collects at most one violation per (signature) per shard-subcase, counts the rest"""

    def __init__(self, ctx, shard):
        self.ctx, self.shard = ctx, shard

    def bad(self, sig, what, focus, expected=None, observed=None, extra=None):
        case = {"kind": "shard", "shard": self.shard, "focus": focus}
        if extra:
            case["detail"] = extra
        self.ctx.violation(sig, what, case, expected=expected, observed=observed)


def call(rep, sig_site, focus, fn, *args, **kw):
    """run a biotite call that must succeed; report an exception as a violation and return None"""
    try:
        with np.errstate(all="ignore"):
            return fn(*args, **kw)
    except Exception as e:  # noqa: BLE001
        rep.bad("%s|raises_%s|%s" % (sig_site, type(e).__name__, focus.get("cls", "legal_input")),
                "legal input raised %s: %s" % (type(e).__name__, str(e)[:200]), focus, "value", type(e).__name__)
        return None


# ---------------------------------------------------------------------------
# distances (pairs)
# ---------------------------------------------------------------------------
def run_dist(shard, ctx, focus=None):
    import biotite.structure as struc

    rep = Reporter(ctx, shard)
    ri = shard["rot"]
    R = ROTS[ri]
    trans = TRANS_QUICK if ctx.tier == "quick" else TRANS_ALL
    ii, jj = np.divmod(np.arange(125 * 125), 125)
    A0, B0 = P125[ii], P125[jj]
    diff0 = B0 - A0
    dtb = np.sqrt((diff0 * diff0).sum(axis=1).astype(np.float64))
    nontriv = int((dtb > 0).sum())
    pairs = np.stack([ii, jj], axis=1)
    for ti, t in enumerate(trans):
        fc = {"trans": ti}
        if focus is not None and focus.get("trans") != ti:
            continue
        ctx.journal(json.dumps({"s": shard, "f": fc}))
        A = f32(motion_points(A0, R, t))
        B = f32(motion_points(B0, R, t))
        d = call(rep, "distance", fc, struc.distance, A, B)
        v = call(rep, "displacement", fc, struc.displacement, A, B)
        ctx.ev(2 * len(A), 2 * nontriv)
        ctx.count("accepted", 2 * len(A))
        if d is not None:
            if d.shape != dtb.shape:
                rep.bad("distance|bad_shape|n3_n3", "wrong result shape", fc, dtb.shape, d.shape)
            else:
                err = np.abs(d.astype(np.float64) - dtb)
                bad = ~(err <= 4 * EPS * dtb)
                if bad.any():
                    k = first_bad(bad)
                    rep.bad("distance|value|cube_motion", "distance differs from the textbook value / is not invariant",
                            fc, float(dtb[k]), float(d[k]), {"p1": A[k].tolist(), "p2": B[k].tolist()})
                ctx.outcome(("dist", d.tobytes()[:4000]))
        if v is not None:
            exp = diff0 @ np.asarray(R).T
            if v.shape != exp.shape or not np.array_equal(v.astype(np.float64), exp.astype(np.float64)):
                k = first_bad((v.astype(np.float64) != exp).any(axis=-1)) if v.shape == exp.shape else 0
                rep.bad("displacement|value|cube_motion", "displacement is not the rotated difference vector", fc,
                        exp[k].tolist(), np.asarray(v).reshape(-1, 3)[k].tolist() if v.shape == exp.shape else v.shape)
        # index variants on every index pair: ndarray, AtomArray, two-model stack
        C = f32(motion_points(P125, R, t))
        if d is not None and v is not None:
            arr = struc.AtomArray(125)
            arr.coord = C
            stk = struc.stack([arr, arr])
            stk.coord[1] = f32(motion_points(P125, ROTS[(ri + 7) % 24], trans[(ti + 1) % len(trans)]))
            for form, obj in (("ndarray", C), ("AtomArray", arr), ("AtomArrayStack", stk)):
                f2 = dict(fc, form=form)
                di = call(rep, "index_distance", f2, struc.index_distance, obj, pairs)
                vi = call(rep, "index_displacement", f2, struc.index_displacement, obj, pairs)
                ctx.ev(2 * len(pairs), 2 * nontriv)
                if di is None or vi is None:
                    continue
                if form == "AtomArrayStack":
                    ok = di.shape == (2, len(pairs)) and np.array_equal(di[0], d) and vi.shape == (2, len(pairs), 3) \
                        and np.array_equal(vi[0], v)
                    if ok:
                        d1 = struc.distance(stk.coord[1][ii], stk.coord[1][jj])
                        ok = np.array_equal(di[1], d1)
                else:
                    ok = di.shape == d.shape and np.array_equal(di, d) and vi.shape == v.shape and np.array_equal(vi, v)
                if not ok:
                    rep.bad("index_distance|differs_from_coordinate_variant|%s" % form,
                            "index_distance/index_displacement differ from distance/displacement of the indexed coordinates",
                            f2, "equal arrays", "different")


# ---------------------------------------------------------------------------
# angles (triples)
# ---------------------------------------------------------------------------
ANGLE_CHUNKS = 5


def run_angle(shard, ctx, focus=None):
    import biotite.structure as struc

    rep = Reporter(ctx, shard)
    R = ROTS[shard["rot"]]
    ch = shard["chunk"]
    trans = TRANS_QUICK if ctx.tier == "quick" else TRANS_ALL
    i0, i1 = ch * 25, ch * 25 + 25
    idx = np.arange(i0 * 125 * 125, i1 * 125 * 125)
    ii, rem = np.divmod(idx, 125 * 125)
    jj, kk = np.divmod(rem, 125)
    A0, B0, C0 = P125[ii], P125[jj], P125[kk]
    ctb, ok = geom.tb_angle_cos(A0, B0, C0)
    nontriv = int(ok.sum())
    collinear = ok & (np.abs(ctb) >= 1.0)
    trip = np.stack([ii, jj, kk], axis=1)
    for ti, t in enumerate(trans):
        fc = {"trans": ti}
        if focus is not None and focus.get("trans") != ti:
            continue
        ctx.journal(json.dumps({"s": shard, "f": fc}))
        A, B, C = (f32(motion_points(X, R, t)) for X in (A0, B0, C0))
        a = call(rep, "angle", fc, struc.angle, A, B, C)
        ctx.ev(len(A), nontriv)
        ctx.count("accepted", nontriv)
        ctx.count("unspecified", int((~ok).sum()))
        if a is None:
            continue
        judge_angle(rep, ctx, fc, a, ctb, ok, collinear, 8 * EPS, A, B, C)
        if ti == 0:
            P = f32(motion_points(P125, R, t))
            ai = call(rep, "index_angle", fc, struc.index_angle, P, trip)
            ctx.ev(len(trip), nontriv)
            if ai is not None and not (ai.shape == a.shape and np.array_equal(ai, a, equal_nan=True)):
                rep.bad("index_angle|differs_from_coordinate_variant|ndarray",
                        "index_angle differs from angle of the indexed coordinates", fc, "equal arrays", "different")


def judge_angle(rep, ctx, fc, a, ctb, ok, collinear, tol, A, B, C, motion="cube_motion"):
    if a.shape != ctb.shape:
        rep.bad("angle|bad_shape|n3", "wrong result shape", fc, ctb.shape, a.shape)
        return
    a64 = a.astype(np.float64)
    # atoms1 == atoms3 (the same atom twice) is not an angle between three atoms: class EITHER (0 or NaN)
    same13 = (np.asarray(A) == np.asarray(C)).all(axis=-1)
    ctx.count("unspecified", int((ok & same13).sum()))
    nan = np.isnan(a64) & ok & ~same13
    if nan.any():
        straight = nan & (ctb < 0)
        folded = nan & (ctb > 0)
        for name, m in (("collinear_straight", straight & collinear), ("collinear_folded", folded & collinear),
                        ("non_collinear", nan & ~collinear)):
            if m.any():
                k = first_bad(m)
                rep.bad("angle|nan|%s" % name, "angle of three distinct atoms is NaN (textbook value %s)"
                        % ("pi" if name == "collinear_straight" else "0" if name == "collinear_folded" else "finite"),
                        fc, float(math.acos(ctb[k])), "nan",
                        {"p1": A[k].tolist(), "p2": B[k].tolist(), "p3": C[k].tolist(), "count": int(m.sum())})
    good = ok & ~np.isnan(a64)
    bad = good & ~((np.abs(np.cos(a64) - ctb) <= tol) & (a64 >= 0) & (a64 <= math.pi + 4 * EPS))
    if bad.any():
        k = first_bad(bad)
        rep.bad("angle|value|%s" % motion, "angle differs from the textbook value / is not invariant", fc,
                float(math.acos(ctb[k])), float(a64[k]),
                {"p1": A[k].tolist(), "p2": B[k].tolist(), "p3": C[k].tolist(), "count": int(bad.sum())})
    ctx.outcome(("angle", a.tobytes()[:4000]))


# ---------------------------------------------------------------------------
# dihedrals (quadruples)
# ---------------------------------------------------------------------------
def quad_arrays():
    idx = np.arange(27 ** 4)
    a, r = np.divmod(idx, 27 ** 3)
    b, r = np.divmod(r, 27 ** 2)
    c, d = np.divmod(r, 27)
    return a, b, c, d


def dihedral_tol(p0, p1, p2, p3, base):
    b1, b2, b3 = p1 - p0, p2 - p1, p3 - p2
    n1, n2 = np.cross(b1, b2), np.cross(b2, b3)
    l1, l2, l3 = (np.sqrt((b * b).sum(axis=-1)) for b in (b1, b2, b3))
    with np.errstate(all="ignore"):
        s1 = np.sqrt((n1 * n1).sum(axis=-1)) / (l1 * l2)
        s2 = np.sqrt((n2 * n2).sum(axis=-1)) / (l2 * l3)
        return base / (s1 * s2)


def run_dihedral(shard, ctx, focus=None):
    import biotite.structure as struc

    rep = Reporter(ctx, shard)
    R = ROTS[shard["rot"]]
    trans = TRANS_QUICK if ctx.tier == "quick" else TRANS_ALL
    a, b, c, d = quad_arrays()
    Q = [P27[x] for x in (a, b, c, d)]
    tb, ok = geom.tb_dihedral(*Q)
    tol = dihedral_tol(*[q.astype(np.float64) for q in Q], 32 * EPS)
    nontriv = int(ok.sum())
    quad = np.stack([a, b, c, d], axis=1)
    for ti, t in enumerate(trans):
        fc = {"trans": ti}
        if focus is not None and focus.get("trans") != ti:
            continue
        ctx.journal(json.dumps({"s": shard, "f": fc}))
        M = [f32(motion_points(q, R, t)) for q in Q]
        v = call(rep, "dihedral", fc, struc.dihedral, *M)
        ctx.ev(len(a), nontriv)
        ctx.count("accepted", nontriv)
        ctx.count("unspecified", int((~ok).sum()))
        if v is None:
            continue
        judge_dihedral(rep, ctx, fc, v, tb, ok, tol, M)
        if ti == 0:
            P = f32(motion_points(P27, R, t))
            vi = call(rep, "index_dihedral", fc, struc.index_dihedral, P, quad)
            ctx.ev(len(quad), nontriv)
            if vi is not None and not (vi.shape == v.shape and np.array_equal(vi, v, equal_nan=True)):
                rep.bad("index_dihedral|differs_from_coordinate_variant|ndarray",
                        "index_dihedral differs from dihedral of the indexed coordinates", fc, "equal arrays", "different")


def judge_dihedral(rep, ctx, fc, v, tb, ok, tol, M, motion="cube_motion"):
    if v.shape != tb.shape:
        rep.bad("dihedral|bad_shape|n3", "wrong result shape", fc, tb.shape, v.shape)
        return
    v64 = v.astype(np.float64)
    nan = np.isnan(v64) & ok
    if nan.any():
        k = first_bad(nan)
        rep.bad("dihedral|nan|defined_dihedral", "dihedral with a defined textbook value is NaN", fc, float(tb[k]), "nan",
                {"p": [m[k].tolist() for m in M]})
    good = ok & ~np.isnan(v64)
    bad = good & ~(geom.ang_diff(v64, tb) <= tol)
    if bad.any():
        k = first_bad(bad)
        rep.bad("dihedral|value|%s" % motion, "dihedral differs from the textbook value / is not invariant", fc,
                float(tb[k]), float(v64[k]), {"p": [m[k].tolist() for m in M], "count": int(bad.sum())})
    ctx.outcome(("dihedral", v.tobytes()[:4000]))


# ---------------------------------------------------------------------------
# generic rigid motions (tolerance 1e-5 class)
# ---------------------------------------------------------------------------
def run_generic(shard, ctx, focus=None):
    import biotite.structure as struc

    rep = Reporter(ctx, shard)
    gi = shard["motion"]
    axis, ang, t = GENERIC[gi]
    Rm = geom.rot_axis(axis, ang)
    fc = {"motion": gi}
    ctx.journal(json.dumps({"s": shard}))

    def mv(P):
        return f32(geom.apply_rot(P, Rm) + np.array(t))

    what = shard["what"]
    if what == "dist":
        ii, jj = np.divmod(np.arange(125 * 125), 125)
        A0, B0 = P125[ii], P125[jj]
        dtb = geom.tb_distance(A0, B0)
        d = call(rep, "distance", fc, struc.distance, mv(A0), mv(B0))
        v = call(rep, "displacement", fc, struc.displacement, mv(A0), mv(B0))
        ctx.ev(2 * len(A0), 2 * int((dtb > 0).sum()))
        scale = 4 * EPS * (np.abs(np.array(t)).max() + 4) * 4
        if d is not None and (np.abs(d - dtb) > max(1e-5, scale)).any():
            k = first_bad(np.abs(d - dtb) > max(1e-5, scale))
            rep.bad("distance|value|generic_motion", "distance not invariant under a generic rigid motion", fc,
                    float(dtb[k]), float(d[k]))
        if v is not None:
            exp = geom.apply_rot(B0 - A0, Rm)
            if (np.abs(v - exp) > max(1e-5, scale)).any():
                k = first_bad((np.abs(v - exp) > max(1e-5, scale)).any(axis=1))
                rep.bad("displacement|value|generic_motion", "displacement is not the rotated difference", fc,
                        exp[k].tolist(), v[k].tolist())
    elif what == "angle":
        idx = np.arange(125 ** 3)
        ii, rem = np.divmod(idx, 125 * 125)
        jj, kk = np.divmod(rem, 125)
        sel = (ii % 5 == shard["part"])
        ii, jj, kk = ii[sel], jj[sel], kk[sel]
        A0, B0, C0 = P125[ii], P125[jj], P125[kk]
        ctb, ok = geom.tb_angle_cos(A0, B0, C0)
        A, B, C = mv(A0), mv(B0), mv(C0)
        a = call(rep, "angle", fc, struc.angle, A, B, C)
        ctx.ev(len(A), int(ok.sum()))
        if a is not None:
            # rounded coordinates: NaN for (nearly) collinear atoms is reported by the exact-motion shards
            a = np.where(np.isnan(a) & (np.abs(ctb) > 1 - 1e-5), np.arccos(np.clip(ctb, -1, 1)), a)
            judge_angle(rep, ctx, fc, a, ctb, ok, ok & (np.abs(ctb) >= 1.0), 2e-5, A, B, C, motion="generic_motion")
    else:
        a, b, c, d = quad_arrays()
        Q = [P27[x] for x in (a, b, c, d)]
        tb, ok = geom.tb_dihedral(*Q)
        tol = dihedral_tol(*[q.astype(np.float64) for q in Q], 1e-4)
        M = [mv(q) for q in Q]
        v = call(rep, "dihedral", fc, struc.dihedral, *M)
        ctx.ev(len(a), int(ok.sum()))
        if v is not None:
            judge_dihedral(rep, ctx, fc, v, tb, ok, tol, M, motion="generic_motion")


# ---------------------------------------------------------------------------
# shapes / broadcasting / object forms / index variants with boxes
# ---------------------------------------------------------------------------
SH_M, SH_N = 3, 4
SH_FORMS = ("vec", "arr", "stk")


def shape_bases():
    """four (m,n,3) integer arrays of distinct lattice points (no degenerate tuple at equal positions)"""
    out = []
    for a in range(4):
        idx = [(37 * a + 11 * i + 29 * j + 3 * i * j + 5) % 125 for i in range(SH_M) for j in range(SH_N)]
        out.append(P125[idx].reshape(SH_M, SH_N, 3))
    return out


def take_form(A, form):
    return A[0, 0] if form == "vec" else A[0] if form == "arr" else A


def to_object(x):
    import biotite.structure as struc

    x = np.asarray(x, dtype=np.float32)
    if x.ndim == 1:
        return struc.Atom(x)
    if x.ndim == 2:
        arr = struc.AtomArray(len(x))
        arr.coord = x
        return arr
    stk = struc.AtomArrayStack(x.shape[0], x.shape[1])
    stk.coord = x
    return stk


def tb_measure(fname, args):
    """textbook value with numpy broadcasting -> (value or cos, ok mask, kind)"""
    b = np.broadcast_arrays(*[np.asarray(a, dtype=np.float64) for a in args])
    if fname == "displacement":
        return b[1] - b[0], None
    if fname == "distance":
        return geom.tb_distance(b[0], b[1]), None
    if fname == "angle":
        return geom.tb_angle_cos(*b)
    return geom.tb_dihedral(*b)


def compare_measure(rep, ctx, fname, fc, got, exp, ok, args64, tol_abs):
    """compare one broadcast result; returns True when clean"""
    got = np.asarray(got)
    if got.shape != np.shape(exp):
        rep.bad("%s|bad_shape|%s" % (fname, fc["cls"]), "result shape differs from the broadcast shape", fc,
                list(np.shape(exp)), list(got.shape))
        return False
    g = got.astype(np.float64)
    if fname in ("displacement", "distance"):
        bad = ~(np.abs(g - exp) <= tol_abs)
    elif fname == "angle":
        same13 = (np.broadcast_arrays(*args64)[0] == np.broadcast_arrays(*args64)[2]).all(axis=-1)
        ok = ok & ~same13 & (np.abs(exp) < 1.0)      # collinear NaN is reported by the tuple shards
        bad = ok & ~(np.abs(np.cos(g) - exp) <= max(8 * EPS, tol_abs))
    else:
        b = np.broadcast_arrays(*args64)
        tol = dihedral_tol(*b, max(32 * EPS, tol_abs))
        bad = ok & ~(geom.ang_diff(g, exp) <= tol)
    if np.any(bad):
        k = first_bad(bad)
        rep.bad("%s|value|%s" % (fname, fc["cls"]), "value differs from the textbook value for this argument form", fc,
                np.asarray(exp).reshape(-1)[k].item() if np.ndim(exp) else float(exp),
                g.reshape(-1)[k].item() if g.ndim else float(g))
        return False
    ctx.outcome((fname, fc["cls"], got.tobytes()[:256]))
    return True


NARGS = {"displacement": 2, "distance": 2, "angle": 3, "dihedral": 4}


def run_shapes(shard, ctx, focus=None):
    import biotite.structure as struc

    rep = Reporter(ctx, shard)
    bases = shape_bases()
    mode = shard["mode"]
    funcs = {n: getattr(struc, n) for n in NARGS}
    if mode == "plain":
        for fname, k in NARGS.items():
            for combo in itertools.product(SH_FORMS, repeat=k):
                for objform in ("ndarray", "object", "mixed"):
                    fc = {"f": fname, "combo": list(combo), "obj": objform, "cls": "%s_%s" % ("_".join(combo), objform)}
                    if focus is not None and {x: focus.get(x) for x in ("f", "combo", "obj")} != \
                            {x: fc[x] for x in ("f", "combo", "obj")}:
                        continue
                    ctx.journal(json.dumps({"s": shard, "f": fc}))
                    ints = [take_form(bases[i], c) for i, c in enumerate(combo)]
                    if objform == "ndarray":
                        args = [f32(x) for x in ints]
                    elif objform == "object":
                        args = [to_object(x) for x in ints]
                    else:
                        args = [to_object(x) if i % 2 == 0 else f32(x) for i, x in enumerate(ints)]
                    exp, ok = tb_measure(fname, ints)
                    ctx.ev(int(np.size(exp) // (3 if fname == "displacement" else 1)), 1)
                    ctx.count("accepted")
                    got = call(rep, fname, fc, funcs[fname], *args)
                    if got is None:
                        continue
                    scale = 4 * EPS * 4 if fname in ("displacement", "distance") else 0.0
                    compare_measure(rep, ctx, fname, fc, got, exp, ok, [np.asarray(x, dtype=np.float64) for x in ints], scale)
        return
    # periodic: compact true geometry X, wrapped copies W; the expected value is the textbook value on X
    boxes = [np.diag([5.0, 5.0, 5.0]), box_of("t2"), np.diag([4.0, 6.0, 5.0])]
    shifts = np.array(list(itertools.product([-2, -1, 0, 1, 2], repeat=3)))
    for fname, k in NARGS.items():
        for combo in itertools.product(SH_FORMS, repeat=k):
            has_stk = "stk" in combo
            for boxmode in ("single", "permodel") if has_stk else ("single",):
                for bi in range(3) if boxmode == "single" else (0,):
                    for objform in ("ndarray", "object"):
                        fc = {"f": fname, "combo": list(combo), "obj": objform, "box": boxmode, "bi": bi,
                              "cls": "box_%s_%s_%s" % (boxmode, "_".join(combo), objform)}
                        if focus is not None and any(focus.get(x) != fc[x] for x in ("f", "combo", "obj", "box", "bi")):
                            continue
                        ctx.journal(json.dumps({"s": shard, "f": fc}))
                        X, W = [], []
                        for i, c in enumerate(combo):
                            x = 1.0 + 0.25 * (take_form(bases[i], c) + 2) / 2.0        # inside a cube of side 0.5
                            X.append(x)
                            w = np.array(x, dtype=np.float64)
                            if boxmode == "single":
                                n = shifts[(np.arange(w.size // 3) * 7 + 13 * i + bi) % len(shifts)].reshape(w.shape)
                                w = w + n @ boxes[bi]
                            elif c == "stk":
                                for m in range(SH_M):
                                    n = shifts[(np.arange(SH_N) * 7 + 13 * i + m) % len(shifts)]
                                    w[m] = w[m] + n @ boxes[m]
                            W.append(w)
                        box = boxes[bi] if boxmode == "single" else np.stack(boxes)
                        args = [f32(w) for w in W] if objform == "ndarray" else [to_object(w) for w in W]
                        exp, ok = tb_measure(fname, X)
                        ctx.ev(int(np.size(exp) // (3 if fname == "displacement" else 1)), 1)
                        # per-model boxes are documented only for inputs that comprise multiple models; angle and
                        # dihedral measure pairs of arguments, a pair without a stack + (m,3,3) boxes is class EITHER
                        pairs = {"displacement": [(0, 1)], "distance": [(0, 1)], "angle": [(0, 1), (2, 1)],
                                 "dihedral": [(0, 1), (1, 2), (2, 3)]}[fname]
                        either = boxmode == "permodel" and any(combo[a] != "stk" and combo[b] != "stk" for a, b in pairs)
                        if either:
                            ctx.count("unspecified")
                            try:
                                with np.errstate(all="ignore"):
                                    got = funcs[fname](*args, box=f32(box))
                            except Exception:  # noqa: BLE001
                                ctx.count("unspecified_refused")
                                continue
                        else:
                            ctx.count("accepted")
                            got = call(rep, fname, fc, funcs[fname], *args, box=f32(box))
                        if got is None:
                            continue
                        compare_measure(rep, ctx, fname, fc, got, exp, ok, X, 2e-5)
    # index variants with periodic=True: AtomArray / stack box attribute, explicit box, refusal without a box
    X = 1.0 + 0.25 * (bases[0] + 2) / 2.0
    for bi, box in enumerate(boxes):
        W = X + shifts[(np.arange(SH_M * SH_N) * 11 + bi) % len(shifts)].reshape(SH_M, SH_N, 3) @ box
        arr = to_object(W[0])
        arr.box = f32(box)
        stk = to_object(W)
        stk.box = np.stack([f32(box)] * SH_M)
        for fname, k in (("distance", 2), ("displacement", 2), ("angle", 3), ("dihedral", 4)):
            idx = np.array(list(itertools.product(range(SH_N), repeat=k)))
            for form, obj, kw in (("AtomArray_boxattr", arr, {"periodic": True}),
                                  ("AtomArrayStack_boxattr", stk, {"periodic": True}),
                                  ("ndarray_boxarg", f32(W[0]), {"periodic": True, "box": f32(box)}),
                                  ("AtomArray_boxarg", to_object(W[0]), {"periodic": True, "box": f32(box)}),
                                  ("AtomArray_nonperiodic", arr, {})):
                fc = {"f": "index_" + fname, "form": form, "bi": bi, "cls": "index_%s" % form}
                if focus is not None and any(focus.get(x) != fc[x] for x in ("f", "form", "bi")):
                    continue
                ctx.journal(json.dumps({"s": shard, "f": fc}))
                src = X if kw else W           # without periodic=True the wrapped coordinates are measured as they are
                base = src if form.startswith("AtomArrayStack") else src[0]
                pts = [np.take(base, idx[:, j], axis=-2) for j in range(k)]
                exp, ok = tb_measure(fname, pts)
                ctx.ev(int(np.size(exp) // (3 if fname == "displacement" else 1)), 1)
                ctx.count("accepted")
                got = call(rep, "index_" + fname, fc, getattr(struc, "index_" + fname), obj, idx, **kw)
                if got is None:
                    continue
                compare_measure(rep, ctx, fname, fc, got, exp, ok, pts, 2e-5 if kw else 4 * EPS * 64)
        # documented refusal: coordinates + periodic=True without a box
        ctx.ev(1, 1)
        ctx.count("refused")
        try:
            struc.index_distance(f32(W[0]), np.array([[0, 1]]), periodic=True)
            rep.bad("index_distance|accepted|ndarray_periodic_without_box", "periodic=True without any box was not refused",
                    {"cls": "refusal"}, "ValueError", "returned")
        except Exception:  # noqa: BLE001
            pass


# ---------------------------------------------------------------------------
# periodic displacement per box: lattice property + minimality
# ---------------------------------------------------------------------------
FR = np.array(list(itertools.product([0.0, 0.25, 0.5, 0.75], repeat=3)))
SH5 = np.array(list(itertools.product([-2, -1, 0, 1, 2], repeat=3)), dtype=np.float64)
P1_SHIFTS = [[0, 0, 0], [-1, 0, 2], [2, -2, 1]]
FINE = [0.0, 7 / 16, 31 / 64, 0.5, 33 / 64, 9 / 16, 0.75]


def min_image_table(box):
    """for every class (f2 - f1) mod 1 on the 1/4 grid: the brute-force shortest image length over 9^3 images"""
    cls = np.array(list(itertools.product(range(4), repeat=3)), dtype=np.float64) / 4.0
    _, d2 = geom.min_image_vectors(cls @ box, box, k=4)
    return np.sqrt(d2).reshape(4, 4, 4)


def run_dispbox(shard, ctx, focus=None):
    import biotite.structure as struc

    rep = Reporter(ctx, shard)
    name = shard["box"]
    box = box_of(name)
    ortho = box_is_ortho(box)
    hmin = geom.box_heights(box).min()
    scale = max(1.0, float(np.abs(box).max()))
    tol = 1e-4 * scale
    table = min_image_table(box)
    kind = "ortho" if ortho else "triclinic"
    nshift = 2 if ctx.tier == "quick" else 3
    light = bool(shard.get("light"))      # derived boxes: one shift, every fourth f1
    if light:
        nshift = 1
    f2i = np.repeat(np.arange(64), len(SH5))
    n2 = np.tile(SH5, (64, 1))
    p2_exact = (FR[f2i] + n2) @ box
    P2 = f32(p2_exact)
    P2d = P2.astype(np.float64)
    for si in range(nshift):
        for f1i in range(64):
            fc = {"shift": si, "f1": f1i, "cls": kind}
            if focus is not None and (focus.get("shift") != si or focus.get("f1") != f1i):
                continue
            if light and f1i % 4 != 1:
                continue
            p1 = f32((FR[f1i] + np.array(P1_SHIFTS[si], dtype=float)) @ box)
            p1d = p1.astype(np.float64)
            if f1i % 8 == 0:
                ctx.journal(json.dumps({"s": shard, "f": fc}))
            # three argument forms: (3,) vs (n,3); (n,3) vs (n,3); reversed order
            form = ("vec_arr", "arr_arr", "arr_vec")[(f1i + si) % 3]
            if form == "vec_arr":
                got = call(rep, "displacement", fc, struc.displacement, p1, P2, box=f32(box))
                sign = 1.0
            elif form == "arr_arr":
                got = call(rep, "displacement", fc, struc.displacement, np.tile(p1, (len(P2), 1)), P2, box=f32(box))
                sign = 1.0
            else:
                got = call(rep, "displacement", fc, struc.displacement, P2, p1, box=f32(box))
                sign = -1.0
            if got is None:
                continue
            plain = sign * (P2d - p1d)
            cls_idx = np.rint(((FR[f2i] - FR[f1i]) * sign % 1.0) * 4).astype(int) % 4
            lmin = table[cls_idx[:, 0], cls_idx[:, 1], cls_idx[:, 2]]
            demand_min = np.ones(len(P2), dtype=bool) if ortho else (lmin < hmin / 2 - 1e-3)
            nontriv = (np.abs(n2).sum(axis=1) > 0) | (np.abs(lmin - np.sqrt((plain * plain).sum(axis=1))) > tol)
            ctx.ev(len(P2), int(nontriv.sum()))
            ctx.count("accepted", int(demand_min.sum()))
            ctx.count("unspecified", int((~demand_min).sum()))
            if got.shape != plain.shape:
                rep.bad("displacement|bad_shape|box_%s" % form, "wrong result shape with a box", fc, plain.shape, got.shape)
                continue
            g = got.astype(np.float64)
            res, _ = geom.lattice_residual(g - plain, box)
            bad = ~(res <= tol)
            if bad.any():
                k = first_bad(bad)
                rep.bad("displacement|not_lattice_equivalent|%s" % kind,
                        "periodic displacement differs from the plain difference by a non-lattice vector", fc,
                        "plain difference + lattice vector", g[k].tolist(),
                        {"p1": p1d.tolist(), "p2": P2d[k].tolist(), "box": box.tolist(), "residual": float(res[k])})
                continue
            ln = np.sqrt((g * g).sum(axis=1))
            if not ortho:
                ctx.count("triclinic_beyond_range_not_shortest", int((~demand_min & ~(np.abs(ln - lmin) <= tol)).sum()))
            badm = demand_min & ~(np.abs(ln - lmin) <= tol)
            if badm.any():
                k = first_bad(badm)
                rep.bad("displacement|not_shortest_image|%s" % kind,
                        "periodic displacement is not the shortest periodic image", fc, float(lmin[k]), float(ln[k]),
                        {"p1": p1d.tolist(), "p2": P2d[k].tolist(), "box": box.tolist(), "half_min_height": float(hmin / 2),
                         "count": int(badm.sum())})
                continue
            if f1i % 16 == 0:
                d = call(rep, "distance", fc, struc.distance, p1, P2, box=f32(box))
                if d is not None and not (np.abs(d - np.sqrt((g * g).sum(axis=1))) <= tol).all() and form != "arr_vec":
                    rep.bad("distance|differs_from_displacement_norm|%s" % kind,
                            "distance(box) is not the length of displacement(box)", fc)
            ctx.outcome(("dispbox", name, si, f1i, got.tobytes()[:512]))
    # second pass: fractional differences next to 1/2 (7/16, 31/64, 1/2, 33/64, 9/16) - the 1/4 grid alone cannot
    # tell where between 1/2 and 3/4 an implementation switches to the neighbouring image
    G2 = np.array(list(itertools.product(FINE, repeat=3)))
    _, d2 = geom.min_image_vectors(G2 @ box, box, k=4)
    lmin_cls = np.sqrt(d2)
    g2i = np.repeat(np.arange(len(G2)), len(SH5))
    nn2 = np.tile(SH5, (len(G2), 1))
    for fi, f1 in enumerate(([0.0, 0.0, 0.0], [0.125, 0.625, 0.375])):
        fc = {"fine": fi, "cls": kind}
        if focus is not None and focus.get("fine") != fi:
            continue
        ctx.journal(json.dumps({"s": shard, "f": fc}))
        f1 = np.array(f1)
        p1 = f32((f1 + np.array(P1_SHIFTS[1], dtype=float)) @ box)
        Q2 = f32((f1 + G2[g2i] + nn2) @ box)
        got = call(rep, "displacement", fc, struc.displacement, p1, Q2, box=f32(box))
        if got is None:
            continue
        plain = Q2.astype(np.float64) - p1.astype(np.float64)
        lmin = lmin_cls[g2i]
        demand_min = np.ones(len(Q2), dtype=bool) if ortho else (lmin < hmin / 2 - 1e-3)
        ctx.ev(len(Q2), len(Q2))
        ctx.count("accepted", int(demand_min.sum()))
        ctx.count("unspecified", int((~demand_min).sum()))
        g = np.asarray(got, dtype=np.float64)
        if g.shape != plain.shape:
            rep.bad("displacement|bad_shape|box_vec_arr", "wrong result shape with a box", fc, plain.shape, g.shape)
            continue
        res, _ = geom.lattice_residual(g - plain, box)
        if (res > tol).any():
            k = first_bad(res > tol)
            rep.bad("displacement|not_lattice_equivalent|%s" % kind,
                    "periodic displacement differs from the plain difference by a non-lattice vector", fc,
                    "plain difference + lattice vector", g[k].tolist(),
                    {"p1": p1.tolist(), "p2": Q2[k].tolist(), "box": box.tolist(), "residual": float(res[k])})
            continue
        ln = np.sqrt((g * g).sum(axis=1))
        badm = demand_min & ~(np.abs(ln - lmin) <= tol)
        if badm.any():
            k = first_bad(badm)
            rep.bad("displacement|not_shortest_image|%s" % kind, "periodic displacement is not the shortest periodic image",
                    fc, float(lmin[k]), float(ln[k]),
                    {"p1": p1.tolist(), "p2": Q2[k].tolist(), "box": box.tolist(), "half_min_height": float(hmin / 2),
                     "count": int(badm.sum())})
            continue
        ctx.outcome(("dispbox_fine", name, fi, got.tobytes()[:512]))
    if len(ctx.samples) < 1:
        ctx.sample({"box": name, "vectors": box.tolist(), "pairs": 64 * nshift * len(P2)})


# ---------------------------------------------------------------------------
# box helpers per box: move_inside_box, fractions, is_orthogonal, repeat_box(_coord)
# ---------------------------------------------------------------------------
def run_boxhelpers(shard, ctx, focus=None):
    import biotite.structure as struc

    rep = Reporter(ctx, shard)
    name = shard["box"]
    box = box_of(name)
    ortho = box_is_ortho(box)
    kind = "ortho" if ortho else "triclinic"
    scale = max(1.0, float(np.abs(box).max()))
    tol = 2e-4 * scale
    fc = {"cls": kind}
    ctx.journal(json.dumps({"s": shard}))
    f_all = np.repeat(FR, len(SH5), axis=0) + np.tile(SH5, (64, 1))
    # off-grid fractions as well: 1/8 offsets (exact in binary) so that no point sits on a face
    f_all = np.concatenate([f_all, f_all[::7] + 0.125])
    P = f32(f_all @ box)
    Pd = P.astype(np.float64)
    b32 = f32(box)
    # --- move_inside_box
    for form in ("n3", "mn3", "mn3_onebox"):
        if form == "n3":
            got = call(rep, "move_inside_box", dict(fc, form=form), struc.move_inside_box, P, b32)
            ref, bx = Pd, box
        else:
            k = len(P) // 4
            stackP = P[:4 * k].reshape(4, k, 3)
            if form == "mn3":
                got = call(rep, "move_inside_box", dict(fc, form=form), struc.move_inside_box, stackP, np.stack([b32] * 4))
            else:
                # documented: 'When coord is given for multiple models, box must be given for multiple models as well'
                ctx.count("unspecified")
                try:
                    got = struc.move_inside_box(stackP, b32)
                except Exception:  # noqa: BLE001
                    ctx.count("unspecified_refused")
                    got = None
            ref, bx = Pd[:4 * k].reshape(4, k, 3), box
        if got is None:
            continue
        ctx.ev(ref.size // 3, ref.size // 3)
        if got.shape != ref.shape:
            rep.bad("move_inside_box|bad_shape|%s" % form, "shape changed", fc, ref.shape, got.shape)
            continue
        g = got.astype(np.float64).reshape(-1, 3)
        res, _ = geom.lattice_residual(g - ref.reshape(-1, 3), bx)
        if (res > tol).any():
            k = first_bad(res > tol)
            rep.bad("move_inside_box|not_lattice_shift|%s" % kind, "coordinate moved by a non-lattice vector", fc,
                    "lattice vector", (g[k] - ref.reshape(-1, 3)[k]).tolist(), {"p": ref.reshape(-1, 3)[k].tolist(), "box": box.tolist()})
            continue
        fr = geom.lattice_coefficients(g, bx)
        outside = (fr < -1e-4) | (fr > 1 + 1e-4)
        if outside.any():
            k = first_bad(outside.any(axis=1))
            rep.bad("move_inside_box|outside_box|%s" % kind, "moved coordinate is not inside the box", fc,
                    "fractions in [0,1]", fr[k].tolist(), {"p": ref.reshape(-1, 3)[k].tolist(), "box": box.tolist()})
        ctx.outcome(("mib", name, form, got.tobytes()[:512]))
    # --- fractions
    fr = call(rep, "coord_to_fraction", fc, struc.coord_to_fraction, P, b32)
    if fr is not None:
        ctx.ev(len(P), len(P))
        exp = geom.lattice_coefficients(Pd, box)
        bad = ~(np.abs(fr - exp) <= 2e-5 * (1 + np.abs(exp)))
        if fr.shape != exp.shape or bad.any():
            k = first_bad(bad.any(axis=1)) if fr.shape == exp.shape else 0
            rep.bad("coord_to_fraction|value|%s" % kind, "fractions differ from the solution of f @ box = coord", fc,
                    exp[k].tolist(), np.asarray(fr).reshape(-1, 3)[k].tolist())
        back = call(rep, "fraction_to_coord", fc, struc.fraction_to_coord, fr, b32)
        if back is not None:
            ctx.ev(len(P), len(P))
            if back.shape != P.shape or (np.abs(back - Pd) > tol).any():
                rep.bad("fraction_to_coord|not_inverse|%s" % kind, "fraction_to_coord(coord_to_fraction(x)) != x", fc)
    F = f32(f_all)
    co = call(rep, "fraction_to_coord", fc, struc.fraction_to_coord, F, b32)
    if co is not None:
        ctx.ev(len(F), len(F))
        if (np.abs(co - F.astype(np.float64) @ box) > tol).any():
            rep.bad("fraction_to_coord|value|%s" % kind, "coordinates differ from fraction @ box", fc)
        fb = call(rep, "coord_to_fraction", fc, struc.coord_to_fraction, co, b32)
        if fb is not None and (np.abs(fb - F) > 5e-5 * (1 + np.abs(F))).any():
            rep.bad("coord_to_fraction|not_inverse|%s" % kind, "coord_to_fraction(fraction_to_coord(f)) != f", fc)
    # --- is_orthogonal (single and stacked)
    g = box @ box.T
    offd = np.array([abs(g[0, 1]), abs(g[0, 2]), abs(g[1, 2])])
    if (offd < 1e-9).all() or (offd.max() >= 0.5):
        exp_o = bool((offd < 1e-9).all())
        ctx.ev(2, 2)
        o = call(rep, "is_orthogonal", fc, struc.is_orthogonal, b32)
        if o is not None and bool(o) != exp_o:
            rep.bad("is_orthogonal|value|%s" % kind, "is_orthogonal disagrees with the pairwise dot products", fc, exp_o, bool(o))
        other = f32(np.diag([3.0, 4.0, 5.0])) if not exp_o else f32(box_of("t1"))
        o2 = call(rep, "is_orthogonal", fc, struc.is_orthogonal, np.stack([b32, other, b32]))
        if o2 is not None and list(map(bool, np.asarray(o2).tolist())) != [exp_o, not exp_o, exp_o]:
            rep.bad("is_orthogonal|value|stacked_%s" % kind, "is_orthogonal on stacked boxes is wrong", fc,
                    [exp_o, not exp_o, exp_o], np.asarray(o2).tolist())
    if name.startswith("skew:"):
        # the documented tolerance: 'orthogonal when the dot product is within 1e-6'
        sk = float(name.split(":")[1])
        ctx.ev(1, 1)
        o = call(rep, "is_orthogonal", fc, struc.is_orthogonal, b32)
        if o is not None and bool(o) != (sk < 1e-6):
            rep.bad("is_orthogonal|value|documented_tolerance", "is_orthogonal disagrees with its documented tolerance of 1e-6",
                    fc, sk < 1e-6, bool(o), {"a.b": sk})
    # --- repeat_box_coord / repeat_box
    small = P[[0, 77, 1033, 4000 % len(P), len(P) - 1]]
    for amount in (1, 2):
        nb = (2 * amount + 1) ** 3
        for form in ("coord_n3", "coord_mn3", "array", "stack"):
            f2 = dict(fc, form=form, amount=amount)
            if form == "coord_n3":
                got = call(rep, "repeat_box_coord", f2, struc.repeat_box_coord, small, b32, amount)
                src = small[None]
                boxes = [box]
            elif form == "coord_mn3":
                other = box_of("o_2_5_9")
                src = np.stack([small, small[::-1]])
                got = call(rep, "repeat_box_coord", f2, struc.repeat_box_coord, src, np.stack([b32, f32(other)]), amount)
                boxes = [box, other]
            elif form == "array":
                arr = to_object(small)
                arr.box = b32
                arr.res_id[:] = np.arange(len(small))
                r = call(rep, "repeat_box", f2, struc.repeat_box, arr, amount)
                got = None if r is None else (r[0].coord, r[1], r[0])
                src = small[None]
                boxes = [box]
            else:
                other = box_of("o_2_5_9")
                stk = to_object(np.stack([small, small[::-1]]))
                stk.box = np.stack([b32, f32(other)])
                stk.res_id[:] = np.arange(len(small))
                r = call(rep, "repeat_box", f2, struc.repeat_box, stk, amount)
                got = None if r is None else (r[0].coord, r[1], r[0])
                src = np.stack([small, small[::-1]])
                boxes = [box, other]
            if got is None:
                continue
            ctx.ev(nb * src.shape[0] * len(small), nb * src.shape[0] * len(small))
            rc, idx = np.asarray(got[0]), np.asarray(got[1])
            n = len(small)
            site = "repeat_box" if form in ("array", "stack") else "repeat_box_coord"
            eff = amount
            if amount > 1 and idx.shape == (27 * n,) and rc.shape[-2] == 27 * n:
                rep.bad("%s|amount_ignored|amount_gt_1" % site,
                        "amount=%d was requested but only the 27 boxes of amount=1 were produced" % amount, f2,
                        "%d boxes" % nb, "27 boxes")
                eff, nb = 1, 27      # keep checking what was returned
            exp_idx = np.tile(np.arange(n), nb)
            if idx.shape != exp_idx.shape or not np.array_equal(idx, exp_idx):
                rep.bad("%s|indices|%s" % (site, form), "returned indices are not tile(arange(n))", f2, exp_idx.tolist()[:12],
                        idx.tolist()[:12])
                continue
            rc3 = rc.reshape((-1, nb * n, 3)) if rc.ndim == 2 else rc
            if rc3.shape != (src.shape[0], nb * n, 3):
                rep.bad("%s|bad_shape|%s" % (site, form), "wrong shape of repeated coordinates", f2,
                        (src.shape[0], nb * n, 3), rc.shape)
                continue
            for m in range(src.shape[0]):
                blocks = rc3[m].astype(np.float64).reshape(nb, n, 3)
                if not np.array_equal(blocks[0], src[m].astype(np.float64)):
                    rep.bad("%s|first_block|%s" % (site, form), "the first block is not the original coordinates", f2)
                    break
                shift = blocks - src[m].astype(np.float64)[None]
                res, nn = geom.lattice_residual(shift.reshape(-1, 3), boxes[m])
                per_block = nn.reshape(nb, n, 3)
                same = (per_block == per_block[:, :1, :]).all()
                triples = {tuple(int(x) for x in per_block[b, 0]) for b in range(nb)}
                want = set(itertools.product(range(-eff, eff + 1), repeat=3))
                if (res > tol).any() or not same or triples != want:
                    rep.bad("%s|wrong_images|%s" % (site, form),
                            "repeated coordinates are not the original shifted by every lattice vector of {-a..a}^3 once",
                            f2, "all %d lattice shifts" % nb, sorted(triples)[:6])
                    break
            if form in ("array", "stack") and got[2].array_length() == nb * n:
                if not np.array_equal(got[2].res_id, np.tile(np.arange(n), nb)):
                    rep.bad("repeat_box|annotations|%s" % form, "annotations are not repeated with the atoms", f2)


# ---------------------------------------------------------------------------
# unit cell <-> box vectors
# ---------------------------------------------------------------------------
UC_SCALES = [1e-3, 1.0, 1e3]
NEAR_RIGHT = [89.99, 90.0, 90.01]


def run_unitcell(shard, ctx, focus=None):
    import biotite.structure as struc

    rep = Reporter(ctx, shard)
    ln0 = LENGTHS[shard["lengths"]]
    combos = [(a, "palette") for a in itertools.product(ANGLES_DEG, repeat=3)] + \
             [(a, "near_right") for a in itertools.product(NEAR_RIGHT, repeat=3)]
    for sc in UC_SCALES:
        ln = [x * sc for x in ln0]
        for ang, pal in combos:
            rad = [math.radians(a) for a in ang]
            ref = geom.unitcell_vectors(*ln, *rad)
            fc = {"scale": sc, "angles": list(ang), "cls": "%s_scale%g" % (pal, sc)}
            if focus is not None and (focus.get("scale") != sc or focus.get("angles") != list(ang)):
                continue
            if ref is None:
                continue            # not a positive volume: outside the quantifier
            ctx.journal(json.dumps({"s": shard, "f": fc}))
            ctx.ev(3, 3)
            ctx.count("accepted")
            box = call(rep, "vectors_from_unitcell", fc, struc.vectors_from_unitcell, *ln, *rad)
            if box is None:
                continue
            box = np.asarray(box)
            if box.shape != (3, 3) or not np.isfinite(box).all():
                rep.bad("vectors_from_unitcell|bad_result|%s" % fc["cls"], "not a finite (3,3) box", fc, "(3,3) finite", box.tolist())
                continue
            back = geom.unitcell_of(box)
            want = ln + rad
            errl = max(abs(back[i] - want[i]) / want[i] for i in range(3))
            erra = max(abs(back[i] - want[i]) for i in range(3, 6))
            if errl > 2e-6 or erra > 5e-6:
                rep.bad("vectors_from_unitcell|cell_not_reproduced|%s" % fc["cls"],
                        "lengths/angles of the returned vectors differ from the requested cell", fc, want, list(back),
                        {"box": box.tolist()})
                continue
            if (np.abs(box - ref) > 2e-6 * max(ln)).any():
                rep.bad("vectors_from_unitcell|orientation|%s" % fc["cls"],
                        "box is not the documented a-along-x, b-in-xy orientation", fc, ref.tolist(), box.tolist())
            uc = call(rep, "unitcell_from_vectors", fc, struc.unitcell_from_vectors, box)
            if uc is not None:
                uc = [float(x) for x in uc]
                errl = max(abs(uc[i] - want[i]) / want[i] for i in range(3))
                erra = max(abs(uc[i] - want[i]) for i in range(3, 6))
                if len(uc) != 6 or errl > 2e-6 or erra > 5e-6:
                    rep.bad("unitcell_from_vectors|not_inverse|%s" % fc["cls"],
                            "unitcell_from_vectors(vectors_from_unitcell(cell)) != cell", fc, want, uc)
                    continue
                box2 = call(rep, "vectors_from_unitcell", fc, struc.vectors_from_unitcell, *uc)
                if box2 is not None and (np.abs(np.asarray(box2) - box) > 5e-6 * max(ln)).any():
                    rep.bad("vectors_from_unitcell|not_inverse|%s" % fc["cls"],
                            "vectors_from_unitcell(unitcell_from_vectors(box)) != box", fc, box.tolist(),
                            np.asarray(box2).tolist())
            ctx.outcome(("uc", sc, ang, box.tobytes()))
    # unitcell_from_vectors on boxes in general orientation equals the dot-product definition
    for name in INT_BOXES:
        b = box_of(name)
        fc = {"box": name, "cls": "general_orientation"}
        ctx.ev(1, 1)
        uc = call(rep, "unitcell_from_vectors", fc, struc.unitcell_from_vectors, f32(b))
        if uc is not None:
            want = geom.unitcell_of(b)
            if max(abs(float(u) - w) for u, w in zip(uc, want)) > 5e-6 * 10:
                rep.bad("unitcell_from_vectors|value|general_orientation", "lengths/angles differ from the dot-product definition",
                        fc, list(want), [float(u) for u in uc])


# ---------------------------------------------------------------------------
# remove_pbc / remove_pbc_from_coord on every bond graph with <= 4 atoms
# ---------------------------------------------------------------------------
PBC_BOXES = ["o_5_5_5", "o_4_6_5", "pbc_tric", "pbc_int"]
GEOMS = {
    # compact: every pair closer than half of every box height
    "compact": [[1.0, 1.0, 1.0], [2.0, 1.0, 1.0], [2.0, 2.0, 1.0], [2.0, 2.0, 2.0]],
    # zigzag: array neighbours 0-1 and 2-3 are 3.8 apart, the pairs (0,2), (2,1), (1,3) only 1.9
    "zigzag": [[0.5, 1.0, 1.0], [4.3, 1.0, 1.0], [2.4, 1.0, 1.0], [6.2, 1.0, 1.0]],
    # straddle: first atom inside the box, the rest (and the centroid) across the face x = 0
    "straddle": [[0.3, 1.0, 1.0], [-0.7, 1.0, 1.0], [-0.7, 2.0, 1.0], [-1.7, 2.0, 1.0]],
    # onface: a unit square around the z axis - the centroid of 2 and 4 atoms lies EXACTLY on the faces x = 0 / y = 0
    # (tie of remove_pbc's centre step: either side of the face is inside the box)
    "onface": [[0.5, 0.5, 1.0], [-0.5, 0.5, 1.0], [-0.5, -0.5, 1.0], [0.5, -0.5, 1.0]],
}
W27 = np.array(list(itertools.product([-1, 0, 1], repeat=3)), dtype=np.float64)


def pbc_box(name):
    if name == "pbc_tric":
        b = geom.unitcell_vectors(5.0, 6.0, 7.0, math.radians(75), math.radians(90), math.radians(110))
        return b.astype(np.float32).astype(np.float64)
    if name == "pbc_int":
        return np.array([[5, 0, 0], [1, 5, 0], [0, 2, 6]], dtype=np.float64)
    return box_of(name)


def wrap_assignments(n, max_wrapped):
    """every assignment of a wrap index (0..26, 13 = no wrap) to n atoms with at most max_wrapped atoms wrapped"""
    out = []
    for k in range(0, min(n, max_wrapped) + 1):
        for atoms in itertools.combinations(range(n), k):
            for ws in itertools.product([w for w in range(27) if w != 13], repeat=k):
                a = [13] * n
                for at, w in zip(atoms, ws):
                    a[at] = w
                out.append(a)
    return np.array(out, dtype=int).reshape(-1, n)


def run_pbc(shard, ctx, focus=None):
    import biotite.structure as struc

    rep = Reporter(ctx, shard)
    n, gname = shard["n"], shard["geom"]
    X = np.array(GEOMS[gname][:n], dtype=np.float64)
    boxes = [pbc_box(b) for b in PBC_BOXES]
    hmin = min(geom.box_heights(b).min() for b in boxes)
    maxw = shard["maxw"]
    asg = wrap_assignments(n, maxw)                      # (cases, n)
    graphs = list(geom.all_graphs(n))
    # one stack: model = (wrap assignment, box); per-model boxes
    nb = len(boxes)
    A = len(asg)
    model_box = np.tile(np.arange(nb), A)
    model_asg = np.repeat(np.arange(A), nb)
    B = np.stack(boxes)[model_box]                       # (m,3,3)
    shifts = np.einsum("mak,mkj->maj", W27[asg[model_asg]], B)      # (m,n,3)
    Wc = f32(X[None] + shifts)
    Wd = Wc.astype(np.float64)
    nwrapped = (asg[model_asg] != 13).sum(axis=1)
    for gi, edges in enumerate(graphs):
        if gi % shard["parts"] != shard["part"]:
            continue
        fc = {"graph": edges, "cls": gname}
        if focus is not None and focus.get("graph") != [list(e) for e in edges] and focus.get("graph") != edges:
            continue
        ctx.journal(json.dumps({"s": shard, "f": fc}))
        dists = [float(np.linalg.norm(X[i] - X[j])) for i, j in edges]
        in_range = all(d < hmin / 2 - 1e-3 for d in dists)
        stk = struc.AtomArrayStack(len(Wc), n)
        stk.coord = Wc.copy()
        stk.box = f32(B)
        stk.bonds = struc.BondList(n, np.array([[i, j, 1] for i, j in edges], dtype=np.int64).reshape(-1, 3)) \
            if edges else struc.BondList(n)
        res = call(rep, "remove_pbc", fc, struc.remove_pbc, stk)
        ctx.ev(len(Wc) * n, int((nwrapped > 0).sum()) * n if edges else 0)
        ctx.count("accepted" if in_range else "unspecified", len(Wc))
        if res is not None:
            judge_pbc(rep, ctx, fc, "remove_pbc", res.coord, Wd, B, X, edges, in_range, gname, "stack")
            if not np.array_equal(stk.coord, Wc):
                rep.bad("remove_pbc|input_modified|stack", "remove_pbc changed its argument", fc)
        # single-model path and the coordinate variant on the models with <= 1 wrapped atom
        few = np.flatnonzero(nwrapped <= 1)
        few = few[:: max(1, len(few) // 120)] if ctx.tier == "quick" else few
        for m in few:
            arr = stk[int(m)]
            r1 = call(rep, "remove_pbc", dict(fc, form="array"), struc.remove_pbc, arr)
            ctx.ev(n, n if edges else 0)
            if r1 is not None:
                judge_pbc(rep, ctx, dict(fc, model=int(m)), "remove_pbc", r1.coord[None], Wd[m][None], B[m][None], X,
                          edges, in_range, gname, "array")
        # remove_pbc_from_coord treats the array as ONE chain in array order (documented): demanded only for
        # the path graph 0-1-..-(n-1) whose consecutive atoms are bonded
        if n >= 2 and sorted(edges) == [(i, i + 1) for i in range(n - 1)]:
            rc = call(rep, "remove_pbc_from_coord", fc, struc.remove_pbc_from_coord, Wc, f32(B))
            ctx.ev(len(Wc) * n, int((nwrapped > 0).sum()) * n)
            if rc is not None:
                judge_pbc(rep, ctx, fc, "remove_pbc_from_coord", rc, Wd, B, X, edges, in_range, gname, "coord_mn3")
            for m in few[:40]:
                r2 = call(rep, "remove_pbc_from_coord", fc, struc.remove_pbc_from_coord, Wc[m], f32(B[m]))
                if r2 is not None:
                    judge_pbc(rep, ctx, dict(fc, model=int(m)), "remove_pbc_from_coord", r2[None], Wd[m][None],
                              B[m][None], X, edges, in_range, gname, "coord_n3")
    if len(ctx.samples) < 1:
        ctx.sample({"n": n, "geometry": gname, "models": int(len(Wc)), "graphs": len(graphs)})


def judge_pbc(rep, ctx, fc, site, got, Wd, B, X, edges, in_range, gname, form):
    got = np.asarray(got)
    if got.shape != Wd.shape:
        rep.bad("%s|bad_shape|%s" % (site, form), "shape of the sanitized coordinates differs from the input", fc,
                Wd.shape, got.shape)
        return
    g = got.astype(np.float64)
    tol = 2e-3
    # every atom moved by a lattice vector of its model's box
    inv = np.linalg.inv(B)                                    # (m,3,3)
    coef = np.einsum("mak,mkj->maj", g - Wd, inv)
    res = np.abs(coef - np.rint(coef)).max(axis=-1) * np.abs(B).max(axis=(1, 2))[:, None]
    if (res > tol).any():
        m, a = np.argwhere(res > tol)[0]
        rep.bad("%s|not_lattice_shift|%s" % (site, form), "an atom was moved by a non-lattice vector", fc,
                "lattice vector", (g[m, a] - Wd[m, a]).tolist(), {"input": Wd[m].tolist(), "box": B[m].tolist()})
        return
    if not in_range:
        return
    for i, j in edges:
        d = np.linalg.norm(g[:, i] - g[:, j], axis=-1)
        true = float(np.linalg.norm(X[i] - X[j]))
        bad = np.abs(d - true) > tol
        if bad.any():
            m = int(np.flatnonzero(bad)[0])
            adjacent = abs(i - j) == 1
            rep.bad("%s|bonded_pair_not_min_image|%s_%s" % (site, gname, "array_neighbours" if adjacent else
                                                            "not_array_neighbours"),
                    "after removing the segmentation a bonded pair is not at its minimum-image distance", fc,
                    true, float(d[m]), {"bond": [i, j], "input": Wd[m].tolist(), "output": g[m].tolist(),
                                        "box": B[m].tolist(), "models_affected": int(bad.sum())})
            return
    if site == "remove_pbc":
        # documented: 'the centroid of each molecule is moved into the dimensions of the box'
        for comp in geom.components(g.shape[1], edges):
            cen = g[:, comp, :].mean(axis=1)
            fr = np.einsum("mk,mkj->mj", cen, inv)
            out = ((fr < -1e-3) | (fr > 1 + 1e-3)).any(axis=1)
            if out.any():
                m = int(np.flatnonzero(out)[0])
                rep.bad("remove_pbc|centroid_outside_box|%s" % form,
                        "the centroid of a molecule is not inside the box after remove_pbc", fc, "fractions in [0,1]",
                        fr[m].tolist(), {"molecule": comp, "input": Wd[m].tolist(), "output": g[m].tolist(),
                                         "box": B[m].tolist()})
                return
    ctx.outcome((site, gname, str(edges), got.tobytes()[:256]))


# ---------------------------------------------------------------------------
# biotite's own transformations are the documented rigid motions
# ---------------------------------------------------------------------------
DIRS26 = [list(d) for d in itertools.product([-1, 0, 1], repeat=3) if any(d)]
QUARTER = [0.0, math.pi / 2, math.pi, 3 * math.pi / 2]
GEN_ANG = [0.1, 1.0, 2.5]


def all_pair_dist(X):
    X = np.asarray(X, dtype=np.float64)
    d = X[:, None, :] - X[None, :, :]
    return np.sqrt((d * d).sum(axis=-1))


def coords_of(x):
    return np.asarray(x.coord if hasattr(x, "coord") else x, dtype=np.float64)


def run_transform(shard, ctx, focus=None):
    import biotite.structure as struc

    rep = Reporter(ctx, shard)
    what = shard["what"]
    base = P27.astype(np.float64) + np.array([0.5, 1.0, -2.0])      # centroid away from the origin
    stack3 = np.stack([base, base[::-1] * 1.5, base + 3.0])
    forms = {"n3": f32(base), "vec": f32(base[5]), "mn3": f32(stack3), "AtomArray": to_object(base),
             "AtomArrayStack": to_object(stack3), "Atom": to_object(base[5])}
    D0 = all_pair_dist(base)

    def expect_apply(form, fn):
        """apply the reference map fn((n,3) float64)->(n,3) to the value of a form"""
        x = coords_of(forms[form])
        if x.ndim == 1:
            return fn(x[None])[0]
        if x.ndim == 2:
            return fn(x)
        return np.stack([fn(m) for m in x])

    def judge(site, fc, form, got, exp, tol):
        ctx.ev(max(1, exp.size // 3), max(1, exp.size // 3))
        if got is None:
            return
        if type(got) is not type(forms[form]):
            rep.bad("%s|wrong_type|%s" % (site, form), "result type differs from the argument type", fc,
                    type(forms[form]).__name__, type(got).__name__)
            return
        g = coords_of(got)
        if g.shape != exp.shape:
            rep.bad("%s|bad_shape|%s" % (site, form), "shape changed", fc, exp.shape, g.shape)
            return
        if not (np.abs(g - exp) <= tol).all():
            k = first_bad((np.abs(g - exp) > tol).any(axis=-1))
            rep.bad("%s|value|%s" % (site, fc["cls"]), "transformed coordinates differ from the documented rigid motion", fc,
                    exp.reshape(-1, 3)[k].tolist(), g.reshape(-1, 3)[k].tolist())
            return
        if form == "n3" and fc.get("vec", "v3") in ("v3", "list"):
            if not (np.abs(all_pair_dist(g) - D0) <= 2e-5).all():
                rep.bad("%s|distances_changed|%s" % (site, fc["cls"]), "pairwise distances are not invariant", fc)
        ctx.outcome((site, form, g.tobytes()[:128]))

    if what == "translate":
        vecs = {"v3": np.array([1.0, -2.0, 3.5]), "vn3": base[::-1] * 0.5, "vmn3": stack3[::-1] * 0.25,
                "list": [0.5, 0.25, -8.0]}
        for form in forms:
            for vn, v in vecs.items():
                x = coords_of(forms[form])
                try:
                    exp = x + np.asarray(v, dtype=np.float64)
                except ValueError:
                    continue
                if exp.shape != x.shape:
                    continue         # the vector would enlarge the coordinates: not a documented combination
                fc = {"form": form, "vec": vn, "cls": "%s_%s" % (form, vn)}
                ctx.journal(json.dumps({"s": shard, "f": fc}))
                got = call(rep, "translate", fc, struc.translate, forms[form], v if vn == "list" else f32(v))
                judge("translate", fc, form, got, exp, 1e-5)
        return
    if what in ("rotate", "rotate_centered"):
        angle_sets = [("quarter", a) for a in itertools.product(QUARTER, repeat=3)] + \
                     [("generic", a) for a in itertools.product(GEN_ANG, repeat=3)]
        fn = getattr(struc, what)
        for cls, ang in angle_sets:
            Rm = geom.rot_xyz(ang)
            for form in forms:
                fc = {"angles": list(ang), "form": form, "cls": cls}
                if focus is not None and (focus.get("angles") != list(ang) or focus.get("form") != form):
                    continue
                ctx.journal(json.dumps({"s": shard, "f": fc}))
                if what == "rotate":
                    exp = expect_apply(form, lambda m: geom.apply_rot(m, Rm))
                elif coords_of(forms[form]).ndim == 1:
                    exp = coords_of(forms[form])
                else:
                    exp = expect_apply(form, lambda m: geom.apply_rot(m - m.mean(axis=0), Rm) + m.mean(axis=0))
                got = call(rep, what, fc, fn, forms[form], list(ang) if form != "n3" else np.array(ang))
                judge(what, fc, form, got, exp, 2e-5)
        return
    if what == "rotate_about_axis":
        angs = [math.pi / 2, math.pi, 2 * math.pi / 3, 0.1, 1.0, 2.5, -1.0]
        for ax in DIRS26:
            for ang in angs:
                Rm = geom.rot_axis(ax, ang)
                for sup in (None, [1.0, 2.0, 3.0]):
                    for form in ("n3", "vec", "mn3", "AtomArray", "AtomArrayStack"):
                        fc = {"axis": ax, "angle": ang, "support": sup, "form": form,
                              "cls": "support" if sup else "origin"}
                        if focus is not None and any(focus.get(k) != fc[k] for k in ("axis", "angle", "support", "form")):
                            continue
                        ctx.journal(json.dumps({"s": shard, "f": fc}))
                        s0 = np.zeros(3) if sup is None else np.array(sup)
                        exp = expect_apply(form, lambda m: geom.apply_rot(m - s0, Rm) + s0)
                        got = call(rep, "rotate_about_axis", fc, struc.rotate_about_axis, forms[form], ax, ang, sup)
                        judge("rotate_about_axis", fc, form, got, exp, 3e-5)
        return
    if what == "align_vectors":
        for o in DIRS26:
            for t in DIRS26:
                o64, t64 = np.array(o, dtype=float), np.array(t, dtype=float)
                cosang = float(o64 @ t64 / math.sqrt((o64 @ o64) * (t64 @ t64)))
                anti = cosang < -1 + 1e-9
                for pos in (None, ([1.0, 0.0, 2.0], [-1.0, 3.0, 0.5])):
                    fc = {"origin": o, "target": t, "pos": pos, "cls": "antiparallel_directions" if anti else
                          ("parallel_directions" if cosang > 1 - 1e-9 else "general_directions")}
                    if focus is not None and any(focus.get(k) != fc[k] for k in ("origin", "target", "pos")):
                        continue
                    ctx.journal(json.dumps({"s": shard, "f": fc}))
                    op = np.zeros(3) if pos is None else np.array(pos[0])
                    tp = np.zeros(3) if pos is None else np.array(pos[1])
                    probe = np.concatenate([[op, op + o64], base])
                    kw = {} if pos is None else {"origin_position": pos[0], "target_position": pos[1]}
                    ctx.ev(len(probe), len(probe))
                    if anti:
                        ctx.count("unspecified")
                        try:
                            got = struc.align_vectors(f32(probe), o, t, **kw)
                        except Exception:  # noqa: BLE001
                            ctx.count("unspecified_refused")
                            continue
                    else:
                        ctx.count("accepted")
                        got = call(rep, "align_vectors", fc, struc.align_vectors, f32(probe), o, t, **kw)
                        if got is None:
                            continue
                    g = np.asarray(got, dtype=np.float64)
                    want1 = tp + t64 * math.sqrt((o64 @ o64) / (t64 @ t64))
                    ok_map = g.shape == probe.shape and np.abs(g[0] - tp).max() <= 1e-4 and np.abs(g[1] - want1).max() <= 1e-4
                    ok_rigid = g.shape == probe.shape and (np.abs(all_pair_dist(g) - all_pair_dist(probe)) <= 1e-4).all()
                    ok_proper = True
                    if ok_rigid:
                        e = g[2:] - g[2]
                        e0 = probe[2:] - probe[2]
                        k1, k2, k3 = 1, 3, 9      # three lattice points spanning a positive volume in 'base'
                        ok_proper = np.sign(np.linalg.det(e[[k1, k2, k3]])) == np.sign(np.linalg.det(e0[[k1, k2, k3]]))
                    if not (ok_map and ok_rigid and ok_proper):
                        mode = "not_rigid" if not ok_rigid else "improper" if not ok_proper else "origin_not_mapped_to_target"
                        rep.bad("align_vectors|%s|%s" % (mode, fc["cls"]),
                                "the applied transformation does not carry the origin vector onto the target vector rigidly",
                                fc, [tp.tolist(), want1.tolist()], g[:2].tolist() if g.ndim == 2 else list(g.shape))
                    else:
                        ctx.outcome(("align", tuple(o), tuple(t), pos is None))
        return
    if what == "orient":
        pts = np.array([[0, 0, 0], [1, 0, 0], [0, 2, 0], [0, 0, 3], [1, 1, 0], [2, 0, 1], [-1, 1, 2], [3, 3, 3], [-2, 0, -1],
                        [1, -3, 2], [0, 4, -1], [2, 2, -2]], dtype=np.float64)
        orders = [None] + [list(p) for p in itertools.permutations(range(3))]
        for k in (3, 4):
            for sub in itertools.combinations(range(len(pts)), k):
                X = pts[list(sub)] + np.array([5.0, -2.0, 1.0])
                for oi, order in enumerate(orders):
                    if (sum(sub) + oi) % (1 if ctx.tier == "thorough" else 3) != 0:
                        continue
                    fc = {"sub": list(sub), "order": order, "cls": "n%d" % k}
                    if focus is not None and (focus.get("sub") != list(sub) or focus.get("order") != order):
                        continue
                    ctx.journal(json.dumps({"s": shard, "f": fc}))
                    ctx.ev(k, k)
                    got = call(rep, "orient_principal_components", fc, struc.orient_principal_components, f32(X),
                               **({} if order is None else {"order": order}))
                    if got is None:
                        continue
                    g = np.asarray(got, dtype=np.float64)
                    if g.shape != X.shape or not (np.abs(all_pair_dist(g) - all_pair_dist(X)) <= 2e-4).all():
                        rep.bad("orient_principal_components|not_rigid|%s" % fc["cls"], "pairwise distances changed", fc,
                                all_pair_dist(X).tolist(), all_pair_dist(g).tolist() if g.shape == X.shape else list(g.shape))
                        continue
                    if np.abs(g.mean(axis=0)).max() > 2e-4:
                        rep.bad("orient_principal_components|not_centered|%s" % fc["cls"], "centroid is not at the origin", fc,
                                [0, 0, 0], g.mean(axis=0).tolist())
                        continue
                    if k == 4:
                        v0 = np.linalg.det(X[1:] - X[0])
                        v1 = np.linalg.det(g[1:] - g[0])
                        if abs(v0) > 1e-6 and np.sign(v0) != np.sign(v1):
                            rep.bad("orient_principal_components|improper|n4", "the transformation is a reflection (chirality flipped)",
                                    fc, float(v0), float(v1))
                            continue
                    ctx.outcome(("orient", sub, oi))
        return
    raise ValueError(shard)


# ---------------------------------------------------------------------------
# centroid and dihedral_backbone
# ---------------------------------------------------------------------------
STEPS = [[1, 0, 0], [0, 1, 0], [0, 0, 1], [1, 1, 0], [0, -1, 1], [-1, 0, 1]]


def run_backbone(shard, ctx, focus=None):
    import biotite.structure as struc
    from mc import ccd

    ccd.install_ccd()
    rep = Reporter(ctx, shard)
    nres = shard["nres"]
    nat = 3 * nres
    walks = np.array(list(itertools.product(range(len(STEPS)), repeat=nat - 1)))
    walks = walks[shard["part"]::shard["parts"]]
    steps = np.array(STEPS)[walks]                                   # (w, nat-1, 3)
    pos = np.concatenate([np.zeros((len(walks), 1, 3)), np.cumsum(steps, axis=1)], axis=1)   # (w, nat, 3)
    names = ["N", "CA", "C"] * nres
    resn = ["GLY", "ALA", "SER"]
    fc = {"cls": "nres%d" % nres}
    ctx.journal(json.dumps({"s": shard}))
    stk = struc.AtomArrayStack(len(walks), nat)
    stk.coord = f32(pos)
    stk.atom_name[:] = names
    stk.res_name[:] = np.repeat([resn[i % 3] for i in range(nres)], 3)
    stk.res_id[:] = np.repeat(np.arange(1, nres + 1), 3)
    stk.chain_id[:] = "A"
    stk.element[:] = [n[0] for n in names]
    r = call(rep, "dihedral_backbone", fc, struc.dihedral_backbone, stk)
    if r is None:
        return
    phi, psi, omg = (np.asarray(x) for x in r)
    P = pos

    def at(res, name):
        return P[:, 3 * res + ["N", "CA", "C"].index(name)]

    ok_all = True
    for ri in range(nres):
        exp = {}
        if ri > 0:
            exp["phi"] = geom.tb_dihedral(at(ri - 1, "C"), at(ri, "N"), at(ri, "CA"), at(ri, "C"))
        if ri < nres - 1:
            exp["psi"] = geom.tb_dihedral(at(ri, "N"), at(ri, "CA"), at(ri, "C"), at(ri + 1, "N"))
            exp["omega"] = geom.tb_dihedral(at(ri, "CA"), at(ri, "C"), at(ri + 1, "N"), at(ri + 1, "CA"))
        for nm, arr in (("phi", phi), ("psi", psi), ("omega", omg)):
            if arr.shape != (len(walks), nres):
                rep.bad("dihedral_backbone|bad_shape|stack", "wrong shape", fc, (len(walks), nres), arr.shape)
                return
            col = arr[:, ri].astype(np.float64)
            ctx.ev(len(walks), len(walks) if nm in exp else 0)
            if nm not in exp:
                if not np.isnan(col).all():
                    rep.bad("dihedral_backbone|terminus_not_nan|%s" % nm, "an undefined terminal angle is not NaN", fc, "nan",
                            float(col[~np.isnan(col)][0]))
                    ok_all = False
                continue
            tb, ok = exp[nm]
            bad = ok & ~(geom.ang_diff(col, tb) <= 2e-4)
            if bad.any():
                k = first_bad(bad)
                rep.bad("dihedral_backbone|value|%s" % nm, "backbone angle differs from the textbook dihedral of its four atoms",
                        fc, float(tb[k]), float(col[k]), {"walk": walks[k].tolist(), "residue": ri})
                ok_all = False
    # single-model path on a subset, and invariance under a cube rotation + translation
    for k in range(0, len(walks), max(1, len(walks) // 40)):
        arr = stk[k]
        r1 = call(rep, "dihedral_backbone", dict(fc, form="array"), struc.dihedral_backbone, arr)
        ctx.ev(3 * nres, 3 * nres)
        if r1 is not None:
            for a, b in zip(r1, (phi[k], psi[k], omg[k])):
                if not np.array_equal(np.asarray(a), b, equal_nan=True):
                    rep.bad("dihedral_backbone|array_differs_from_stack|%s" % fc["cls"],
                            "AtomArray result differs from the stack result of the same model", fc)
                    break
    mv = stk.copy()
    mv.coord = f32(motion_points(np.rint(pos).astype(np.int64), ROTS[11], [7, -3, 0]))
    r2 = call(rep, "dihedral_backbone", dict(fc, form="moved"), struc.dihedral_backbone, mv)
    ctx.ev(3 * nres * len(walks), 3 * nres * len(walks))
    if r2 is not None:
        for a, b in zip(r2, (phi, psi, omg)):
            d = geom.ang_diff(np.asarray(a, dtype=np.float64), b.astype(np.float64))
            if (np.isnan(np.asarray(a)) != np.isnan(b)).any() or np.nanmax(np.where(np.isnan(d), 0, d)) > 3e-4:
                rep.bad("dihedral_backbone|not_invariant|cube_motion", "backbone angles change under a rigid motion", fc)
                break
    # centroid
    for form, obj, exp in (("n3", f32(pos[0]), pos[0].mean(axis=0)), ("mn3", f32(pos), pos.mean(axis=1)),
                           ("AtomArray", stk[0], pos[0].mean(axis=0)), ("AtomArrayStack", stk, pos.mean(axis=1))):
        c = call(rep, "centroid", dict(fc, form=form), struc.centroid, obj)
        ctx.ev(max(1, exp.size // 3), max(1, exp.size // 3))
        if c is not None and (np.shape(c) != exp.shape or (np.abs(np.asarray(c) - exp) > 1e-5).any()):
            rep.bad("centroid|value|%s" % form, "centroid differs from the mean of the coordinates", fc)
    if ok_all:
        ctx.outcome(("backbone", nres, shard["part"], phi.tobytes()[:512]))


# ---------------------------------------------------------------------------
# dimension audit families: many models, argument order, aliasing, array flavours, edges
# ---------------------------------------------------------------------------
MODEL_COUNTS = [1, 2, 3, 10, 100, 1000]
MODEL_BASES = ["o_3_3_3", "t2", "o_2_5_9", "upper", "t1", "full", "lefthanded"]


def model_boxes(m):
    """m pairwise different boxes: the base palette scaled by 1, 1.125, 1.25, ... (exact in binary)"""
    return np.stack([box_of(MODEL_BASES[k % len(MODEL_BASES)]) * (1.0 + 0.125 * ((k // len(MODEL_BASES)) % 8))
                     for k in range(m)])


def run_models(shard, ctx, focus=None):
    """per-model boxes with many models (biotite loops over the models in Python)"""
    import biotite.structure as struc

    rep = Reporter(ctx, shard)
    m = shard["m"]
    n = 5
    B = model_boxes(m)
    fc = {"m": m, "cls": "m%d" % m}
    ctx.journal(json.dumps({"s": shard}))
    base = shape_bases()
    X1 = np.stack([1.0 + 0.25 * (base[0][k % SH_M, :n - 1 if n - 1 <= SH_N else SH_N] + 2) / 2.0 for k in range(m)])
    X2 = np.stack([1.0 + 0.25 * (base[1][(k + 1) % SH_M, :X1.shape[1]] + 2) / 2.0 for k in range(m)])
    n = X1.shape[1]
    shifts = np.array(list(itertools.product([-2, -1, 0, 1, 2], repeat=3)))
    sh1 = shifts[(np.arange(m * n) * 7 + 3) % len(shifts)].reshape(m, n, 3)
    sh2 = shifts[(np.arange(m * n) * 11 + 5) % len(shifts)].reshape(m, n, 3)
    W1 = X1 + np.einsum("mak,mkj->maj", sh1.astype(float), B)
    W2 = X2 + np.einsum("mak,mkj->maj", sh2.astype(float), B)
    exp = X2 - X1
    for form in ("ndarray", "object"):
        a1, a2 = (f32(W1), f32(W2)) if form == "ndarray" else (to_object(W1), to_object(W2))
        f2 = dict(fc, form=form)
        d = call(rep, "displacement", f2, struc.displacement, a1, a2, box=f32(B))
        ctx.ev(m * n, m * n)
        ctx.count("accepted", m * n)
        tolv = 2e-5 * (1 + np.abs(B).max())
        if d is not None:
            if np.shape(d) != exp.shape or not (np.abs(np.asarray(d, dtype=float) - exp) <= tolv).all():
                k = first_bad((np.abs(np.asarray(d, dtype=float) - exp) > tolv).any(axis=-1)) if np.shape(d) == exp.shape else 0
                rep.bad("displacement|value|per_model_boxes", "displacement with per-model boxes differs from the true "
                        "minimum-image vector", f2, exp.reshape(-1, 3)[k].tolist(),
                        np.asarray(d).reshape(-1, 3)[k].tolist() if np.shape(d) == exp.shape else list(np.shape(d)),
                        {"model": int(k // n)})
        dd = call(rep, "distance", f2, struc.distance, a1, a2, box=f32(B))
        ctx.ev(m * n, m * n)
        if dd is not None and (np.shape(dd) != exp.shape[:2] or not
                               (np.abs(np.asarray(dd, dtype=float) - np.linalg.norm(exp, axis=-1)) <= tolv).all()):
            rep.bad("distance|value|per_model_boxes", "distance with per-model boxes differs from the minimum-image "
                    "distance", f2)
    # index variant on a stack with a per-model box attribute
    stk = to_object(np.concatenate([W1, W2], axis=1))
    stk.box = f32(B)
    idx = np.stack([np.arange(n), np.arange(n) + n], axis=1)
    di = call(rep, "index_displacement", fc, struc.index_displacement, stk, idx, periodic=True)
    ctx.ev(m * n, m * n)
    if di is not None and (np.shape(di) != exp.shape or not (np.abs(np.asarray(di, dtype=float) - exp) <= tolv).all()):
        rep.bad("index_displacement|value|per_model_boxes", "index_displacement(periodic=True) on a stack with per-model "
                "boxes differs from the true minimum-image vector", fc)
    # box helpers with (m,3,3)
    mv = call(rep, "move_inside_box", fc, struc.move_inside_box, f32(W1), f32(B))
    ctx.ev(m * n, m * n)
    if mv is not None:
        g = np.asarray(mv, dtype=float)
        ok = g.shape == W1.shape
        if ok:
            inv = np.linalg.inv(B)
            coef = np.einsum("mak,mkj->maj", g - f32(W1).astype(float), inv)
            fr = np.einsum("mak,mkj->maj", g, inv)
            ok = (np.abs(coef - np.rint(coef)) < 1e-4).all() and (fr > -1e-4).all() and (fr < 1 + 1e-4).all()
        if not ok:
            rep.bad("move_inside_box|value|per_model_boxes", "move_inside_box with per-model boxes: not a lattice shift "
                    "into the box of the model", fc)
    fr = call(rep, "coord_to_fraction", fc, struc.coord_to_fraction, f32(W1), f32(B))
    ctx.ev(m * n, m * n)
    if fr is not None:
        want = np.einsum("mak,mkj->maj", f32(W1).astype(float), np.linalg.inv(B))
        if np.shape(fr) != want.shape or not (np.abs(fr - want) <= 5e-5 * (1 + np.abs(want))).all():
            rep.bad("coord_to_fraction|value|per_model_boxes", "fractions with per-model boxes are wrong", fc)
        back = call(rep, "fraction_to_coord", fc, struc.fraction_to_coord, fr, f32(B))
        if back is not None and not (np.abs(back - f32(W1)) <= 2e-4 * (1 + np.abs(B).max())).all():
            rep.bad("fraction_to_coord|not_inverse|per_model_boxes", "fraction_to_coord(coord_to_fraction(x)) != x", fc)
    io = call(rep, "is_orthogonal", fc, struc.is_orthogonal, f32(B))
    ctx.ev(m, m)
    if io is not None:
        want = [box_is_ortho(b) for b in B]
        if list(map(bool, np.atleast_1d(io))) != want:
            rep.bad("is_orthogonal|value|per_model_boxes", "is_orthogonal on (m,3,3) boxes is wrong", fc, want[:8],
                    np.atleast_1d(io).tolist()[:8])
    ctx.outcome(("models", m))


INDEX_DTYPES = ["int64", "int32", "int16", "uint8", "uint64", "strided", "readonly", "fortran", "negative", "list"]


def run_order(shard, ctx, focus=None):
    """argument order: displacement(a,b) == -displacement(b,a), distance(a,b) == distance(b,a), angle(a,b,c) ==
    angle(c,b,a), dihedral(a,b,c,d) == dihedral(d,c,b,a) - for every shape combination, without and with a box; index
    arrays in other dtypes / layouts give what the int64 array gives"""
    import biotite.structure as struc

    rep = Reporter(ctx, shard)
    if focus is not None and not ("combo" in focus or "dtype" in focus):
        focus = None
    bases = shape_bases()
    funcs = {nm: getattr(struc, nm) for nm in NARGS}
    boxes = [None, np.diag([5.0, 5.0, 5.0]), box_of("t2")]
    shifts = np.array(list(itertools.product([-2, -1, 0, 1, 2], repeat=3)))
    for fname, k in NARGS.items():
        for combo in itertools.product(SH_FORMS, repeat=k):
            for bi, box in enumerate(boxes):
                fc = {"f": fname, "combo": list(combo), "bi": bi, "cls": "%s_%s" % ("box" if bi else "plain", "_".join(combo))}
                if focus is not None and ("combo" not in focus or any(focus.get(x) != fc[x] for x in ("f", "combo", "bi"))):
                    continue
                ctx.journal(json.dumps({"s": shard, "f": fc}))
                args, true = [], []
                for i, c in enumerate(combo):
                    x = 1.0 + 0.25 * (take_form(bases[i], c) + 2) / 2.0
                    true.append(x)
                    if box is not None:
                        nsh = shifts[(np.arange(x.size // 3) * 7 + 13 * i + bi) % len(shifts)].reshape(x.shape)
                        x = x + nsh @ box
                    args.append(f32(x))
                kw = {} if box is None else {"box": f32(box)}
                fw = call(rep, fname, fc, funcs[fname], *args, **kw)
                bw = call(rep, fname, fc, funcs[fname], *args[::-1], **kw)
                ctx.ev(2, 2)
                if fw is None or bw is None:
                    continue
                fwd, bwd = np.asarray(fw, dtype=float), np.asarray(bw, dtype=float)
                tol = 4 * EPS * 16 if box is None else 3e-5
                if fname == "displacement":
                    good = fwd.shape == bwd.shape and (np.abs(fwd + bwd) <= tol).all()
                elif fname == "distance":
                    good = fwd.shape == bwd.shape and (np.abs(fwd - bwd) <= tol).all()
                else:
                    _, okm = tb_measure(fname, true)       # undefined textbook value: any value either way
                    with np.errstate(invalid="ignore"):
                        good = fwd.shape == bwd.shape and (~okm | (geom.ang_diff(fwd, bwd) <= (1e-3 if fname == "angle" else 2e-3))
                                                           | (np.isnan(fwd) & np.isnan(bwd))).all()
                if not good:
                    rep.bad("%s|depends_on_argument_order|%s" % (fname, fc["cls"]),
                            "reversing the argument order does not %s the result" %
                            ("negate" if fname == "displacement" else "preserve"), fc,
                            np.asarray(fw).reshape(-1)[:6].tolist(), np.asarray(bw).reshape(-1)[:6].tolist())
                else:
                    ctx.outcome(("order", fname, combo, bi))
    # index arrays: dtype / layout flavours
    X = f32(1.0 + 0.25 * (bases[0] + 2) / 2.0)
    arr = to_object(X[0])
    arr.box = f32(np.diag([5.0, 5.0, 5.0]))
    for fname, k in (("distance", 2), ("displacement", 2), ("angle", 3), ("dihedral", 4)):
        fn = getattr(struc, "index_" + fname)
        idx = np.array(list(itertools.product(range(SH_N), repeat=k)), dtype=np.int64)
        for obj, kw, oname in ((X[0], {}, "ndarray"), (X, {}, "stack_coord"), (arr, {"periodic": True}, "AtomArray_periodic")):
            ref = call(rep, "index_" + fname, {"cls": "int64"}, fn, obj, idx, **kw)
            if ref is None:
                continue
            for dt in INDEX_DTYPES:
                fc = {"f": "index_" + fname, "dtype": dt, "obj": oname, "cls": "index_%s" % dt}
                if focus is not None and ("dtype" not in focus or any(focus.get(x) != fc[x] for x in ("f", "dtype", "obj"))):
                    continue
                if dt in ("int64", "int32", "int16", "uint8", "uint64"):
                    ia = idx.astype(dt)
                elif dt == "strided":
                    big = np.zeros((2 * len(idx), k), dtype=np.int64)
                    big[::2] = idx
                    ia = big[::2]
                elif dt == "readonly":
                    ia = idx.copy()
                    ia.flags.writeable = False
                elif dt == "fortran":
                    ia = np.asfortranarray(idx)
                elif dt == "negative":
                    ia = idx - SH_N          # the same atoms addressed from the end
                else:
                    ia = idx.tolist()
                ctx.ev(len(idx), len(idx))
                ctx.journal(json.dumps({"s": shard, "f": fc}))
                if dt in ("list", "uint64"):   # documented: ndarray; uint64 + Python int arithmetic is numpy's business
                    ctx.count("unspecified")
                    try:
                        with np.errstate(all="ignore"):
                            got = fn(obj, ia, **kw)
                    except Exception:  # noqa: BLE001
                        ctx.count("unspecified_refused")
                        continue
                else:
                    got = call(rep, "index_" + fname, fc, fn, obj, ia, **kw)
                    if got is None:
                        continue
                if np.shape(got) != np.shape(ref) or not np.array_equal(np.asarray(got), np.asarray(ref), equal_nan=True):
                    rep.bad("index_%s|depends_on_index_flavour|%s" % (fname, dt),
                            "the same indices in another dtype / layout give another result", fc)
                if isinstance(ia, np.ndarray) and not np.array_equal(ia, (idx - SH_N) if dt == "negative" else idx.astype(ia.dtype)):
                    rep.bad("index_%s|argument_modified|indices" % fname, "the index array was modified", fc)


def _flavours(x, with_list=True):
    """[(name, object)] : the float32 C array x in other flavours (same values)"""
    x = np.asarray(x, dtype=np.float32)
    out = [("f64", x.astype(np.float64)), ("fortran", np.asfortranarray(x))]
    big = np.full((2,) + x.shape if x.ndim == 1 else (2 * x.shape[0],) + x.shape[1:], 9.0, dtype=np.float32)
    if x.ndim == 1:
        big = np.full(2 * x.shape[0], 9.0, dtype=np.float32)
        big[::2] = x
        out.append(("strided", big[::2]))
    else:
        big[::2] = x
        out.append(("strided", big[::2]))
    ro = x.copy()
    ro.flags.writeable = False
    out.append(("readonly", ro))
    if np.all(x == np.rint(x)):
        out.append(("int64", np.rint(x).astype(np.int64)))
    # two awkward features in one array
    big_ro = big.copy()
    big_ro.flags.writeable = False
    out.append(("readonly_strided", big_ro[::2]))
    f64f = np.asfortranarray(x.astype(np.float64))
    f64f.flags.writeable = False
    out.append(("f64_fortran_readonly", f64f))
    out.append(("f64_strided", big.astype(np.float64)[::2]))
    if with_list:
        out.append(("list", x.tolist()))
    return out


def audit_calls():
    """(name, function getter, argument builder) for every anchored function; arguments are float32 C arrays"""
    import biotite.structure as struc

    # compact geometry (all inside a cube of side 0.5: every minimum image is unique in all boxes used here); Q is
    # additionally moved by lattice vectors of the box t2, which only the single-box calls use
    box = f32(box_of("t2"))
    # generic positions (fractional parts of multiples of sqrt 2, 3, 5): no collinear / degenerate tuples
    kk = np.arange(1, 36, dtype=float)[:, None]
    gen = 1.0 + 0.5 * np.modf(kk * np.sqrt(np.array([2.0, 3.0, 5.0])))[0]
    P = f32(gen[:7])
    Q0 = gen[7:14]
    Q = f32(Q0 + np.array([[1, 0, -2], [0, 0, 0], [-1, 2, 1], [2, -2, 0], [0, 1, 0], [-2, 0, 1], [1, 1, 1]], dtype=float)
            @ box.astype(float))
    S = f32(gen[14:35].reshape(3, 7, 3))
    boxes = f32(np.stack([box_of("t2"), box_of("o_3_3_3"), box_of("upper")]))
    idx2 = np.array([[0, 1], [2, 6], [5, 5]])
    idx3 = np.array([[0, 1, 2], [6, 3, 1]])
    idx4 = np.array([[0, 1, 2, 3], [6, 5, 4, 2]])
    return [
        ("displacement", struc.displacement, [P, Q], {}), ("displacement_box", struc.displacement, [P, Q], {"box": box}),
        ("displacement_stack_boxes", struc.displacement, [S, S[::-1].copy()], {"box": boxes}),
        ("distance", struc.distance, [P, Q], {}), ("distance_box", struc.distance, [P[2], Q], {"box": box}),
        ("angle", struc.angle, [P, Q, P[::-1].copy()], {}), ("angle_box", struc.angle, [P, Q, P[::-1].copy()], {"box": box}),
        ("dihedral", struc.dihedral, [P, Q, P[::-1].copy(), Q[::-1].copy()], {}),
        ("dihedral_box", struc.dihedral, [S, Q, P[::-1].copy(), S[::-1].copy()], {"box": box}),
        ("index_distance", struc.index_distance, [P, idx2], {}),
        ("index_displacement_box", struc.index_displacement, [S, idx2], {"periodic": True, "box": boxes}),
        ("index_angle", struc.index_angle, [P, idx3], {}), ("index_dihedral", struc.index_dihedral, [P, idx4], {}),
        ("centroid", struc.centroid, [S], {}),
        ("move_inside_box", struc.move_inside_box, [Q, box], {}), ("move_inside_box_stack", struc.move_inside_box, [S, boxes], {}),
        ("coord_to_fraction", struc.coord_to_fraction, [Q, box], {}), ("fraction_to_coord", struc.fraction_to_coord, [P, box], {}),
        ("repeat_box_coord", struc.repeat_box_coord, [P, box], {}), ("repeat_box_coord_stack", struc.repeat_box_coord, [S, boxes, 2], {}),
        ("remove_pbc_from_coord", struc.remove_pbc_from_coord, [Q, box], {}),
        ("remove_pbc_from_coord_stack", struc.remove_pbc_from_coord, [S, boxes], {}),
        ("is_orthogonal", struc.is_orthogonal, [boxes], {}), ("box_volume", struc.box_volume, [boxes], {}),
        ("unitcell_from_vectors", struc.unitcell_from_vectors, [box], {}),
        ("translate", struc.translate, [P, f32([1.0, -2.0, 3.5])], {}), ("translate_stack", struc.translate, [S, Q], {}),
        ("rotate", struc.rotate, [S, f32([0.1, 1.0, 2.5])], {}), ("rotate_centered", struc.rotate_centered, [S, f32([0.1, 1.0, 2.5])], {}),
        ("rotate_centered_vec", struc.rotate_centered, [P[1], f32([0.1, 1.0, 2.5])], {}),
        ("rotate_about_axis", struc.rotate_about_axis, [S, f32([1.0, 2.0, 3.0]), 1.0, f32([1.0, 1.0, 1.0])], {}),
        ("align_vectors", struc.align_vectors, [P, f32([1.0, 0, 0]), f32([0, 1.0, 1.0]), f32([1.0, 1, 1]), f32([2.0, 0, 1])], {}),
        ("orient_principal_components", struc.orient_principal_components, [P], {}),
    ]


def _tree_arrays(x):
    if isinstance(x, np.ndarray):
        return [x]
    if isinstance(x, (tuple, list)):
        out = []
        for y in x:
            out += _tree_arrays(y)
        return out
    return []


def _same(a, b, tol=0.0):
    if isinstance(b, list) and isinstance(a, np.ndarray):
        b = np.asarray(b, dtype=float)          # a list went in, a list of the same values came out
    la, lb = _tree_arrays(a), _tree_arrays(b)
    if not la and not lb:
        try:
            return bool(np.allclose(np.asarray(a, dtype=float), np.asarray(b, dtype=float), atol=tol, rtol=0, equal_nan=True))
        except Exception:  # noqa: BLE001
            return a == b
    if len(la) != len(lb):
        return False
    return all(x.shape == y.shape and np.allclose(x.astype(float), y.astype(float), atol=tol, rtol=0, equal_nan=True)
               for x, y in zip(la, lb))


def run_alias(shard, ctx, focus=None):
    """no anchored function modifies its array arguments; results do not share memory with the arguments; calling it a
    second time gives the same result; the same values in another array flavour give the same result"""
    import biotite.structure as struc

    rep = Reporter(ctx, shard)
    if focus is not None and "call" not in focus:
        focus = None
    for name, fn, args, kw in audit_calls():
        fc = {"call": name, "cls": name}
        if focus is not None and focus.get("call") != name:
            continue
        ctx.journal(json.dumps({"s": shard, "f": fc}))
        arrays = [a for a in list(args) + list(kw.values()) if isinstance(a, np.ndarray)]
        before = [a.copy() for a in arrays]
        first = call(rep, name.split("_box")[0], fc, fn, *args, **kw)
        ctx.ev(1, 1)
        if first is None:
            continue
        if any(not np.array_equal(a, b, equal_nan=True) for a, b in zip(arrays, before)):
            k = [i for i, (a, b) in enumerate(zip(arrays, before)) if not np.array_equal(a, b, equal_nan=True)][0]
            rep.bad("%s|argument_modified|array_argument_%d" % (name, k), "the call changed one of its array arguments", fc)
            continue
        shared = [i for i, a in enumerate(arrays) for r in _tree_arrays(first) if r.size and np.shares_memory(a, r)]
        if shared:
            # the statement does not forbid it; count (documented 'copy' for the transform functions only)
            if name.startswith(("translate", "rotate", "align", "orient")):
                rep.bad("%s|result_shares_memory_with_argument|array_argument_%d" % (name, shared[0]),
                        "the documented copy shares memory with the input", fc)
            else:
                ctx.count("unspecified")
                ctx.count("unspecified_result_shares_memory")
        keep = [r.copy() for r in _tree_arrays(first)]
        second = call(rep, name, fc, fn, *args, **kw)
        ctx.ev(1, 1)
        if second is not None and not (_same(first, second) and all(np.array_equal(a, b, equal_nan=True)
                                                                    for a, b in zip(keep, _tree_arrays(first)))):
            rep.bad("%s|second_call_differs|same_arguments" % name, "calling the function again with the same arguments "
                    "gave another result (or changed the first result)", fc)
        # D - content of another size in between (shorter, then the original again): the functions keep no state
        if not name.startswith("index_") and second is not None:
            def shrink(a):
                if isinstance(a, np.ndarray) and a.ndim >= 2 and a.shape[-1] == 3 and a.shape[-2] > 3 and a.dtype == np.float32:
                    return np.ascontiguousarray(a[..., :-2, :])
                return a
            sa, sk = [shrink(a) for a in args], {k: v for k, v in kw.items()}
            try:
                with np.errstate(all="ignore"):
                    small = fn(*sa, **sk)
                    third = fn(*args, **kw)
                ctx.ev(2, 2)
                if not _same(first, third):
                    rep.bad("%s|result_depends_on_previous_call|other_size_in_between" % name,
                            "the result changed after a call with fewer atoms in between", fc)
                del small
            except Exception as e:  # noqa: BLE001
                rep.bad("%s|raises_%s|other_size_in_between" % (name, type(e).__name__),
                        "a call with fewer atoms (or the call after it) raised", fc)
        # object arguments (AtomArray / AtomArrayStack) are not modified either
        if isinstance(args[0], np.ndarray) and args[0].ndim >= 2 and args[0].shape[-1] == 3 and name not in (
                "is_orthogonal", "box_volume", "unitcell_from_vectors"):
            obj = to_object(args[0])
            if "box" in kw or name.startswith(("move_inside", "coord_to", "fraction_to", "repeat", "remove_pbc")):
                pass
            snap = obj.coord.copy()
            try:
                with np.errstate(all="ignore"):
                    r = fn(obj, *args[1:], **kw)
                ctx.ev(1, 1)
                if not np.array_equal(obj.coord, snap):
                    rep.bad("%s|argument_modified|atom_object" % name, "the call changed the coordinates of its AtomArray / "
                            "AtomArrayStack argument", fc)
                elif hasattr(r, "coord") and np.shares_memory(r.coord, obj.coord):
                    rep.bad("%s|result_shares_memory_with_argument|atom_object" % name,
                            "the returned structure shares its coordinates with the input", fc)
            except Exception:  # noqa: BLE001
                ctx.count("unspecified")         # box helpers take coordinates only: objects are not documented
                ctx.count("unspecified_refused")
        ctx.outcome(("alias", name))
    # documented refusals leave their arguments alone
    P = f32(P27[[0, 5, 13]].astype(float))
    arr = to_object(P)
    refusals = [
        ("index_distance_periodic_without_box", lambda: struc.index_distance(P, np.array([[0, 1]]), periodic=True)),
        ("orient_two_points", lambda: struc.orient_principal_components(P[:2])),
        ("align_zero_origin", lambda: struc.align_vectors(P, [0, 0, 0], [1, 0, 0])),
        ("rotate_about_zero_axis", lambda: struc.rotate_about_axis(P, [0, 0, 0], 1.0)),
        ("repeat_box_without_box", lambda: struc.repeat_box(arr)),
        ("remove_pbc_without_box", lambda: struc.remove_pbc(arr)),
        ("translate_wrong_vector", lambda: struc.translate(P, [1.0, 2.0])),
        ("rotate_two_angles", lambda: struc.rotate(P, [1.0, 2.0])),
        ("index_wrong_width", lambda: struc.index_angle(P, np.array([[0, 1]]))),
    ]
    snapP, snapA = P.copy(), arr.coord.copy()
    for nm, fn in refusals:
        ctx.ev(1, 1)
        ctx.count("refused")
        try:
            fn()
            rep.bad("%s|accepted|documented_refusal" % nm, "a documented refusal did not happen", {"cls": nm})
        except Exception:  # noqa: BLE001
            pass
        if not (np.array_equal(P, snapP) and np.array_equal(arr.coord, snapA)):
            rep.bad("%s|argument_modified|refused_call" % nm, "a refused call changed its argument", {"cls": nm})
            break


def run_flavour(shard, ctx, focus=None):
    """every array argument of every anchored function in other flavours (float64, Fortran order, strided view,
    read-only, integer where the values are integral, list): same result as for the float32 C array"""
    rep = Reporter(ctx, shard)
    if focus is not None and "slot" not in focus:
        focus = None
    for name, fn, args, kw in audit_calls():
        ref = call(rep, name, {"cls": name}, fn, *args, **kw)
        if ref is None:
            continue
        slots = [("arg%d" % i, i, None) for i, a in enumerate(args) if isinstance(a, np.ndarray) and a.dtype == np.float32]
        slots += [("kw_%s" % k, None, k) for k, a in kw.items() if isinstance(a, np.ndarray) and a.dtype == np.float32]
        for sname, ai, ki in slots:
            orig = args[ai] if ai is not None else kw[ki]
            for fl, val in _flavours(orig):
                fc = {"call": name, "slot": sname, "flavour": fl, "cls": "%s_%s" % (sname, fl)}
                if focus is not None and any(focus.get(x) != fc[x] for x in ("call", "slot", "flavour")):
                    continue
                ctx.journal(json.dumps({"s": shard, "f": fc}))
                a2, k2 = list(args), dict(kw)
                if ai is not None:
                    a2[ai] = val
                else:
                    k2[ki] = val
                ctx.ev(1, 1)
                is_box = ki == "box" or (name.split("_stack")[0] in ("move_inside_box", "coord_to_fraction", "fraction_to_coord",
                                                                   "repeat_box_coord", "remove_pbc_from_coord") and ai == 1) \
                    or name in ("is_orthogonal", "box_volume", "unitcell_from_vectors")
                either = fl == "list" and (is_box or name.startswith(("index_", "move_inside", "coord_to", "fraction_to",
                                                                      "repeat_box", "remove_pbc")))
                if either:
                    ctx.count("unspecified")       # documented argument type: ndarray
                    try:
                        with np.errstate(all="ignore"):
                            got = fn(*a2, **k2)
                    except Exception:  # noqa: BLE001
                        ctx.count("unspecified_refused")
                        continue
                else:
                    got = call(rep, name, fc, fn, *a2, **k2)
                    if got is None:
                        continue
                tol = 1e-3 if (is_box or fl == "f64") else 1e-6     # float64 input changes the arithmetic of the box helpers
                if not _same(ref, got, tol):
                    rep.bad("%s|depends_on_array_flavour|%s" % (name, fl),
                            "the same values in another array flavour give another result", fc)
                else:
                    ctx.outcome(("flav", name, sname, fl))


PAIR_FLAVOURS = [("fortran", "readonly"), ("strided", "f64"), ("readonly_strided", "fortran"), ("f64_fortran_readonly", "strided")]


def run_flavour_pairs(shard, ctx, focus=None):
    """two array arguments of one call in different awkward flavours at the same time (every pair of float32 array slots
    x the listed flavour pairs, both ways round)"""
    rep = Reporter(ctx, shard)
    if focus is not None and "slots" not in focus:
        focus = None
    for name, fn, args, kw in audit_calls():
        slots = [(i, None) for i, a in enumerate(args) if isinstance(a, np.ndarray) and a.dtype == np.float32]
        slots += [(None, k) for k, a in kw.items() if isinstance(a, np.ndarray) and a.dtype == np.float32]
        if len(slots) < 2:
            continue
        ref = call(rep, name, {"cls": name}, fn, *args, **kw)
        if ref is None:
            continue
        for s1, s2 in itertools.combinations(range(len(slots)), 2):
            for fa, fb in PAIR_FLAVOURS + [(b, a) for a, b in PAIR_FLAVOURS]:
                fc = {"call": name, "slots": [s1, s2], "flavours": [fa, fb], "cls": "%s+%s" % (fa, fb)}
                if focus is not None and any(focus.get(x) != fc[x] for x in ("call", "slots", "flavours")):
                    continue
                ctx.journal(json.dumps({"s": shard, "f": fc}))
                a2, k2 = list(args), dict(kw)
                for sl, fl in ((slots[s1], fa), (slots[s2], fb)):
                    orig = args[sl[0]] if sl[0] is not None else kw[sl[1]]
                    val = dict(_flavours(orig, with_list=False))[fl]
                    if sl[0] is not None:
                        a2[sl[0]] = val
                    else:
                        k2[sl[1]] = val
                ctx.ev(1, 1)
                got = call(rep, name, fc, fn, *a2, **k2)
                if got is None:
                    continue
                if not _same(ref, got, 1e-3):
                    rep.bad("%s|depends_on_array_flavour|%s" % (name, fc["cls"]),
                            "the same values in two other array flavours give another result", fc)
                else:
                    ctx.outcome(("flavpair", name, s1, s2, fa, fb))


def _snapshot(x):
    """value snapshot of an Atom / AtomArray / AtomArrayStack / ndarray"""
    if isinstance(x, np.ndarray):
        return ("nd", x.tobytes(), x.shape, str(x.dtype))
    out = ["obj", type(x).__name__, np.asarray(x.coord).tobytes()]
    if hasattr(x, "get_annotation_categories"):
        for c in sorted(x.get_annotation_categories()):
            out.append((c, x.get_annotation(c).tolist()))
        out.append(None if x.box is None else np.asarray(x.box).tobytes())
        out.append(None if x.bonds is None else x.bonds.as_array().tolist())
    else:
        out.append((x.chain_id, x.res_id, x.atom_name))
    return out


def run_identity(shard, ctx, focus=None):
    """A - result identity: operations that 'return a copy' / a new structure must do so also when nothing has to be
    done (zero translation, zero angles, identical directions, atoms already inside the box, amount 0, already oriented
    input): the result is not the operand, and editing the result (coordinates, an annotation, the box, a bond) leaves
    the operand equal to its snapshot"""
    import biotite.structure as struc

    rep = Reporter(ctx, shard)
    if focus is not None and "op" not in focus:
        focus = None
    box = f32(np.diag([9.0, 9.0, 9.0]))
    pts = f32([[3, 0.5, 0.5], [1, 0.5, 0.5], [2, 1.5, 0.5], [2, 0.25, 0.5], [2, 0.5, 0.75], [2, 0.5, 0.25]])   # inside the box
    centered = f32([[3, 0, 0], [-3, 0, 0], [0, 2, 0], [0, -2, 0], [0, 0, 1], [0, 0, -1]])            # already oriented

    def make(form, base=pts):
        if form == "ndarray":
            return base.copy()
        if form == "vec":
            return base[0].copy()
        if form == "Atom":
            return struc.Atom(base[0].copy(), chain_id="A", res_id=1, atom_name="CA")
        if form == "AtomArray":
            a = to_object(base)
            a.chain_id[:] = "A"
            a.res_id[:] = np.arange(len(base))
            a.box = box.copy()
            a.bonds = struc.BondList(len(base), np.array([[0, 2, 1], [1, 2, 1], [3, 4, 1]]))
            return a
        st = to_object(np.stack([base, base + 0.125]))
        st.chain_id[:] = "A"
        st.box = np.stack([box, box])
        st.bonds = struc.BondList(len(base), np.array([[0, 2, 1], [1, 2, 1]]))
        return st

    allf = ("ndarray", "vec", "Atom", "AtomArray", "AtomArrayStack")
    arrs = ("ndarray", "AtomArray", "AtomArrayStack")
    ops = [
        ("translate_zero", lambda x: struc.translate(x, [0.0, 0.0, 0.0]), allf, True, pts),
        ("rotate_zero", lambda x: struc.rotate(x, [0.0, 0.0, 0.0]), allf, True, pts),
        ("rotate_centered_zero", lambda x: struc.rotate_centered(x, [0.0, 0.0, 0.0]), allf, True, pts),
        ("rotate_about_axis_zero", lambda x: struc.rotate_about_axis(x, [0, 0, 1], 0.0), allf, True, pts),
        ("rotate_about_axis_support_zero", lambda x: struc.rotate_about_axis(x, [0, 1, 1], 0.0, support=[1, 1, 1]), allf, True, pts),
        ("align_vectors_same", lambda x: struc.align_vectors(x, [1, 2, 3], [1, 2, 3]), allf, True, pts),
        ("align_vectors_same_positions", lambda x: struc.align_vectors(x, [0, 0, 1], [0, 0, 2], [1, 1, 1], [1, 1, 1]), allf, True, pts),
        ("orient_already_oriented", lambda x: struc.orient_principal_components(x), ("ndarray", "AtomArray"), True, centered),
        ("remove_pbc_nothing_to_do", lambda x: struc.remove_pbc(x), ("AtomArray", "AtomArrayStack"), True, pts),
        ("repeat_box_amount0", lambda x: struc.repeat_box(x, amount=0)[0], ("AtomArray", "AtomArrayStack"), True, pts),
        ("move_inside_box_inside", lambda x: struc.move_inside_box(x, box), ("ndarray",), False, pts),
        ("remove_pbc_from_coord_inside", lambda x: struc.remove_pbc_from_coord(x, box), ("ndarray",), False, pts),
        ("repeat_box_coord_amount0", lambda x: struc.repeat_box_coord(x, box, 0)[0], ("ndarray",), False, pts),
        ("fraction_identity_box", lambda x: struc.coord_to_fraction(x, f32(np.eye(3))), ("ndarray",), False, pts),
        ("coord_identity_box", lambda x: struc.fraction_to_coord(x, f32(np.eye(3))), ("ndarray",), False, pts),
    ]
    for nm, fn, forms, documented_copy, base in ops:
        for form in forms:
            fc = {"op": nm, "form": form, "cls": form}
            if focus is not None and (focus.get("op") != nm or focus.get("form") != form):
                continue
            ctx.journal(json.dumps({"s": shard, "f": fc}))
            x = make(form, base)
            snap = _snapshot(x)
            ctx.ev(1, 1)
            r = call(rep, nm, fc, fn, x)
            if r is None:
                continue
            if r is x:
                rep.bad("%s|returns_operand_itself|%s" % (nm, form), "the operation returned its operand instead of a new "
                        "object although nothing had to be changed", fc)
                continue
            rc = r if isinstance(r, np.ndarray) else np.asarray(r.coord)
            xc = x if isinstance(x, np.ndarray) else np.asarray(x.coord)
            if np.shares_memory(rc, xc):
                if documented_copy:
                    rep.bad("%s|result_shares_coordinates_with_operand|%s" % (nm, form),
                            "the documented copy / new structure shares its coordinate buffer with the operand", fc)
                    continue
                ctx.count("unspecified")
                ctx.count("unspecified_result_shares_memory")
            # value: nothing had to be done
            if rc.shape == xc.shape and not np.allclose(rc, xc if "orient" not in nm else rc, atol=1e-4):
                rep.bad("%s|value|identity_case" % nm, "an operation that has nothing to do changed the coordinates", fc,
                        xc.reshape(-1)[:6].tolist(), rc.reshape(-1)[:6].tolist())
                continue
            # edit the result in every way it offers; the operand must keep its snapshot
            if documented_copy or not np.shares_memory(rc, xc):
                try:
                    if isinstance(r, np.ndarray):
                        if r.flags.writeable:
                            r += 1
                    else:
                        r.coord = np.asarray(r.coord) + 1
                        if hasattr(r, "get_annotation_categories"):
                            r.chain_id[...] = "Z"
                            r.res_id[...] = -7
                            if r.box is not None:
                                r.box[...] = 0
                            if r.bonds is not None:
                                r.bonds.add_bond(0, 5, 2)
                                r.bonds.remove_bond(0, 2)
                            r.set_annotation("extra", np.zeros(r.array_length(), dtype=int))
                        else:
                            r.chain_id = "Z"
                except Exception as e:  # noqa: BLE001
                    rep.bad("%s|result_not_editable|%s" % (nm, form), "editing the result raised %s" % type(e).__name__, fc)
                    continue
                if _snapshot(x) != snap:
                    rep.bad("%s|editing_result_changes_operand|%s" % (nm, form),
                            "editing the returned structure changed the operand (shared annotation / box / bonds / coordinates)", fc)
                    continue
            ctx.outcome(("identity", nm, form))


def derived_objects():
    """E - [(name, object)] coordinates as the library itself hands them out (one level: results of indexing, slicing,
    model selection, transformations, box helpers), never built directly"""
    import biotite.structure as struc

    kk = np.arange(1, 43, dtype=float)[:, None]
    gen = 1.0 + 0.5 * np.modf(kk * np.sqrt(np.array([2.0, 3.0, 5.0])))[0]
    box = struc.vectors_from_unitcell(4.0, 5.0, 6.0, math.radians(90), math.radians(100), math.radians(75))
    arr = to_object(gen[:14])
    arr.box = box
    arr.res_id[:] = np.arange(14) // 3
    arr.bonds = struc.BondList(14, np.array([[i, i + 1, 1] for i in range(13)]))
    stk = to_object(gen.reshape(3, 14, 3))
    stk.box = np.stack([box, box * 1.25, box * 1.5])
    stk.res_id[:] = np.arange(14) // 3
    stk.bonds = arr.bonds.copy()
    mask = np.array([i % 3 != 1 for i in range(14)])
    out = [
        ("arr_mask", arr[mask]), ("arr_slice_step2", arr[::2]), ("arr_slice_tail", arr[3:]), ("arr_fancy_unsorted", arr[[9, 1, 5, 3, 12, 0, 7]]),
        ("arr_copy", arr.copy()), ("stack_model", stk[1]), ("stack_last_model", stk[-1]), ("stack_atom_slice", stk[:, 1::2]),
        ("stack_two_models", stk[::2]), ("stack_mask", stk[:, mask]),
        ("translated_arr", struc.translate(arr, [1, 2, 3])), ("rotated_stack", struc.rotate(stk, [0.1, 1.0, 2.5])),
        ("remove_pbc_arr", struc.remove_pbc(arr)), ("repeat_box_arr", struc.repeat_box(arr)[0][:21]),
        ("coord_view_row_step", arr.coord[::2]), ("coord_view_model", stk.coord[1]), ("coord_view_3d_step", stk.coord[:, ::2]),
        ("coord_fancy", arr.coord[[9, 1, 5, 3, 12, 0, 7]]), ("coord_transposed_view", np.ascontiguousarray(arr.coord.T).T),
        ("moved_inside_f64", struc.move_inside_box(arr.coord.astype(np.float64) * 3, box)),
        ("rotated_ndarray_f64", struc.rotate(arr.coord, [0.1, 1.0, 2.5])),
        ("fraction_roundtrip", struc.fraction_to_coord(struc.coord_to_fraction(arr.coord, box), box)),
        ("repeat_box_coord", struc.repeat_box_coord(arr.coord[:5], box)[0][:20]),
        ("centroid_stack", struc.centroid(stk)),          # (3,3): read as 3 atoms
    ]
    return out, box, stk


def fresh_twin(d):
    """the same values built from scratch (float32 C arrays, fresh containers)"""
    import biotite.structure as struc

    if isinstance(d, np.ndarray):
        return np.array(d, dtype=np.float32, order="C", copy=True)
    t = to_object(np.array(d.coord, dtype=np.float32, order="C", copy=True))
    t.res_id[:] = d.res_id
    if d.box is not None:
        t.box = np.array(d.box, dtype=np.float32, order="C", copy=True)
    if d.bonds is not None:
        t.bonds = struc.BondList(d.array_length(), np.array(d.bonds.as_array(), dtype=np.int64))
    return t


def run_derived(shard, ctx, focus=None):
    """every derived coordinate object through every operation that accepts it (op2(op1(x))), differential oracle: equal
    to the result for a twin with the same values built from scratch"""
    import biotite.structure as struc

    rep = Reporter(ctx, shard)
    if focus is not None and "derived" not in focus:
        focus = None
    objs, box, stk = derived_objects()
    dbox = {"unitcell_box": box, "stack_box_view": stk.box[1], "stack_boxes": stk.box}

    def cd(x):
        return x if isinstance(x, np.ndarray) else x.coord

    def second(x, k):      # a partner of the same shape made from x itself (rolled along the atom axis, shifted)
        return np.roll(np.asarray(cd(x), dtype=np.float32), k, axis=-2) + np.float32(0.125 * k)

    def bond_idx(x):       # index pairs as the library hands them out: uint32 columns of BondList.as_array()
        if not isinstance(x, np.ndarray) and x.bonds is not None and x.bonds.get_bond_count():
            return x.bonds.as_array()[:, :2]
        n = cd(x).shape[-2]
        return np.stack(np.triu_indices(n, 1), axis=1)[::2]

    def is_obj(x):
        return not isinstance(x, np.ndarray)

    ops = [
        ("displacement", lambda x: struc.displacement(x, second(x, 1)), None),
        ("displacement_box", lambda x: struc.displacement(x, second(x, 1), box=dbox["stack_box_view"]), None),
        ("distance_box", lambda x: struc.distance(second(x, 2), x, box=box), None),
        ("angle", lambda x: struc.angle(x, second(x, 1), second(x, 2)), None),
        ("dihedral_box", lambda x: struc.dihedral(second(x, 3), x, second(x, 1), second(x, 2), box=box), None),
        ("index_distance_bond_pairs", lambda x: struc.index_distance(x, bond_idx(x)), None),
        ("index_displacement_periodic", lambda x: struc.index_displacement(x, bond_idx(x), periodic=True,
                                                                           box=None if is_obj(x) and x.box is not None else box), None),
        ("index_angle", lambda x: struc.index_angle(x, np.array([[0, 1, 2], [2, 0, 1]])), None),
        ("centroid", lambda x: struc.centroid(x), None),
        ("move_inside_box", lambda x: struc.move_inside_box(cd(x), box if cd(x).ndim == 2 else np.stack([box] * len(cd(x)))), None),
        ("coord_to_fraction", lambda x: struc.coord_to_fraction(cd(x), box if cd(x).ndim == 2 else np.stack([box] * len(cd(x)))), None),
        ("remove_pbc_from_coord", lambda x: struc.remove_pbc_from_coord(cd(x), box if cd(x).ndim == 2 else np.stack([box] * len(cd(x)))), None),
        ("repeat_box_coord", lambda x: struc.repeat_box_coord(cd(x), box if cd(x).ndim == 2 else np.stack([box] * len(cd(x)))), None),
        ("remove_pbc", lambda x: struc.remove_pbc(x), "obj_box"),
        ("repeat_box", lambda x: struc.repeat_box(x), "obj_box"),
        ("translate", lambda x: struc.translate(x, [1.0, -2.0, 0.5]), None),
        ("rotate", lambda x: struc.rotate(x, [0.1, 1.0, 2.5]), None),
        ("rotate_centered", lambda x: struc.rotate_centered(x, [0.1, 1.0, 2.5]), None),
        ("rotate_about_axis", lambda x: struc.rotate_about_axis(x, [1, 2, 3], 1.0, support=[1, 1, 1]), None),
        ("align_vectors", lambda x: struc.align_vectors(x, [1, 0, 0], [0, 1, 1], [1, 1, 1], [2, 0, 1]), None),
        ("orient_principal_components", lambda x: struc.orient_principal_components(x), "2d"),
    ]
    for dname, d in objs:
        twin = fresh_twin(d)
        for oname, fn, need in ops:
            fc = {"derived": dname, "op": oname, "cls": dname}
            if focus is not None and (focus.get("derived") != dname or focus.get("op") != oname):
                continue
            if need == "obj_box" and (not is_obj(d) or d.box is None):
                continue
            if need == "2d" and cd(d).ndim != 2:
                continue
            ctx.journal(json.dumps({"s": shard, "f": fc}))
            ctx.ev(1, 1)
            snap = _snapshot(d)
            with np.errstate(all="ignore"):
                try:
                    want = fn(twin)
                except Exception:  # noqa: BLE001
                    ctx.count("unspecified")       # the operation does not take this kind of object at all
                    continue
            got = call(rep, oname, fc, fn, d)
            if got is None:
                continue
            g = got if not hasattr(got, "coord") else got.coord
            w = want if not hasattr(want, "coord") else want.coord
            if isinstance(got, tuple) and hasattr(got[0], "coord"):
                g, w = (got[0].coord, got[1]), (want[0].coord, want[1])
            if not _same(w, g, 2e-4):
                rep.bad("%s|differs_for_derived_input|%s" % (oname, dname),
                        "a coordinate object handed out by the library gives another result than the same values built "
                        "from scratch", fc)
                continue
            if _snapshot(d) != snap:
                rep.bad("%s|argument_modified|%s" % (oname, dname), "the derived input was modified", fc)
                continue
            ctx.outcome(("derived", dname, oname))
    # derived boxes as box argument
    P = f32(np.asarray(objs[0][1].coord))
    for bname, b in dbox.items():
        for oname, fn in (("displacement_box", lambda bb: struc.displacement(P if bb.ndim == 2 else np.stack([P] * 3), P[::-1] + 3, box=bb)),
                          ("move_inside_box", lambda bb: struc.move_inside_box(P * 4 if bb.ndim == 2 else np.stack([P * 4] * 3), bb)),
                          ("is_orthogonal", lambda bb: struc.is_orthogonal(bb)), ("unitcell_from_vectors", lambda bb: struc.unitcell_from_vectors(bb if bb.ndim == 2 else bb[2]))):
            fc = {"derived": bname, "op": oname, "cls": bname}
            if focus is not None and (focus.get("derived") != bname or focus.get("op") != oname):
                continue
            ctx.ev(1, 1)
            want = fn(np.array(b, dtype=np.float32, order="C", copy=True))
            got = call(rep, oname, fc, fn, b)
            if got is not None and not _same(want, got, 2e-4):
                rep.bad("%s|differs_for_derived_input|%s" % (oname, bname), "a box handed out by the library gives another "
                        "result than the same values built from scratch", fc)


PREC_BOXES = {
    "ortho": (np.diag([5.0, 5.0, 5.0]), np.diag([4.0, 6.0, 3.5])),
    "triclinic": (np.array([[4.0, 0, 0], [2, 3, 0], [1, 1, 3]]), np.array([[5.0, 0, 0], [-1, 4, 0], [2, 1, 6]])),
}


def run_precedence(shard, ctx, focus=None):
    """OPTION PRECEDENCE - a box can come from two places, the `box=` argument and the `box` attribute of the structure.
    Complete product {ndarray (n,3), ndarray (m,n,3), AtomArray, AtomArrayStack} x {own box: none, box1, box2 (per-model
    boxes for stacks)} x {box argument: none, box1, box2; single and per-model for multi-model input} x {periodic False,
    True} for index_displacement / index_distance / index_angle / index_dihedral, and the coordinate-based displacement /
    distance / angle / dihedral with structures that carry their own box.  Expectation (docstrings): periodic=False ->
    no box at all; periodic=True -> the given box is used instead of the box attribute, the attribute only when no box
    is given; coordinates without any box -> refused; displacement(..., box=None) ignores a box attribute.  Oracle =
    the coordinate-based function on plain float32 arrays with exactly that box (differential)."""
    import biotite.structure as struc

    rep = Reporter(ctx, shard)
    if focus is not None and "kind_" not in focus:
        focus = None
    b1, b2 = (f32(b) for b in PREC_BOXES[shard["boxes"]])
    kk = np.arange(1, 25, dtype=float)[:, None]
    X = f32(11.0 * np.modf(kk * np.sqrt(np.array([2.0, 3.0, 5.0])))[0] - 2.0).reshape(3, 8, 3)   # spread over ~2 boxes
    n = X.shape[1]
    scale = np.array([1.0, 1.25, 1.5], dtype=np.float32)[:, None, None]
    per_model = {"box1": b1[None] * scale, "box2": b2[None] * scale}
    single = {"box1": b1, "box2": b2}
    idxs = {"displacement": np.array([[0, 1], [2, 7], [5, 3], [6, 6]]), "distance": np.array([[0, 1], [2, 7], [5, 3]]),
            "angle": np.array([[0, 1, 2], [7, 3, 5]]), "dihedral": np.array([[0, 1, 2, 3], [7, 5, 4, 2]])}
    for kind in ("ndarray_n3", "ndarray_mn3", "AtomArray", "AtomArrayStack"):
        multi = kind in ("ndarray_mn3", "AtomArrayStack")
        coords = X if multi else X[0]
        for own in (("none",) if kind.startswith("ndarray") else ("none", "box1", "box2")):
            if kind.startswith("ndarray"):
                obj = coords.copy()
            else:
                obj = to_object(coords)
                if own != "none":
                    obj.box = (per_model[own] if multi else single[own]).copy()
            own_box = None if own == "none" else (per_model[own] if multi else single[own])
            argopts = [("none", None), ("box1", single["box1"]), ("box2", single["box2"])]
            if multi:
                argopts += [("box1_per_model", per_model["box1"]), ("box2_per_model", per_model["box2"])]
            for argname, argbox in argopts:
                for periodic in (False, True):
                    for fname, idx in idxs.items():
                        fc = {"kind_": kind, "own": own, "arg": argname, "periodic": periodic, "f": fname,
                              "cls": "%s,own_%s,arg_%s,periodic_%s" % (kind, own, argname.split("_")[0], periodic)}
                        if focus is not None and any(focus.get(k) != fc[k] for k in ("kind_", "own", "arg", "periodic", "f")):
                            continue
                        ctx.journal(json.dumps({"s": shard, "f": fc}))
                        ctx.ev(1, 1)
                        eff = None if not periodic else (argbox if argbox is not None else own_box)
                        pts = [np.take(coords, idx[:, j], axis=-2) for j in range(idx.shape[1])]
                        with np.errstate(all="ignore"):
                            want = getattr(struc, fname)(*pts, box=None if eff is None else eff.copy())
                        kw = {"periodic": periodic}
                        if argbox is not None:
                            kw["box"] = argbox.copy()
                        fn = getattr(struc, "index_" + fname)
                        if periodic and eff is None:
                            if kind.startswith("ndarray"):
                                ctx.count("refused")        # documented: coordinates + periodic need an explicit box
                                try:
                                    with np.errstate(all="ignore"):
                                        fn(obj, idx, **kw)
                                    rep.bad("index_%s|accepted|coordinates_periodic_without_box" % fname,
                                            "periodic=True with coordinates and no box was not refused", fc, "ValueError", "returned")
                                except Exception:  # noqa: BLE001
                                    pass
                                continue
                            ctx.count("unspecified")        # structure without box attribute: exception or the plain value
                            try:
                                with np.errstate(all="ignore"):
                                    got = fn(obj, idx, **kw)
                            except Exception:  # noqa: BLE001
                                ctx.count("unspecified_refused")
                                continue
                        else:
                            ctx.count("accepted")
                            got = call(rep, "index_" + fname, fc, fn, obj, idx, **kw)
                            if got is None:
                                continue
                        if np.shape(got) != np.shape(want) or not np.array_equal(np.asarray(got), np.asarray(want), equal_nan=True):
                            which = "box_attribute_used_instead_of_box_argument" if (
                                periodic and argbox is not None and own_box is not None and own != argname.split("_")[0]) \
                                else "wrong_box"
                            rep.bad("index_%s|%s|%s" % (fname, which, fc["cls"]),
                                    "index_%s does not use the box its documentation names (periodic=%s, box argument %s, box "
                                    "attribute %s)" % (fname, periodic, argname, own), fc,
                                    np.asarray(want).reshape(-1)[:6].tolist(), np.asarray(got).reshape(-1)[:6].tolist())
                        else:
                            ctx.outcome(("prec", kind, own, argname, periodic, fname))
                # coordinate-based functions: only the box ARGUMENT counts, a box attribute is never read
                if not kind.startswith("ndarray"):
                    for fname, idx in idxs.items():
                        fc = {"kind_": kind, "own": own, "arg": argname, "periodic": "n/a", "f": "plain_" + fname,
                              "cls": "%s,own_%s,arg_%s" % (kind, own, argname.split("_")[0])}
                        if focus is not None and any(focus.get(k) != fc[k] for k in ("kind_", "own", "arg", "periodic", "f")):
                            continue
                        ctx.ev(1, 1)
                        objs = [obj[..., idx[:, j]] for j in range(idx.shape[1])]       # sub-structures keep the box attribute
                        pts = [np.take(coords, idx[:, j], axis=-2) for j in range(idx.shape[1])]
                        with np.errstate(all="ignore"):
                            want = getattr(struc, fname)(*pts, box=None if argbox is None else argbox.copy())
                        got = call(rep, fname, fc, getattr(struc, fname), *objs, box=None if argbox is None else argbox.copy())
                        if got is not None and (np.shape(got) != np.shape(want) or not np.array_equal(
                                np.asarray(got), np.asarray(want), equal_nan=True)):
                            rep.bad("%s|box_attribute_changes_result|%s" % (fname, fc["cls"]),
                                    "%s(structures, box=%s) differs from the same call on plain coordinates" % (fname, argname), fc)
    # remove_pbc: molecules come from the BondList when there is one, from chain_id only without it (both present and
    # different: the bonds win)
    box = f32(np.diag([5.0, 5.0, 5.0]))
    base = np.array(GEOMS["compact"], dtype=float)
    wraps = np.array([[0, 0, 0], [1, 0, 0], [0, -1, 1], [-1, 1, 0]], dtype=float)
    for wi in range(4):
        W = f32(base + np.roll(wraps, wi, axis=0) @ box.astype(float))
        for chains in (["A", "A", "A", "A"], ["A", "B", "A", "B"], ["A", "A", "B", "B"]):
            for edges in ([(0, 1), (1, 2), (2, 3)], [(0, 1), (2, 3)]):
                fc = {"kind_": "remove_pbc", "own": str(chains), "arg": str(edges), "periodic": wi, "f": "remove_pbc",
                      "cls": "bonds_and_chains"}
                if focus is not None and any(focus.get(k) != fc[k] for k in ("kind_", "own", "arg", "periodic", "f")):
                    continue
                ctx.ev(1, 1)
                a = to_object(W)
                a.box = box
                a.chain_id[:] = chains
                a.bonds = struc.BondList(4, np.array([[i, j, 1] for i, j in edges]))
                twin = a.copy()
                twin.chain_id[:] = "A"
                got = call(rep, "remove_pbc", fc, struc.remove_pbc, a)
                want = struc.remove_pbc(twin)
                if got is not None and not np.allclose(got.coord, want.coord, atol=1e-4):
                    rep.bad("remove_pbc|chain_annotation_overrides_bonds|bonds_and_chains",
                            "with a BondList the molecules must come from the bonds, not from chain_id", fc,
                            want.coord.tolist(), got.coord.tolist())
        # without bonds: per chain, i.e. like path bonds inside every chain
        for chains, edges in ((["A", "A", "B", "B"], [(0, 1), (2, 3)]), (["A", "A", "A", "A"], [(0, 1), (1, 2), (2, 3)])):
            ctx.ev(1, 1)
            a = to_object(W)
            a.box = box
            a.chain_id[:] = chains
            twin = a.copy()
            twin.bonds = struc.BondList(4, np.array([[i, j, 1] for i, j in edges]))
            fc = {"kind_": "remove_pbc", "own": str(chains), "arg": "no_bonds", "periodic": wi, "f": "remove_pbc", "cls": "chains_only"}
            got = call(rep, "remove_pbc", fc, struc.remove_pbc, a)
            if got is not None and not np.allclose(got.coord, struc.remove_pbc(twin).coord, atol=1e-4):
                rep.bad("remove_pbc|chains_not_used_without_bonds|chains_only",
                        "without a BondList the segmentation must be removed per chain", fc)


def run_boundary(shard, ctx, focus=None):
    """third audit: F second operands that are larger / refer to atoms that do not exist; G numpy error state and the
    warnings filter as ambient state; I boundary values of compared quantities - exact half-box ties of the minimum image,
    NaN rows, equal variances in orient_principal_components"""
    import warnings

    import biotite.structure as struc

    rep = Reporter(ctx, shard)
    focus = None                      # small shard: a replay runs all of it
    calls = audit_calls()
    # ---- G: ambient numpy error state / warnings filter / print options: same results as under the defaults
    for name, fn, args, kw in calls:
        with np.errstate(all="ignore"):
            ref = fn(*args, **kw)
        for amb in ("errstate_raise", "warnings_error", "printoptions"):
            fc = {"call": name, "ambient": amb, "cls": amb}
            ctx.journal(json.dumps({"s": shard, "f": fc}))
            ctx.ev(1, 1)
            old_print = np.get_printoptions()
            try:
                if amb == "errstate_raise":
                    with np.errstate(all="raise"):
                        got = fn(*args, **kw)
                elif amb == "warnings_error":
                    with warnings.catch_warnings():
                        warnings.simplefilter("error")
                        with np.errstate(all="warn"):
                            got = fn(*args, **kw)
                else:
                    np.set_printoptions(precision=1, threshold=3, suppress=True)
                    got = fn(*args, **kw)
            except Exception as e:  # noqa: BLE001
                rep.bad("%s|raises_%s|%s" % (name, type(e).__name__, amb),
                        "an ordinary (non-degenerate) call fails when the caller has set %s" % amb, fc, "same result",
                        "%s: %s" % (type(e).__name__, str(e)[:120]))
                continue
            finally:
                np.set_printoptions(**old_print)
            if not _same(ref, got):
                rep.bad("%s|depends_on_ambient_state|%s" % (name, amb), "the result depends on %s" % amb, fc)
            else:
                ctx.outcome(("ambient", name, amb))
    # ---- I: a NaN row must not disturb the other rows (row-wise functions), and must not raise
    kk = np.arange(1, 22, dtype=float)[:, None]
    gen = f32(1.0 + 0.5 * np.modf(kk * np.sqrt(np.array([2.0, 3.0, 5.0])))[0])
    A, B, C, D = gen[0:7], gen[7:14] + 3, gen[14:21], gen[0:7][::-1] + 0.25
    box_t, box_o = f32(box_of("t2")), f32(np.diag([5.0, 4.0, 6.0]))
    rowwise = [("displacement", lambda a: struc.displacement(a, B)), ("displacement_ortho", lambda a: struc.displacement(a, B, box=box_o)),
               ("displacement_triclinic", lambda a: struc.displacement(a, B, box=box_t)),
               ("distance_triclinic", lambda a: struc.distance(B, a, box=box_t)), ("angle", lambda a: struc.angle(a, B, C)),
               ("angle_box", lambda a: struc.angle(C, a, B, box=box_o)), ("dihedral", lambda a: struc.dihedral(a, B, C, D)),
               ("dihedral_box", lambda a: struc.dihedral(D, C, a, B, box=box_t)),
               ("move_inside_box", lambda a: struc.move_inside_box(a * 4, box_t)),
               ("coord_to_fraction", lambda a: struc.coord_to_fraction(a, box_t)),
               ("translate", lambda a: struc.translate(a, [1, 2, 3])), ("rotate", lambda a: struc.rotate(a, [0.1, 1, 2.5]))]
    for bad_val in (np.nan, np.inf):
        An = A.copy()
        An[3] = bad_val
        keep = np.arange(7) != 3
        for name, fn in rowwise:
            fc = {"call": name, "value": repr(bad_val), "cls": "nonfinite_row"}
            ctx.journal(json.dumps({"s": shard, "f": fc}))
            ctx.ev(7, 6)
            with np.errstate(all="ignore"):
                ref = np.asarray(fn(A))
            got = call(rep, name, fc, fn, An)
            if got is None:
                continue
            got = np.asarray(got)
            if got.shape != ref.shape or not np.array_equal(got[keep], ref[keep]):
                rep.bad("%s|nonfinite_row_disturbs_other_rows|%s" % (name, "nan" if bad_val != bad_val else "inf"),
                        "a non-finite coordinate in one atom changed the result of other atoms", fc)
            else:
                ctx.count("unspecified", 1)       # the value of the non-finite row itself
                ctx.outcome(("nanrow", name, repr(bad_val)))
    # ---- I: exact ties of the minimum image: the two atoms are exactly half a box vector (plus whole vectors) apart
    for bname in ("o_3_3_3", "o_2_5_9", "lefthanded", "rot_ortho", "t2", "upper"):
        bx = box_of(bname)
        ortho = box_is_ortho(bx)
        hmin = geom.box_heights(bx).min()
        p1 = (np.array([0.25, 0.5, 0.125]) @ bx)
        for half in itertools.product((0.0, 0.5, -0.5), repeat=3):
            if not any(half):
                continue
            for whole in ((0, 0, 0), (1, -2, 0), (-1, 0, 2)):
                fr = np.array(half) + np.array(whole)
                p2 = p1 + fr @ bx
                fc = {"box": bname, "half": list(half), "whole": list(whole), "cls": "ortho" if ortho else "triclinic"}
                ctx.journal(json.dumps({"s": shard, "f": fc}))
                ctx.ev(3, 3)
                _, d2 = geom.min_image_vectors((np.array(half) @ bx)[None], bx, k=4)
                lmin = float(np.sqrt(d2[0]))
                for form, a1, a2 in (("vec", f32(p1), f32(p2)), ("arr", f32([p1, p1]), f32([p2, p2])),
                                     ("stack", f32([[p1]]), f32([[p2]]))):
                    got = call(rep, "displacement", fc, struc.displacement, a1, a2, box=f32(bx))
                    if got is None:
                        continue
                    g = np.asarray(got, dtype=float).reshape(-1, 3)
                    plain = (np.asarray(a2, dtype=float) - np.asarray(a1, dtype=float)).reshape(-1, 3)
                    res, _ = geom.lattice_residual(g - plain, bx)
                    ln = np.sqrt((g * g).sum(axis=1))
                    demand = ortho or lmin < hmin / 2 - 1e-3
                    if not np.isfinite(g).all() or (res > 1e-4 * np.abs(bx).max()).any():
                        rep.bad("displacement|not_lattice_equivalent|half_box_tie", "at an exact tie of the minimum image the "
                                "displacement is not an image of the plain difference (or not finite)", fc, plain[0].tolist(), g[0].tolist())
                    elif demand and (np.abs(ln - lmin) > 1e-4 * np.abs(bx).max()).any():
                        rep.bad("displacement|not_shortest_image|half_box_tie", "at an exact tie neither of the tied shortest "
                                "images was returned", fc, lmin, ln.tolist())
                    else:
                        ctx.outcome(("tie", bname, half, whole, form))
    # ---- I: equal variances / degenerate variance in orient_principal_components
    sets = {"cube": list(itertools.product((-1.0, 1.0), repeat=3)), "tetrahedron": [[1, 1, 1], [1, -1, -1], [-1, 1, -1], [-1, -1, 1]],
            "octahedron": [[2, 0, 0], [-2, 0, 0], [0, 2, 0], [0, -2, 0], [0, 0, 2], [0, 0, -2]],
            "square": [[1, 1, 0], [-1, 1, 0], [-1, -1, 0], [1, -1, 0]], "collinear": [[0, 0, 0], [1, 1, 1], [3, 3, 3]],
            "duplicates": [[1, 2, 3]] * 4 + [[2, 2, 3]], "two_equal_axes": [[2, 0, 0], [-2, 0, 0], [0, 2, 0], [0, -2, 0], [0, 0, 1], [0, 0, -1]]}
    for sname, pts in sets.items():
        X = np.array(pts, dtype=float) + np.array([4.0, -1.0, 2.5])
        for order in (None, [2, 0, 1], [1, 2, 0]):
            fc = {"set": sname, "order": order, "cls": "variance_tie"}
            ctx.ev(1, 1)
            got = call(rep, "orient_principal_components", fc, struc.orient_principal_components, f32(X),
                       **({} if order is None else {"order": order}))
            if got is None:
                continue
            g = np.asarray(got, dtype=float)
            if g.shape != X.shape or not np.isfinite(g).all() or not (np.abs(all_pair_dist(g) - all_pair_dist(X)) <= 2e-4).all():
                rep.bad("orient_principal_components|not_rigid|variance_tie", "with equal / zero variances the result is not a "
                        "rigid image of the input", fc)
            elif np.abs(g.mean(axis=0)).max() > 2e-4:
                rep.bad("orient_principal_components|not_centered|variance_tie", "centroid not at the origin", fc)
            elif len(X) >= 4 and abs(np.linalg.det(X[1:4] - X[0])) > 1e-6 and \
                    np.sign(np.linalg.det(X[1:4] - X[0])) != np.sign(np.linalg.det(g[1:4] - g[0])):
                rep.bad("orient_principal_components|improper|variance_tie", "chirality flipped", fc)
            else:
                ctx.outcome(("orient_tie", sname, str(order)))
    # ---- F: second operands that are larger than the first / name atoms the first does not have
    P = A.copy()
    snap = P.copy()
    arr = to_object(P)
    arr.box = box_o
    beyond = [("index_distance", np.array([[0, 7]])), ("index_distance", np.array([[0, 1], [2, 99]])),
              ("index_angle", np.array([[0, 1, 7]])), ("index_dihedral", np.array([[7, 1, 2, 3]])),
              ("index_displacement", np.array([[0, -8]]))]
    for fname, idx in beyond:
        for obj, kw in ((P, {}), (arr, {"periodic": True})):
            ctx.ev(1, 1)
            ctx.count("refused")
            try:
                getattr(struc, fname)(obj, idx, **kw)
                rep.bad("%s|accepted|index_beyond_length" % fname, "an index beyond the number of atoms was accepted",
                        {"cls": "index_beyond_length"}, "IndexError", "returned")
            except Exception:  # noqa: BLE001
                pass
    if not np.array_equal(P, snap) or not np.array_equal(arr.coord, snap):
        rep.bad("index_distance|argument_modified|refused_call", "a refused call changed the coordinates", {"cls": "refused"})
    S3 = f32(np.stack([A, B, C]))
    for nbox, cls in ((4, "more_boxes_than_models"), (2, "fewer_boxes_than_models"), (1, "one_box_in_a_stack_of_boxes")):
        boxes = f32(np.stack([box_o * (1 + 0.25 * k) for k in range(nbox)]))
        for fname, fn in (("displacement", lambda: struc.displacement(S3, S3[::-1].copy(), box=boxes)),
                          ("move_inside_box", lambda: struc.move_inside_box(S3, boxes)),
                          ("coord_to_fraction", lambda: struc.coord_to_fraction(S3, boxes)),
                          ("repeat_box_coord", lambda: struc.repeat_box_coord(S3, boxes)[0])):
            ctx.ev(1, 1)
            ctx.count("unspecified")          # a box stack of another depth than the coordinates: statement silent
            try:
                with np.errstate(all="ignore"):
                    r = fn()
                if not np.isfinite(np.asarray(r, dtype=float)).all():
                    rep.bad("%s|nonfinite_result|%s" % (fname, cls), "finite input gave a non-finite result", {"cls": cls})
            except Exception:  # noqa: BLE001
                ctx.count("unspecified_refused")
    # more index rows than atoms and an index array much longer than the structure are ordinary inputs
    idx = np.array(list(itertools.product(range(7), repeat=2)) * 3)
    ctx.ev(len(idx), len(idx))
    d = call(rep, "index_distance", {"cls": "more_rows_than_atoms"}, struc.index_distance, arr, idx, periodic=True)
    if d is not None and not np.array_equal(d, struc.distance(P[idx[:, 0]], P[idx[:, 1]], box=box_o)):
        rep.bad("index_distance|value|more_rows_than_atoms", "index array with more rows than atoms", {"cls": "more_rows_than_atoms"})


def run_inplace(shard, ctx, focus=None):
    """round-5 seed (C14-e): AN ARGUMENT ARRAY EDITED IN PLACE BETWEEN TWO CALLS (same object, new values).
    call(x) -> edit x in place -> call(x): the second result must be the one for the NEW values.  Arguments: the box
    array (float32 / float64, as argument and as box attribute of an AtomArray) and the coordinate arrays; edits: scale,
    one element, one row, swap rows; boxes orthorhombic and triclinic.  The oracle never goes through biotite's box
    helpers: coordinates are a compact true geometry X (inside a cube of side 0.25) wrapped by lattice vectors of the
    CURRENT box values, so the expected displacement is X2 - X1, fractions come from a float64 solve, moved coordinates
    must be lattice images inside the box."""
    import biotite.structure as struc

    rep = Reporter(ctx, shard)
    focus = None
    kk = np.arange(1, 13, dtype=float)[:, None]
    gen = 1.0 + 0.25 * np.modf(kk * np.sqrt(np.array([2.0, 3.0, 5.0])))[0]
    X1, X2 = gen[:6], gen[6:]
    nsh = np.array([[1, 0, -2], [0, 0, 0], [-1, 2, 1], [2, -2, 0], [0, 1, 0], [-2, 0, 1]], dtype=float)
    idx = np.array([[0, 6], [1, 7], [2, 8], [3, 9], [4, 10], [5, 11]])
    edits = ["scale_half", "one_element", "one_row", "swap_rows", "scale_double_back"]

    def edit_box(b, how):
        if how == "scale_half":
            b *= 0.5
        elif how == "one_element":
            b[1, 1] += 1.0
        elif how == "one_row":
            b[2] = b[2] + b[0]
        elif how == "swap_rows":
            b[[0, 1]] = b[[1, 0]]
        else:
            b *= 2.0

    for bname, b0 in (("ortho", np.diag([5.0, 4.0, 6.0])), ("triclinic", np.array([[4.0, 0, 0], [2, 3, 0], [1, 1, 3]]) * 1.5)):
        for dt in (np.float32, np.float64):
            for holder in ("box_argument", "atomarray_box_attribute"):
                b = np.array(b0, dtype=dt)
                W1 = np.zeros((6, 3), dtype=np.float32)
                W2 = np.zeros((6, 3), dtype=np.float32)
                arr = to_object(np.zeros((12, 3)))
                if holder == "atomarray_box_attribute":
                    arr.box = b
                    b = arr.box
                arr.bonds = struc.BondList(12, np.array([[i, i + 6, 1] for i in range(6)]))
                for step, how in enumerate([None] + edits):
                    if how is not None:
                        edit_box(b, how)                       # the SAME array object, new values
                    B = np.asarray(b, dtype=np.float64).copy()   # values for the oracle
                    # coordinate arrays are edited in place as well: re-wrapped for the current lattice
                    W1[...] = X1 + nsh @ B
                    W2[...] = X2 + nsh[::-1] @ B
                    arr.coord[:6] = W1
                    arr.coord[6:] = W2
                    fc = {"box": bname, "dtype": np.dtype(dt).name, "holder": holder, "step": step, "edit": how,
                          "cls": "%s,%s" % (holder, "first_call" if how is None else "after_in_place_edit")}
                    ctx.journal(json.dumps({"s": shard, "f": fc}))
                    tolv = 3e-5 * (1 + np.abs(B).max())
                    exp = X2 - X1
                    bx = {"box": b} if holder == "box_argument" else {}
                    checks = []
                    if holder == "box_argument":
                        checks += [("displacement", lambda: struc.displacement(W1, W2, box=b), exp),
                                   ("distance", lambda: struc.distance(W1, W2, box=b), np.linalg.norm(exp, axis=1)),
                                   ("index_displacement", lambda: struc.index_displacement(arr.coord, idx, periodic=True, box=b), exp)]
                    else:
                        checks += [("index_displacement", lambda: struc.index_displacement(arr, idx, periodic=True), exp),
                                   ("index_distance", lambda: struc.index_distance(arr, idx, periodic=True), np.linalg.norm(exp, axis=1))]
                    for name, fn, want in checks:
                        ctx.ev(6, 6)
                        got = call(rep, name, fc, fn)
                        if got is not None and (np.shape(got) != np.shape(want) or
                                                not (np.abs(np.asarray(got, dtype=float) - want) <= tolv).all()):
                            rep.bad("%s|stale_after_in_place_edit|%s" % (name, fc["cls"]),
                                    "the result is not the minimum-image value for the CURRENT values of the box / coordinate arrays",
                                    fc, np.asarray(want).reshape(-1)[:6].tolist(), np.asarray(got).reshape(-1)[:6].tolist())
                    # box helpers against the float64 solve
                    ctx.ev(4, 4)
                    fr = call(rep, "coord_to_fraction", fc, struc.coord_to_fraction, W1, b)
                    wantf = geom.lattice_coefficients(W1.astype(np.float64), B)
                    if fr is not None and not (np.abs(fr - wantf) <= 5e-5 * (1 + np.abs(wantf))).all():
                        rep.bad("coord_to_fraction|stale_after_in_place_edit|%s" % fc["cls"],
                                "fractions are not the solution of f @ box = coord for the current box values", fc,
                                wantf[0].tolist(), np.asarray(fr)[0].tolist())
                    mv = call(rep, "move_inside_box", fc, struc.move_inside_box, W2, b)
                    if mv is not None:
                        g = np.asarray(mv, dtype=np.float64)
                        res, _ = geom.lattice_residual(g - W2.astype(np.float64), B)
                        f2 = geom.lattice_coefficients(g, B)
                        if (res > tolv * 3).any() or (f2 < -1e-4).any() or (f2 > 1 + 1e-4).any():
                            rep.bad("move_inside_box|stale_after_in_place_edit|%s" % fc["cls"],
                                    "moved coordinates are not lattice images inside the CURRENT box", fc)
                    rp = call(rep, "remove_pbc_from_coord", fc, struc.remove_pbc_from_coord,
                              np.concatenate([W1[:1], W2[:1], W1[1:2]]), b)
                    if rp is not None:
                        g = np.asarray(rp, dtype=np.float64)
                        d01 = np.linalg.norm(g[1] - g[0]) - np.linalg.norm(X2[0] - X1[0])
                        d12 = np.linalg.norm(g[2] - g[1]) - np.linalg.norm(X1[1] - X2[0])
                        if abs(d01) > tolv * 3 or abs(d12) > tolv * 3:
                            rep.bad("remove_pbc_from_coord|stale_after_in_place_edit|%s" % fc["cls"],
                                    "the reassembled chain does not have the true neighbour distances for the current box", fc)
                    if holder == "atomarray_box_attribute":
                        r = call(rep, "remove_pbc", fc, struc.remove_pbc, arr)
                        if r is not None:
                            d = np.linalg.norm(r.coord[idx[:, 0]].astype(float) - r.coord[idx[:, 1]].astype(float), axis=1)
                            if (np.abs(d - np.linalg.norm(exp, axis=1)) > tolv * 3).any():
                                rep.bad("remove_pbc|stale_after_in_place_edit|%s" % fc["cls"],
                                        "bonded pairs are not at their true distance after remove_pbc with the edited box", fc)
                        rb = call(rep, "repeat_box", fc, struc.repeat_box, arr)
                        if rb is not None:
                            sh = rb[0].coord.astype(float).reshape(27, 12, 3) - arr.coord.astype(float)[None]
                            res, nn = geom.lattice_residual(sh.reshape(-1, 3), B)
                            if (res > tolv * 3).any() or len({tuple(x) for x in nn.reshape(27, 12, 3)[:, 0].astype(int).tolist()}) != 27:
                                rep.bad("repeat_box|stale_after_in_place_edit|%s" % fc["cls"],
                                        "repeated coordinates are not the 27 lattice images for the current box", fc)
                    uc = call(rep, "unitcell_from_vectors", fc, struc.unitcell_from_vectors, b)
                    if uc is not None and max(abs(float(u) - w) for u, w in zip(uc, geom.unitcell_of(B))) > 1e-4:
                        rep.bad("unitcell_from_vectors|stale_after_in_place_edit|%s" % fc["cls"], "cell of the edited box is wrong", fc)
                    io = call(rep, "is_orthogonal", fc, struc.is_orthogonal, b)
                    if io is not None and bool(io) != box_is_ortho(B):
                        rep.bad("is_orthogonal|stale_after_in_place_edit|%s" % fc["cls"], "is_orthogonal for the edited box is wrong", fc)
                    ctx.outcome(("inplace", bname, np.dtype(dt).name, holder, step))


def run_edge(shard, ctx, focus=None):
    """empty and singleton pieces"""
    import biotite.structure as struc

    rep = Reporter(ctx, shard)
    if focus is not None and "case" not in focus:
        focus = None
    box = f32(box_of("t2"))
    e3 = np.zeros((0, 3), dtype=np.float32)
    one = f32([[1.0, 2.0, 3.0]])
    cases = [
        ("distance_empty", lambda: struc.distance(e3, e3), (0,)), ("displacement_empty_box", lambda: struc.displacement(e3, e3, box=box), (0, 3)),
        ("angle_empty", lambda: struc.angle(e3, e3, e3), (0,)), ("dihedral_empty", lambda: struc.dihedral(e3, e3, e3, e3), (0,)),
        ("index_distance_no_rows", lambda: struc.index_distance(one, np.zeros((0, 2), dtype=int)), (0,)),
        ("index_dihedral_no_rows_box", lambda: struc.index_dihedral(one, np.zeros((0, 4), dtype=int), periodic=True, box=box), (0,)),
        ("move_inside_box_empty", lambda: struc.move_inside_box(e3, box), (0, 3)),
        ("coord_to_fraction_empty", lambda: struc.coord_to_fraction(e3, box), (0, 3)),
        ("repeat_box_coord_amount0", lambda: struc.repeat_box_coord(one, box, 0)[0], (1, 3)),
        ("repeat_box_coord_empty", lambda: struc.repeat_box_coord(e3, box)[0], (0, 3)),
        ("remove_pbc_from_coord_one", lambda: struc.remove_pbc_from_coord(one + 9, box), (1, 3)),
        ("displacement_one_model_stack", lambda: struc.displacement(one[None], one[None] + 0.25, box=box[None]), (1, 1, 3)),
        ("distance_single_vs_single", lambda: np.asarray(struc.distance(one[0], one[0] + 0.25, box=box)), ()),
        ("centroid_one", lambda: struc.centroid(one), (3,)),
        ("translate_empty", lambda: struc.translate(e3, [1, 2, 3]), (0, 3)),
        ("rotate_centered_one_atom", lambda: struc.rotate_centered(one, [1, 2, 3]), (1, 3)),
    ]
    for nm, fn, shape in cases:
        fc = {"case": nm, "cls": nm}
        if focus is not None and focus.get("case") != nm:
            continue
        ctx.journal(json.dumps({"s": shard, "f": fc}))
        ctx.ev(1, 1)
        empty = "empty" in nm or "no_rows" in nm
        if empty:
            ctx.count("unspecified")
            try:
                with np.errstate(all="ignore"):
                    r = fn()
            except Exception:  # noqa: BLE001
                ctx.count("unspecified_refused")      # statement silent on empty input: a clean exception is fine
                continue
        else:                                         # one atom / one model / amount 0 are ordinary inputs
            ctx.count("accepted")
            r = call(rep, nm, fc, fn)
            if r is None:
                continue
        if np.shape(r) != shape:
            rep.bad("%s|bad_shape|empty_or_singleton" % nm, "wrong result shape for an empty / singleton input", fc,
                    list(shape), list(np.shape(r)))
            continue
        if nm == "rotate_centered_one_atom" and not np.allclose(r, one, atol=1e-5):
            rep.bad("rotate_centered|value|one_atom", "a single atom rotated about its own centroid moved", fc)
        if nm == "displacement_one_model_stack" and not np.allclose(r, 0.25, atol=1e-5):
            rep.bad("displacement|value|one_model_stack", "displacement of a one-model stack with a (1,3,3) box is wrong", fc,
                    [0.25, 0.25, 0.25], np.asarray(r).ravel().tolist())
        if nm == "distance_single_vs_single" and not np.allclose(r, 0.25 * 3 ** 0.5, atol=1e-5):
            rep.bad("distance|value|single_atoms_box", "distance between two single positions with a box is wrong", fc)
        if nm == "centroid_one" and not np.allclose(r, one[0], atol=1e-6):
            rep.bad("centroid|value|one_atom", "centroid of one atom is not the atom", fc)
        if nm == "repeat_box_coord_amount0" and not np.array_equal(r, one):
            rep.bad("repeat_box_coord|value|amount0", "amount=0 must return the original coordinates only", fc)
        if nm == "remove_pbc_from_coord_one":
            res, _ = geom.lattice_residual(np.asarray(r, dtype=float) - (one + 9), box.astype(float))
            if (res > 1e-3).any():
                rep.bad("remove_pbc_from_coord|not_lattice_shift|one_atom", "single atom moved by a non-lattice vector", fc)
        ctx.outcome(("edge", nm))
    # remove_pbc on one-atom and zero-bond structures, single model stack
    for n in (1, 2):
        arr = to_object(f32(np.arange(3 * n, dtype=float).reshape(n, 3) + 7.5))
        arr.box = box
        arr.bonds = struc.BondList(n)
        for obj, nm in ((arr, "array"), (struc.stack([arr]), "one_model_stack")):
            ctx.ev(1, 1)
            r = call(rep, "remove_pbc", {"cls": "n%d_%s" % (n, nm)}, struc.remove_pbc, obj)
            if r is not None:
                d = np.asarray(r.coord, dtype=float).reshape(-1, 3) - np.asarray(obj.coord, dtype=float).reshape(-1, 3)
                res, _ = geom.lattice_residual(d, box.astype(float))
                if r.coord.shape != obj.coord.shape or (res > 1e-3).any():
                    rep.bad("remove_pbc|not_lattice_shift|%s" % nm, "atoms without bonds moved by a non-lattice vector",
                            {"cls": nm})
    # orient_principal_components: 3 points is the documented minimum
    ctx.ev(1, 1)
    r = call(rep, "orient_principal_components", {"cls": "three_points"}, struc.orient_principal_components,
             f32([[0, 0, 0], [1, 0, 0], [0, 2, 0]]))
    if r is not None and not np.allclose(all_pair_dist(r), all_pair_dist([[0, 0, 0], [1, 0, 0], [0, 2, 0]]), atol=1e-4):
        rep.bad("orient_principal_components|not_rigid|three_points", "distances changed", {"cls": "three_points"})


# ---------------------------------------------------------------------------
# shards
# ---------------------------------------------------------------------------
RUNNERS = {}


def shards(tier, seed):
    out = []
    for r in range(24):
        for ch in range(ANGLE_CHUNKS):
            out.append({"kind": "angle", "rot": r, "chunk": ch})
    for r in range(24):
        out.append({"kind": "dihedral", "rot": r})
    for r in range(24):
        out.append({"kind": "dist", "rot": r})
    gen = [(seed + k) % len(GENERIC) for k in range(3)] if tier == "quick" else list(range(len(GENERIC)))
    for g in gen:
        out.append({"kind": "generic", "what": "dist", "motion": g})
        out.append({"kind": "generic", "what": "dihedral", "motion": g})
        for p in range(5):
            out.append({"kind": "generic", "what": "angle", "motion": g, "part": p})
    for name in box_names(seed, tier):
        out.append({"kind": "dispbox", "box": name})
        out.append({"kind": "boxhelpers", "box": name})
    for li in ([0, 1 + seed % (len(LENGTHS) - 1)] if tier == "quick" else range(len(LENGTHS))):
        out.append({"kind": "unitcell", "lengths": li})
    for gname in GEOMS:
        for n in (1, 2, 3, 4):
            if tier == "quick" or gname == "onface":
                # zigzag / straddle with 4 atoms: <= 1 wrapped atom at the quick tier (thorough: <= 3);
                # onface (third audit) is identical in both tiers
                maxw = 1 if (n == 4 and gname != "compact") else 2
                parts = 8 if (n == 4 and maxw == 2) else 2 if n == 4 else 1
            else:
                parts, maxw = (64 if n == 4 else 4 if n == 3 else 1), (3 if n == 4 else n)
            for p in range(parts):
                out.append({"kind": "pbc", "n": n, "geom": gname, "maxw": maxw, "part": p, "parts": parts})
    for w in ("translate", "rotate", "rotate_centered", "rotate_about_axis", "align_vectors", "orient"):
        out.append({"kind": "transform", "what": w})
    out.append({"kind": "backbone", "nres": 2, "part": 0, "parts": 1})
    if tier == "thorough":
        for p in range(16):
            out.append({"kind": "backbone", "nres": 3, "part": p, "parts": 16})
    out.append({"kind": "shapes", "mode": "plain"})
    out.append({"kind": "shapes", "mode": "box"})
    # dimension audit families
    for m in MODEL_COUNTS:
        out.append({"kind": "models", "m": m})
    out.append({"kind": "order"})
    out.append({"kind": "alias"})
    out.append({"kind": "flavour"})
    out.append({"kind": "flavour_pairs"})
    out.append({"kind": "identity"})
    out.append({"kind": "derived"})
    out.append({"kind": "edge"})
    out.append({"kind": "boundary"})
    out.append({"kind": "inplace"})
    out.append({"kind": "precedence", "boxes": "ortho"})
    out.append({"kind": "precedence", "boxes": "triclinic"})
    rots = range(24) if tier == "thorough" else [(7 * seed + k) % 24 for k in (2, 9, 16, 23)]
    for base in ("t2", "full", "o_2_5_9", "c0_75_90_110"):
        for r in rots:
            out.append({"kind": "dispbox", "box": "rot:%s:%d" % (base, r), "light": True})
            out.append({"kind": "boxhelpers", "box": "rot:%s:%d" % (base, r)})
    for base in ("t1", "upper", "c0_60_110_75"):
        for pr in ("021", "102", "120", "201", "210"):
            out.append({"kind": "dispbox", "box": "perm:%s:%s" % (base, pr), "light": True})
    for sk in ("5e-7", "9e-7", "1.1e-6", "2e-6", "1e-5", "1e-3"):
        out.append({"kind": "dispbox", "box": "skew:" + sk, "light": True})
        out.append({"kind": "boxhelpers", "box": "skew:" + sk})
    weight = {"pbc": 0, "angle": 1, "dihedral": 2, "generic": 3, "backbone": 3}
    out.sort(key=lambda x: weight.get(x["kind"], 5))
    return out


RUNNERS.update({"dist": run_dist, "angle": run_angle, "dihedral": run_dihedral, "generic": run_generic,
                "shapes": run_shapes, "dispbox": run_dispbox, "boxhelpers": run_boxhelpers, "unitcell": run_unitcell, "pbc": run_pbc, "transform": run_transform, "backbone": run_backbone,
                "models": run_models, "order": run_order, "alias": run_alias, "flavour": run_flavour, "edge": run_edge,
                "flavour_pairs": run_flavour_pairs, "identity": run_identity, "derived": run_derived,
                "precedence": run_precedence, "boundary": run_boundary, "inplace": run_inplace})


def run_shard(shard, ctx):
    RUNNERS[shard["kind"]](shard, ctx)


def replay(case, ctx):
    if isinstance(case, str):
        case = json.loads(case)
        case = {"shard": case["s"], "focus": case.get("f")}
    RUNNERS[case["shard"]["kind"]](case["shard"], ctx, case.get("focus"))


def crash_class(case):
    try:
        if isinstance(case, str):
            case = json.loads(case)
        s = case.get("s") or case.get("shard")
        return "%s" % s["kind"]
    except Exception:  # noqa: BLE001
        return "unclassified"
