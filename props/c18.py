"""C18 - small molecules survive MOL/SDF files and the RDKit bridge.

E2: bounded exhaustive input enumeration.  Every case runs on the real biotite
writer/reader (ctab functions, MOLFile, SDFile/SDRecord, convert API, RDKit
bridge) and is compared with
  (1) a strict independent reader of the written text (mc/models/ctfile.py:
      fixed columns of V2000, block grammar of V3000, SD framing and data items),
  (2) the molecule model (plain lists/dicts) for the read-back object,
  (3) RDKit's own molfile reader as a second, foreign reader of the same text.
"""

import io
import itertools
import json
import warnings
from decimal import Decimal

import numpy as np

from mc.models import ctfile

ID = "C18"
LEVEL = "model_checking"
RULE = (
    "mol: every labelled graph on 1..4 atoms x every single deviation (one bond of each of the 9 non-single "
    "types, one charge of the ladder on one atom, no charge annotation, one element of the palette on one atom, "
    "one ladder value in one coordinate component, default_bond_type) x version {None,V2000,V3000} x container "
    "{ctab functions, MOLFile, SDFile}; every pair of deviations on the graphs stated in bounds; "
    "chg: every subset of charged atoms of a 10-atom chain x 2 value patterns, every pair of charges in -15..15 on "
    "2 atoms; big: chains/stars/dense graphs around the 999/1000 atom and bond switch and 1500 atoms; "
    "header: every single/pair (thorough: triple) of field deviations from an empty and a full header; "
    "meta: every key over the 4 optional parts x palettes x every value of the palette, every ordered key pair of a "
    "reduced palette; records: every ordered selection of <= 3 distinct record names; rdkit: every graph on <= 4 "
    "atoms x single deviations x {default, kekulize, dative} x depth {array, 1, 2, 3}, every aromatic pattern on "
    "rings of 3..6 atoms; reuse: ONE MOLFile / SDRecord written 2 (thorough 3) times with every ordered selection "
    "of the content palette (atom/bond count, charges, version incl. 999/1000, header, metadata; refused contents "
    "in between), object fresh or parsed from text, getters touched or not between the writes, text-first or "
    "getters-first afterwards, compared with a fresh object given only the last content; ONE SDFile under every "
    "sequence of <= 2 (thorough 3) operations of {put, delete, convert.set_structure, refused set_structure} on "
    "names A/B/C from an empty and a parsed file; to_mol/from_mol repeated on the same Mol / stack; audit: alias "
    "(every listed aliasing scenario x 3 contents x MOLFile/SDRecord/RDKit), flavour (every listed coordinate / "
    "charge / element array flavour x V2000/V3000/MOLFile/to_mol, differential against the canonical arrays), shape "
    "(0 atoms, bare records at every subset of positions of 1..3-record files, numbered keys / names in every order, "
    "9..12 models, all 24 atom permutations, all 6 x 8 bond row orders x orientations), lazy (6 x 6 forcing levels of "
    "two parsed SD files x 5 kinds of difference).  A case is "
    "non-trivial when it carries >= 1 deviation from the plain base molecule / "
    "empty header / single plain key and the oracle compared a parsed file or a read-back object (or verified a "
    "refusal)."
)
ASSUMPTIONS = [
    "coordinates are float32 (AtomArray stores nothing else): 99999.99996 and 99999.9999 are the float32 value "
    "100000.0, the largest value below is 99999.9921875 - the truncate-vs-round suspect of DESIGN.md cannot be "
    "reached through the public API and is reported as not reproducible",
    "elements longer than 2 characters cannot be held by the default element annotation; only a 4-character symbol "
    "is generated, and only for the 'does not fit V2000 columns' clause (no read-back demand on that symbol)",
    "strings with leading/trailing blanks are not generated for header fields and record names (fixed-column "
    "text, the reader strips); for metadata values they are (DESIGN alphabet) as an unspecified class whose "
    "accepted outcomes are: exception, exact value, or the value with every line stripped (normalisation by the "
    "reader, not forbidden by the statement)",
    "AROMATIC_SINGLE/AROMATIC_DOUBLE are taken to be expressible in CTAB as query types 6/7 (biotite's documented "
    "convention); QUADRUPLE, AROMATIC_TRIPLE, COORDINATION fall back to default_bond_type (V3000 type 9 is also "
    "accepted for COORDINATION)",
    "RDKit can only express 'aromatic': AROMATIC_SINGLE/DOUBLE/TRIPLE/AROMATIC must come back as some aromatic "
    "type, not as the same one (RDKit may choose the other Kekule structure)",
    "charges outside -15..15 (only +-16, +-99, which still fit the columns), over-long header fields, metadata "
    "values the SD grammar cannot hold, inf coordinates and V3000 with oversized coordinates are the unspecified "
    "(EITHER) classes: clean exception or exact result",
    "from_mol is called with add_hydrogen=False unless the molecule carries explicit hydrogen (documented: "
    "hydrogens are added otherwise)",
]
EXHAUSTIVE = True
SHARD_TIMEOUT = {"quick": 600, "thorough": 2400}

BT_ALL = ["ANY", "SINGLE", "DOUBLE", "TRIPLE", "QUADRUPLE", "AROMATIC_SINGLE", "AROMATIC_DOUBLE",
          "AROMATIC_TRIPLE", "COORDINATION", "AROMATIC"]
BT_DEV = [t for t in BT_ALL if t != "SINGLE"]
BT_R = ["DOUBLE", "AROMATIC_SINGLE", "QUADRUPLE", "ANY"]
# vocabulary of the CTAB bond block (CTfile specification + biotite's documented use of the query types)
FILE_CODE = {"SINGLE": 1, "DOUBLE": 2, "TRIPLE": 3, "AROMATIC": 4, "AROMATIC_SINGLE": 6, "AROMATIC_DOUBLE": 7,
             "ANY": 8}
INEXPRESSIBLE = ("QUADRUPLE", "AROMATIC_TRIPLE", "COORDINATION")
AROMATIC_FAMILY = ("AROMATIC_SINGLE", "AROMATIC_DOUBLE", "AROMATIC_TRIPLE", "AROMATIC")
DBT_DEV = ["SINGLE", "DOUBLE", "AROMATIC", "AROMATIC_SINGLE", "QUADRUPLE"]
DBT_R = ["SINGLE", "QUADRUPLE"]
CHG_DEV = [-15, -4, -3, -2, -1, 1, 2, 3, 4, 15, 16, -16, 99, -99]
CHG_R = [-15, 3, 4]
EL_DEV = ["CL", "N", "FE", "", "H", "ABCD"]
EL_R = ["CL", "", "ABCD"]
XYZ_DEV = ["0", "0.00005", "-0.00005", "1.2345", "0.12345", "12345.678", "-9999.999", "-10000", "99999.99",
           "99999.99996", "123456.7", "nan", "inf", "-inf"]
XYZ_R = ["-9999.999", "99999.99996", "0.00005", "nan"]
VERSIONS = [None, "V2000", "V3000"]
CONTAINERS = ["ctab", "mol", "sdf"]

PALETTES = [
    {"el": "C", "base": ["0", "0", "0"], "step": ["1.5", "-0.25", "0.125"]},
    {"el": "N", "base": ["1.2345", "-2.3456", "0.0001"], "step": ["1.1111", "0.3333", "-0.7777"]},
    {"el": "O", "base": ["-10.5", "100.25", "-1000.125"], "step": ["0.001", "-0.002", "0.004"]},
    {"el": "S", "base": ["0.00004", "-0.00004", "9999.5"], "step": ["3.3", "3.3", "0.1"]},
    {"el": "P", "base": ["-0.00015", "77.77775", "-9999.5"], "step": ["10.00005", "-10.00005", "0.00025"]},
]


def f32(s):
    return np.float32(float(s))


def pairs_of(n):
    return list(itertools.combinations(range(n), 2))


def edges_of(n, g):
    return [p for k, p in enumerate(pairs_of(n)) if g >> k & 1]


# ---------------------------------------------------------------------------
# molecule model: dict(n, elem[list], coord[list of 3 float32], charge[list]|None, bonds{(i,j): type}, dbt)
# ---------------------------------------------------------------------------
def base_mol(n, g, pal):
    p = PALETTES[pal]
    coord = [[f32(float(p["base"][c]) + i * float(p["step"][c])) for c in range(3)] for i in range(n)]
    return {"n": n, "elem": [p["el"]] * n, "coord": coord, "charge": [0] * n,
            "bonds": {e: "SINGLE" for e in edges_of(n, g)}, "dbt": None}


def apply_devs(m, n, g, devs):
    ed = edges_of(n, g)
    for d in devs:
        k = d[0]
        if k == "bt":
            m["bonds"][ed[d[1]]] = d[2]
        elif k == "chg":
            m["charge"][d[1]] = d[2]
        elif k == "nochg":
            m["charge"] = None
        elif k == "el":
            m["elem"][d[1]] = d[2]
        elif k == "xyz":
            m["coord"][d[1]][d[2]] = f32(d[3])
        elif k == "dbt":
            m["dbt"] = d[1]
        else:
            raise ValueError(d)
    return m


def dev_slot(d):
    k = d[0]
    if k == "bt":
        return ("bt", d[1])
    if k in ("chg", "nochg"):
        return ("chg", d[1] if k == "chg" else None)
    if k == "el":
        return ("el", d[1])
    if k == "xyz":
        return ("xyz", d[1], d[2])
    return (k,)


def conflict(a, b):
    sa, sb = dev_slot(a), dev_slot(b)
    if sa == sb:
        return True
    if sa[0] == "chg" and sb[0] == "chg" and (sa[1] is None or sb[1] is None):
        return True
    return False


def coord_class(v):
    v = float(v)
    if v != v:
        return "xyz_nan"
    if abs(v) == float("inf"):
        return "xyz_inf"
    if len("%.4f" % v) > 10:
        return "xyz_over"
    if v == 0:
        return "xyz_zero"
    if abs(v) < 0.0001:
        return "xyz_tiny"
    if len("%.4f" % v) == 10:
        return "xyz_full_width"
    return "xyz_plain"


def dev_class(d):
    k = d[0]
    if k == "bt":
        return "bt_" + d[2]
    if k == "chg":
        c = abs(d[2])
        return "chg_code" if c <= 3 else ("chg_large" if c <= 15 else "chg_beyond")
    if k == "nochg":
        return "nochg"
    if k == "el":
        return "el_H" if d[2] == "H" else "el_len%d" % len(d[2])
    if k == "xyz":
        return coord_class(f32(d[3]))
    if k == "dbt":
        return "dbt_" + d[1]
    return k


def classes_of(devs):
    return "+".join(sorted({dev_class(d) for d in devs})) or "plain"


def mol_devs_single(n, g, pal, reduced=False):
    ne = len(edges_of(n, g))
    base_el = PALETTES[pal]["el"]
    base = base_mol(n, 0, pal)["coord"]
    out = []
    for e in range(ne):
        for t in (BT_R if reduced else BT_DEV):
            out.append(["bt", e, t])
    for a in range(n):
        for c in (CHG_R if reduced else CHG_DEV):
            out.append(["chg", a, c])
    if not reduced:
        out.append(["nochg"])
    for a in range(n):
        for el in (EL_R if reduced else EL_DEV):
            if el != base_el:
                out.append(["el", a, el])
    for a in range(n):
        for c in ((0, 2) if reduced else (0, 1, 2)):
            for v in (XYZ_R if reduced else XYZ_DEV):
                if f32(v) != base[a][c]:          # no-op deviations are not cases
                    out.append(["xyz", a, c, v])
    for t in (DBT_R if reduced else DBT_DEV):
        out.append(["dbt", t])
    return out


def devsets(n, g, order, reduced, pal):
    s = mol_devs_single(n, g, pal, reduced)
    if order == 0:
        yield []
    elif order == 1:
        for d in s:
            yield [d]
    else:
        for combo in itertools.combinations(s, order):
            if any(conflict(a, b) for a, b in itertools.combinations(combo, 2)):
                continue
            yield list(combo)


def n_devsets(n, g, order, reduced, pal=0):
    return sum(1 for _ in devsets(n, g, order, reduced, pal))


# ---------------------------------------------------------------------------
# expectation
# ---------------------------------------------------------------------------
def classify_mol(m, ver):
    """-> (mode, unreadable_elem_atoms)  mode in accept / refuse / refuse_or_v3000 / either."""
    nan = any(float(x) != float(x) for r in m["coord"] for x in r)
    unfit = any(coord_class(x) in ("xyz_over", "xyz_inf") for r in m["coord"] for x in r)
    longel = [i for i, e in enumerate(m["elem"]) if len(e) > 3]
    beyond = m["charge"] is not None and any(abs(c) > 15 for c in m["charge"])
    need_default = any(t in INEXPRESSIBLE for t in m["bonds"].values())
    bad_dbt = m["dbt"] in INEXPRESSIBLE
    if nan:
        return "refuse", longel
    if unfit or longel:
        if ver == "V2000":
            return "refuse", longel
        if ver is None:
            return "refuse_or_v3000", longel
        return "either", longel
    if beyond or bad_dbt:
        return "either", longel
    return "accept", longel


def expected_bond_types(m, version_written):
    """{(i,j): set of acceptable type names after reading back}"""
    dbt = m["dbt"] or "ANY"
    out = {}
    for e, t in m["bonds"].items():
        if t in FILE_CODE:
            out[e] = {t}
        elif dbt in INEXPRESSIBLE:
            out[e] = set(BT_ALL)
        else:
            out[e] = {dbt}
            if t == "COORDINATION" and version_written == "V3000":
                out[e].add("COORDINATION")
    return out


def coord_candidates(v):
    """4-decimal texts within 5e-5 of the exact value v (float32) -> set of Decimal"""
    d = Decimal(float(v))
    q = Decimal("0.0001")
    lo = (d / q).to_integral_value(rounding="ROUND_FLOOR") * q
    return {c for c in (lo, lo + q) if abs(c - d) <= Decimal("0.00005")}


def build_atoms(m):
    import biotite.structure as struc

    n = m["n"]
    a = struc.AtomArray(n)
    a.element = np.array(m["elem"], dtype="U%d" % max(2, max((len(e) for e in m["elem"]), default=2)))
    a.coord = np.array(m["coord"], dtype=np.float32).reshape(n, 3)
    rows = [(i, j, int(getattr(struc.BondType, t))) for (i, j), t in m["bonds"].items()]
    a.bonds = struc.BondList(n, np.array(rows, dtype=np.int64).reshape(-1, 3))
    if m["charge"] is not None:
        a.set_annotation("charge", np.array(m["charge"], dtype=int))
    return a


def snapshot(a):
    return (a.coord.tobytes(), a.element.tolist(), a.bonds.as_array().tobytes(),
            a.charge.tolist() if "charge" in a.get_annotation_categories() else None)


# ---------------------------------------------------------------------------
# oracles on one written connection table
# ---------------------------------------------------------------------------
class Fail(Exception):
    def __init__(self, mode, what, expected=None, observed=None):
        super().__init__(what)
        self.mode, self.what, self.expected, self.observed = mode, what, expected, observed


def check_file_content(m, ctab_lines, want_version, longel):
    """strict parse of the text + comparison with the molecule; returns written version"""
    try:
        p = ctfile.parse_ctab(ctab_lines)
    except ctfile.LayoutError as e:
        raise Fail("column_shift", "written connection table violates the fixed layout (%s)" % e.where,
                   "layout of the CTfile specification", str(e))
    if want_version is not None and p["version"] != want_version:
        raise Fail("version_selected", "wrong CTAB version written", want_version, p["version"])
    n = m["n"]
    if p["n_atoms"] != n:
        raise Fail("file_content_count", "atom count in file", n, p["n_atoms"])
    for i, (x, y, z, sym, code) in enumerate(p["atoms"]):
        if i not in longel and sym != m["elem"][i].capitalize():
            raise Fail("file_content_element", "atom symbol in file", m["elem"][i].capitalize(), sym)
        for c, txt in enumerate((x, y, z)):
            v = m["coord"][i][c]
            if abs(float(v)) == float("inf"):
                continue
            if abs(Decimal(txt) - Decimal(float(v))) > Decimal("0.00005"):
                raise Fail("file_content_coord", "coordinate text differs from the value by more than 5e-5",
                           repr(float(v)), txt)
    ch = m["charge"] or [0] * n
    if p["charges"] != list(ch):
        raise Fail("file_content_charge", "charges a conforming reader obtains from the file", list(ch), p["charges"])
    if p["version"] == "V2000":
        for i, a in enumerate(p["atoms"]):
            if a[4] not in (0, ctfile.CODE_OF_CHARGE.get(ch[i], 0)):
                raise Fail("file_content_charge", "atom block charge code contradicts the charge",
                           [0, ctfile.CODE_OF_CHARGE.get(ch[i], 0)], a[4])
    got = {}
    for a, b, code in p["bonds"]:
        k = (min(a, b) - 1, max(a, b) - 1)
        if k in got:
            raise Fail("file_content_bonds", "bond written twice", None, k)
        got[k] = code
    if set(got) != set(m["bonds"]):
        raise Fail("file_content_bonds", "bonded pairs in file", sorted(m["bonds"]), sorted(got))
    dbt = m["dbt"] or "ANY"
    for e, t in m["bonds"].items():
        if t in FILE_CODE:
            ok = {FILE_CODE[t]}
        elif dbt in FILE_CODE:
            ok = {FILE_CODE[dbt]} | ({9} if (t == "COORDINATION" and p["version"] == "V3000") else set())
        else:
            ok = set(range(1, 11))
        if got[e] not in ok:
            raise Fail("file_content_bondtype", "bond type code in file for %s" % t, sorted(ok), got[e])
    return p["version"]


def check_readback(m, back, version_written, longel):
    import biotite.structure as struc

    n = m["n"]
    if not isinstance(back, struc.AtomArray) or back.array_length() != n:
        raise Fail("readback_count", "atom count read back", n, getattr(back, "array_length", lambda: None)())
    for i in range(n):
        if i not in longel and back.element[i] != m["elem"][i].upper():
            raise Fail("readback_element", "element read back", m["elem"], back.element.tolist())
    for i in range(n):
        for c in range(3):
            v = m["coord"][i][c]
            r = back.coord[i, c]
            if abs(float(v)) == float("inf"):
                ok = float(r) == float(v)
            else:
                ok = any(np.float32(float(t)) == r for t in coord_candidates(v))
            if not ok:
                raise Fail("readback_coord", "coordinate read back (to 0.0001)", repr(float(v)), repr(float(r)))
    if "charge" not in back.get_annotation_categories():
        raise Fail("readback_charge", "charge annotation missing after reading", "charge annotation", None)
    ch = m["charge"] or [0] * n
    if back.charge.tolist() != list(ch):
        raise Fail("readback_charge", "formal charges read back", list(ch), back.charge.tolist())
    if back.bonds is None:
        raise Fail("readback_bonds", "no BondList after reading", "BondList", None)
    got = {(int(i), int(j)): struc.BondType(int(t)).name for i, j, t in back.bonds.as_array()}
    exp = expected_bond_types(m, version_written)
    if set(got) != set(exp) or back.bonds.get_bond_count() != len(exp):
        raise Fail("readback_bonds", "bonded pairs read back", sorted(exp), sorted(got))
    for e in exp:
        if got[e] not in exp[e]:
            raise Fail("readback_bondtype", "bond type read back for %s" % m["bonds"][e], sorted(exp[e]), got[e])


RD_VALID = {"C", "N", "O", "S", "P", "CL", "FE", "H"}
_RD = {}


def rdkit():
    if not _RD:
        from rdkit import Chem, RDLogger

        RDLogger.DisableLog("rdApp.*")
        _RD["Chem"] = Chem
    return _RD["Chem"]


def check_foreign_reader(m, ctab_lines):
    """RDKit reads the text biotite wrote (only molecules whose symbols RDKit knows)."""
    if not all(e in RD_VALID for e in m["elem"]):
        return False
    if any(len("%.4f" % float(x)) >= 10 for r in m["coord"] for x in r):
        # RDKit's reader mis-reads coordinate fields that touch (no blank between full-width fields)
        return False
    Chem = rdkit()
    block = "\n\n\n" + "\n".join(ctab_lines) + "\n"
    try:
        rm = Chem.MolFromMolBlock(block, sanitize=False, removeHs=False, strictParsing=True)
    except Exception as e:  # noqa: BLE001
        rm = None
        err = repr(e)[:200]
    else:
        err = "MolFromMolBlock returned None"
    if rm is None:
        raise Fail("foreign_reader_rejects", "RDKit (strict parsing) cannot read the written molfile", "a Mol", err)
    n = m["n"]
    if rm.GetNumAtoms() != n:
        raise Fail("foreign_reader_count", "atoms RDKit reads", n, rm.GetNumAtoms())
    ch = m["charge"] or [0] * n
    sym = [a.GetSymbol().upper() for a in rm.GetAtoms()]
    if sym != m["elem"]:
        raise Fail("foreign_reader_element", "symbols RDKit reads", m["elem"], sym)
    fc = [a.GetFormalCharge() for a in rm.GetAtoms()]
    if fc != list(ch):
        raise Fail("foreign_reader_charge", "formal charges RDKit reads", list(ch), fc)
    pos = rm.GetConformer().GetPositions()
    for i in range(n):
        for c in range(3):
            if abs(pos[i][c] - float(m["coord"][i][c])) > 0.00005 * (1 + 1e-9) + 1e-12:
                raise Fail("foreign_reader_coord", "coordinates RDKit reads", float(m["coord"][i][c]), float(pos[i][c]))
    got = {(min(b.GetBeginAtomIdx(), b.GetEndAtomIdx()), max(b.GetBeginAtomIdx(), b.GetEndAtomIdx())):
           str(b.GetBondType()) for b in rm.GetBonds()}
    if set(got) != set(m["bonds"]):
        raise Fail("foreign_reader_bonds", "bonded pairs RDKit reads", sorted(m["bonds"]), sorted(got))
    for e, t in m["bonds"].items():
        if t in ("SINGLE", "DOUBLE", "TRIPLE", "AROMATIC") and got[e] != t:
            raise Fail("foreign_reader_bondtype", "bond type RDKit reads", t, got[e])
    return True


# ---------------------------------------------------------------------------
# writing / reading through a container
# ---------------------------------------------------------------------------
SENTINEL_REC = "rec"


def _kw(m, ver):
    import biotite.structure as struc

    kw = {}
    if m["dbt"] is not None:
        kw["default_bond_type"] = getattr(struc.BondType, m["dbt"])
    if ver is not None:
        kw["version"] = ver
    return kw


def write_container(atoms, m, ver, cont, prior=None):
    """-> (text or None, ctab_lines, handle).  Raises what the writer raises.
    prior: atoms already stored in the container before the call (refusal must keep them)."""
    from biotite.structure.io import mol as molio

    kw = _kw(m, ver)
    if cont == "ctab":
        from biotite.structure.io.mol.ctab import write_structure_to_ctab

        return None, write_structure_to_ctab(atoms, **kw), None
    if cont == "mol":
        f = molio.MOLFile()
        if prior is not None:
            f.set_structure(prior)
            before = list(f.lines)
        try:
            f.set_structure(atoms, **kw)
        except Exception:
            if prior is not None and list(f.lines) != before:
                raise Fail("refusal_changed_state", "MOLFile.lines changed by a refused set_structure", before, f.lines)
            raise
        buf = io.StringIO()
        f.write(buf)
        text = buf.getvalue()
        lines = text.split("\n")
        if lines[-1] != "" or lines[:3] != ["", "", ""]:
            raise Fail("file_frame", "MOL file text: 3 empty header lines + ctab + final newline expected", None,
                       lines[:4])
        return text, lines[3:-1], f
    if cont == "sdf":
        f = molio.SDFile()
        r = molio.SDRecord()
        if prior is not None:
            r.set_structure(prior)
            before = r.ctab
        try:
            if prior is None:
                r.set_structure(atoms, **kw)
                f[SENTINEL_REC] = r
            else:
                f[SENTINEL_REC] = r
                molio.set_structure(f, atoms, record_name=SENTINEL_REC, **kw)
        except Exception:
            if prior is not None and r.ctab != before:
                raise Fail("refusal_changed_state", "SDRecord.ctab changed by a refused set_structure", before, r.ctab)
            raise
        buf = io.StringIO()
        f.write(buf)
        text = buf.getvalue()
        try:
            recs = ctfile.parse_sdf(text)
        except ctfile.LayoutError as e:
            raise Fail("file_frame", "SD file framing", "molfile + data items + $$$$", str(e))
        if len(recs) != 1 or recs[0]["header"][0] != SENTINEL_REC or recs[0]["data"]:
            raise Fail("file_frame", "SD file framing", "one record named 'rec'", [r["header"] for r in recs])
        return text, recs[0]["ctab"], f
    raise ValueError(cont)


def read_container(text, ctab_lines, cont):
    from biotite.structure.io import mol as molio

    if cont == "ctab":
        from biotite.structure.io.mol.ctab import read_structure_from_ctab

        return read_structure_from_ctab(list(ctab_lines))
    if cont == "mol":
        g = molio.MOLFile.read(io.StringIO(text))
        return g.get_structure()
    g = molio.SDFile.read(io.StringIO(text))
    if list(g.keys()) != [SENTINEL_REC]:
        raise Fail("readback_records", "record names read back", [SENTINEL_REC], list(g.keys()))
    a = g[SENTINEL_REC].get_structure()
    b = molio.get_structure(g)
    if snapshot(a) != snapshot(b):
        raise Fail("readback_convert", "mol.get_structure(file) differs from record.get_structure()", None, None)
    return a


def plain_prior(pal):
    return build_atoms(apply_devs(base_mol(2, 1, pal), 2, 1, []))


def eval_mol(m, ver, cont, pal, ctx=None, atoms=None):
    """Run one molecule through one container.  Returns list of failures (site, mode, what, exp, obs)."""
    mode, longel = classify_mol(m, ver)
    if atoms is None:
        atoms = build_atoms(m)
    snap = snapshot(atoms)
    site = "write[%s]" % ver
    cnt = ctx.count if ctx else (lambda *a: None)
    try:
        try:
            text, lines, _ = write_container(atoms, m, ver, cont)
        except Fail:
            raise
        except Exception as e:  # noqa: BLE001
            if snapshot(atoms) != snap:
                raise Fail("input_mutated", "input AtomArray changed by a refused write", None, None)
            if mode == "accept":
                raise Fail("unexpected_" + type(e).__name__, "writer refuses a molecule inside the stated limits",
                           "file written", "%s: %s" % (type(e).__name__, str(e)[:200]))
            # refusal: the container must keep what it had
            try:
                write_container(atoms, m, ver, cont, prior=plain_prior(pal))
            except Fail:
                raise
            except Exception:  # noqa: BLE001
                pass
            else:
                if cont != "ctab":
                    raise Fail("refusal_unstable", "second attempt on a filled container did not refuse", None, None)
            cnt("refused" if mode in ("refuse", "refuse_or_v3000") else "unspecified_refused")
            if ctx:
                ctx.outcome(("exc", type(e).__name__))
            return []
        if snapshot(atoms) != snap:
            raise Fail("input_mutated", "input AtomArray changed by writing", None, None)
        if mode == "refuse":
            # still look at the text: a shifted column is the failure the statement names
            try:
                ctfile.parse_ctab(lines)
            except ctfile.LayoutError as e:
                raise Fail("column_shift", "value that does not fit is written into shifted columns instead of "
                           "being refused (%s)" % e.where, "an exception", str(e))
            raise Fail("not_refused", "value the format cannot hold is written without an error", "an exception",
                       lines[:6])
        want = None
        if mode == "refuse_or_v3000":
            want = "V3000"
            if ctfile.version_of(lines[0]) != "V3000":
                try:
                    ctfile.parse_ctab(lines)
                except ctfile.LayoutError as e:
                    raise Fail("column_shift", "value that does not fit V2000 columns is written into shifted columns "
                               "instead of selecting V3000 or raising (%s)" % e.where, "V3000 or an exception", str(e))
                raise Fail("not_refused", "value that does not fit V2000 columns written as V2000",
                           "V3000 or an exception", lines[:6])
        elif ver is not None:
            want = ver
        elif mode == "accept":
            want = "V2000" if (m["n"] < 1000 and len(m["bonds"]) < 1000) else "V3000"
        vw0 = ctfile.version_of(lines[0])
        site = "ctab[%s]" % (vw0 if vw0 in ("V2000", "V3000") else "unknown")
        vw = check_file_content(m, lines, want, longel)
        site = "read[%s]" % vw
        try:
            back = read_container(text, lines, cont)
        except Fail:
            raise
        except Exception as e:  # noqa: BLE001
            if mode == "either":
                cnt("unspecified_refused")
                return []
            raise Fail("unreadable_" + type(e).__name__, "biotite cannot read the file it wrote", "the molecule",
                       "%s: %s" % (type(e).__name__, str(e)[:200]))
        check_readback(m, back, vw, longel)
        site = "foreign[%s]" % vw
        if not longel and check_foreign_reader(m, lines):
            cnt("foreign_reader_agrees")
        cnt("accepted" if mode == "accept" else ("unspecified_exact" if mode == "either" else "selected_v3000"))
        if ctx:
            ctx.outcome("\n".join(lines))
        return []
    except Fail as f:
        return [(site, f.mode, f.what, f.expected, f.observed)]


# ---------------------------------------------------------------------------
# kind "mol": small molecules, deviations
# ---------------------------------------------------------------------------
def mol_case_fails(n, g, devs, ver, cont, pal, ctx=None):
    m = apply_devs(base_mol(n, g, pal), n, g, devs)
    return eval_mol(m, ver, cont, pal, ctx)


def report_mol(ctx, n, g, devs, ver, cont, pal, fails, memo):
    """Reduce a failing multi-deviation case to failing single deviations where possible, then report."""
    reported = False
    if len(devs) >= 2:
        for sub_size in range(1, len(devs)):
            for sub in itertools.combinations(devs, sub_size):
                key = (n, g, json.dumps(sub), ver, cont)
                if key not in memo:
                    memo[key] = mol_case_fails(n, g, list(sub), ver, cont, pal)
                if memo[key]:
                    if memo[key] != "reported":
                        for site, mode, what, exp, obs in memo[key]:
                            case = {"kind": "mol", "n": n, "g": g, "devs": list(sub), "ver": ver, "cont": cont, "pal": pal}
                            ctx.violation("%s|%s|%s" % (site, mode, classes_of(sub)), what, case, exp, obs)
                    reported = True
            if reported:
                return
    for site, mode, what, exp, obs in fails:
        case = {"kind": "mol", "n": n, "g": g, "devs": devs, "ver": ver, "cont": cont, "pal": pal}
        ctx.violation("%s|%s|%s" % (site, mode, classes_of(devs)), what, case, exp, obs)


def run_mol(shard, ctx):
    pal = ctx.seed % len(PALETTES)
    n, order, reduced = shard["n"], shard["order"], shard["reduced"]
    memo = {}
    idx = 0
    for g in shard["graphs"]:
        for devs in devsets(n, g, order, reduced, pal):
            idx += 1
            if idx % shard["of"] != shard["part"]:
                continue
            if not ctx.journal(json.dumps({"kind": "mol", "n": n, "g": g, "devs": devs, "pal": pal})):
                continue
            m = apply_devs(base_mol(n, g, pal), n, g, devs)
            atoms = build_atoms(m)
            for ver in VERSIONS:
                for cont in shard["conts"]:
                    fails = eval_mol(m, ver, cont, pal, ctx, atoms)
                    ctx.ev(1, 1 if devs else 0)
                    if fails:
                        report_mol(ctx, n, g, devs, ver, cont, pal, fails, memo)
            if idx % 997 == 1:
                ctx.sample({"kind": "mol", "n": n, "g": g, "devs": devs, "pal": pal})


def mol_specs(tier):
    """(n, order, reduced, containers)"""
    q = tier == "quick"
    specs = [(n, 0, False, CONTAINERS) for n in (1, 2, 3, 4)]
    specs += [(n, 1, False, CONTAINERS) for n in (1, 2, 3, 4)]
    specs += [(1, 2, False, ["mol"] if q else CONTAINERS), (2, 2, False, ["mol"] if q else CONTAINERS)]
    if q:
        specs += [(3, 2, True, ["mol"])]
    else:
        specs += [(3, 2, False, CONTAINERS), (4, 2, True, ["sdf"]), (1, 3, True, CONTAINERS),
                  (2, 3, True, ["mol"])]
    return specs


def mol_shards(tier):
    out = []
    target = 2500 if tier == "quick" else 9000     # dev-sets per shard
    for n, order, reduced, conts in mol_specs(tier):
        graphs = list(range(1 << len(pairs_of(n))))
        # count with the default palette's base element (palettes only differ by one no-op entry)
        total = sum(n_devsets(n, g, order, reduced) for g in graphs) if order <= 1 or n <= 2 else None
        if total is None:
            # pairs on many graphs: one shard group per graph block
            per = max(1, n_devsets(n, graphs[-1], order, reduced))
            block = max(1, target // per)
            for k in range(0, len(graphs), block):
                gs = graphs[k:k + block]
                parts = max(1, (per * len(gs)) // target)
                for p in range(parts):
                    out.append({"kind": "mol", "n": n, "order": order, "reduced": reduced, "conts": conts,
                                "graphs": gs, "part": p, "of": parts})
        else:
            parts = max(1, total * len(conts) // (3 * target))
            for p in range(parts):
                out.append({"kind": "mol", "n": n, "order": order, "reduced": reduced, "conts": conts,
                            "graphs": graphs, "part": p, "of": parts})
    return out


# ---------------------------------------------------------------------------
# kind "chg": charge placement (M  CHG batching), "big": size switch
# ---------------------------------------------------------------------------
CHG_PATTERNS = {"plus1": [1], "mixed": [-15, 15, 4, -4, 3, -1, 2, -2, -3]}


def chain_mol(n, pal, charges=None, types=None):
    m = base_mol(n, 0, pal)
    tl = types or ["SINGLE"]
    m["bonds"] = {(i, i + 1): tl[i % len(tl)] for i in range(n - 1)}
    if charges:
        for a, c in charges.items():
            m["charge"][a] = c
    return m


def chg_mol(case, pal):
    k = case["sub"]
    if k == "subset":
        pat = CHG_PATTERNS[case["pat"]]
        ch = {a: pat[a % len(pat)] for a in range(10) if case["mask"] >> a & 1}
        return chain_mol(10, pal, ch)
    if k == "prefix":
        pat = CHG_PATTERNS[case["pat"]]
        n, c = case["n"], case["count"]
        atoms = range(c) if case["end"] == "first" else range(n - c, n)
        return chain_mol(n, pal, {a: pat[a % len(pat)] for a in atoms})
    if k == "pair":
        return chain_mol(2, pal, {0: case["c0"], 1: case["c1"]})
    raise ValueError(case)


def chg_cases(tier):
    for pat in CHG_PATTERNS:
        for mask in range(1024):
            yield {"kind": "chg", "sub": "subset", "mask": mask, "pat": pat}
        for n in (20,) if tier == "quick" else (20, 33):
            for c in range(n + 1):
                for end in ("first", "last"):
                    yield {"kind": "chg", "sub": "prefix", "n": n, "count": c, "end": end, "pat": pat}
    for c0 in range(-15, 16):
        for c1 in range(-15, 16):
            yield {"kind": "chg", "sub": "pair", "c0": c0, "c1": c1}


def run_simple_case(ctx, case, m, ver, cont, pal, klass, nontrivial=1, atoms=None):
    fails = eval_mol(m, ver, cont, pal, ctx, atoms)
    ctx.ev(1, nontrivial)
    for site, mode, what, exp, obs in fails:
        ctx.violation("%s|%s|%s" % (site, mode, klass), what, dict(case, ver=ver, cont=cont, pal=pal), exp, obs)


def chg_class(case):
    if case["sub"] == "pair":
        return "chg_pair"
    if case["sub"] == "subset":
        k = bin(case["mask"]).count("1")
    else:
        k = case["count"]
    return "chg_count_%s" % ("0" if k == 0 else "1-8" if k <= 8 else "9-16" if k <= 16 else "17+")


def run_chg(shard, ctx):
    pal = ctx.seed % len(PALETTES)
    conts = ["ctab"] if ctx.tier == "quick" else ["ctab", "mol", "sdf"]
    for i, case in enumerate(chg_cases(ctx.tier)):
        if i % shard["of"] != shard["part"]:
            continue
        m = chg_mol(case, pal)
        atoms = build_atoms(m)
        for ver in VERSIONS:
            for cont in conts:
                run_simple_case(ctx, case, m, ver, cont, pal, chg_class(case), atoms=atoms)
        if i % 499 == 0:
            ctx.sample(case)


BIG_TYPES = ["SINGLE", "DOUBLE", "AROMATIC_SINGLE", "TRIPLE", "ANY", "AROMATIC", "AROMATIC_DOUBLE"]


def big_mol(case, pal):
    shape, n = case["shape"], case["n"]
    if shape == "chain":
        m = chain_mol(n, pal, types=BIG_TYPES)
    elif shape == "star":          # n = number of bonds; n + 1 atoms, centre = last atom
        m = base_mol(n + 1, 0, pal)
        m["bonds"] = {(i, n): BIG_TYPES[i % 7] for i in range(n)}
    elif shape == "dense":         # 600 atoms, n bonds: chain + (i, i+2) chords
        m = chain_mol(600, pal, types=BIG_TYPES)
        extra = n - 599
        for i in range(extra):
            m["bonds"][(i, i + 2)] = BIG_TYPES[(i + 3) % 7]
    else:
        raise ValueError(case)
    na = m["n"]
    for a in list(range(0, na, 7)) + [na - 1]:
        m["charge"][a] = (a % 31) - 15 or 1
    # keep coordinates inside the columns whatever the palette step is
    p = PALETTES[pal]
    m["coord"] = [[f32(float(p["base"][c]) + (i % 97) * float(p["step"][c])) for c in range(3)] for i in range(na)]
    return m


def big_cases(tier):
    sizes = [2, 9, 10, 11, 99, 100, 101, 998, 999, 1000, 1001, 1500]
    if tier != "quick":
        sizes += list(range(990, 998)) + list(range(1002, 1011)) + [1499, 1501]
    for n in sorted(sizes):
        yield {"kind": "big", "shape": "chain", "n": n}
    for n in [997, 998, 999, 1000] + ([996, 1001, 1002] if tier != "quick" else []):
        yield {"kind": "big", "shape": "star", "n": n}
    for n in [998, 999, 1000, 1001] + ([997, 1002, 1100] if tier != "quick" else []):
        yield {"kind": "big", "shape": "dense", "n": n}


def big_class(m):
    na, nb = m["n"], len(m["bonds"])
    return "atoms_%s+bonds_%s" % ("ge1000" if na >= 1000 else "lt1000", "ge1000" if nb >= 1000 else "lt1000")


def run_big(shard, ctx):
    pal = ctx.seed % len(PALETTES)
    case = shard["case"]
    m = big_mol(case, pal)
    too_big = m["n"] >= 1000 or len(m["bonds"]) >= 1000
    atoms = build_atoms(m)
    for ver in VERSIONS:
        for cont in CONTAINERS:
            if too_big and ver == "V2000":
                run_too_big(ctx, case, m, cont, pal)
            else:
                run_simple_case(ctx, case, m, ver, cont, pal, big_class(m), atoms=atoms)
    ctx.sample(case)


def run_too_big(ctx, case, m, cont, pal):
    """version='V2000' with counts that need 4 digits: must raise, container unchanged."""
    atoms = build_atoms(m)
    ctx.ev(1, 1)
    c = dict(case, ver="V2000", cont=cont, pal=pal)
    try:
        text, lines, _ = write_container(atoms, m, "V2000", cont, prior=plain_prior(pal))
    except Fail as f:
        ctx.violation("write[V2000]|%s|%s" % (f.mode, big_class(m)), f.what, c, f.expected, f.observed)
    except Exception as e:  # noqa: BLE001
        ctx.count("refused")
        ctx.outcome(("exc", type(e).__name__))
    else:
        ctx.violation("write[V2000]|not_refused|%s" % big_class(m),
                      "counts that do not fit the 3-digit V2000 fields are written", c, "an exception", lines[:2])


# ---------------------------------------------------------------------------
# kind "header"
# ---------------------------------------------------------------------------
HEADER_MAX = {"mol_name": 80, "initials": 2, "program": 8, "dimensions": 2, "scaling_factors": 12, "energy": 12,
              "registry_number": 6, "comments": 80}
HEADER_FIELDS = ["mol_name", "initials", "program", "time", "dimensions", "scaling_factors", "energy",
                 "registry_number", "comments"]
HEADER_BASE = {
    "empty": {"mol_name": "", "initials": "", "program": "", "time": None, "dimensions": "", "scaling_factors": "",
              "energy": "", "registry_number": "", "comments": ""},
    "full": {"mol_name": "name", "initials": "AB", "program": "PROGRAM8", "time": [2020, 2, 29, 13, 5],
             "dimensions": "3D", "scaling_factors": "123456789012", "energy": "-12345.67890",
             "registry_number": "123456", "comments": "a comment"},
}
HEADER_PALETTE = {
    "mol_name": ["", "A", "a b", "x" * 80, "x" * 81, "M  END", "> <a>", "12 3"],
    "initials": ["", "A", "AB", "ABC"],
    "program": ["", "P", "a b", "PROGRAM8", "PROGRAM89"],
    "time": [None, [2020, 2, 29, 13, 5], [1969, 1, 1, 0, 0], [2068, 12, 31, 23, 59]],
    "dimensions": ["", "2", "3D"],
    "scaling_factors": ["", "1", "123456789012", "1234567890123"],
    "energy": ["", "1.5", "-12345.67890", "-12345.678901"],
    "registry_number": ["", "1", "123456", "1234567"],
    "comments": ["", "c", "c c", "M  END", "$$$$", "x" * 80],
}
HEADER_MODES = ["mol_hs", "mol_sh", "sdf"]    # MOLFile header-then-structure, structure-then-header, SDRecord


def header_devs():
    return [(f, i) for f in HEADER_FIELDS for i in range(len(HEADER_PALETTE[f]))]


def header_cases(order):
    devs = header_devs()
    for base in ("empty", "full"):
        if order == 0:
            yield {"kind": "header", "base": base, "devs": []}
            continue
        for combo in itertools.combinations(devs, order):
            if len({f for f, _ in combo}) < order:
                continue
            if any(HEADER_PALETTE[f][i] == HEADER_BASE[base][f] for f, i in combo):
                continue
            yield {"kind": "header", "base": base, "devs": [list(x) for x in combo]}


def header_fields(case):
    if "fields" in case:
        return dict(case["fields"])
    h = dict(HEADER_BASE[case["base"]])
    for f, i in case["devs"]:
        h[f] = HEADER_PALETTE[f][i]
    return h


def header_field_class(f, v):
    if f == "time":
        return "time_none" if v is None else "time_set"
    if len(v) > HEADER_MAX[f]:
        return f + "_overlong"
    if v.startswith("$$$$"):
        return f + "_starts_with_record_delimiter"
    if v.startswith("M  END"):
        return f + "_starts_with_M__END"
    if v.startswith(">"):
        return f + "_starts_with_gt"
    if len(v) == HEADER_MAX[f]:
        return f + "_max_length"
    return f + ("_empty" if v == "" else "_plain")


def make_header(h):
    import datetime

    from biotite.structure.io.mol import Header

    kw = dict(h)
    if kw["time"] is not None:
        kw["time"] = datetime.datetime(*kw["time"])
    return Header(**kw)


def time_text(t):
    return "" if t is None else "%02d%02d%02d%02d%02d" % (t[1], t[2], t[0] % 100, t[3], t[4])


def eval_header(case, mode, pal):
    from biotite.structure.io import mol as molio

    h = header_fields(case)
    overlong = [f for f in HEADER_MAX if len(h[f]) > HEADER_MAX[f]]
    delim = [f for f in ("mol_name", "comments") if h[f].startswith("$$$$")]
    either = bool(overlong) or (mode == "sdf" and bool(delim))
    m2 = apply_devs(base_mol(2, 1, pal), 2, 1, [])
    atoms = build_atoms(m2)
    site = "Header[%s]" % ("sdf" if mode == "sdf" else "mol")
    try:
        try:
            hdr = make_header(h)
            if mode == "sdf":
                f = molio.SDFile()
                r = molio.SDRecord(header=hdr)
                r.set_structure(atoms)
                f[h["mol_name"]] = r
            else:
                f = molio.MOLFile()
                if mode == "mol_hs":
                    f.header = hdr
                    f.set_structure(atoms)
                else:
                    f.set_structure(atoms)
                    f.header = hdr
            buf = io.StringIO()
            f.write(buf)
            text = buf.getvalue()
        except Exception as e:  # noqa: BLE001
            if either:
                return "unspecified_refused", []
            raise Fail("unexpected_" + type(e).__name__, "header inside the documented limits is refused",
                       "file written", "%s: %s" % (type(e).__name__, str(e)[:200]))
        # ---- text level
        if not either:
            if mode == "sdf":
                try:
                    recs = ctfile.parse_sdf(text)
                except ctfile.LayoutError as e:
                    raise Fail("file_frame", "SD framing", None, str(e))
                if len(recs) != 1:
                    raise Fail("file_frame", "number of records in text", 1, len(recs))
                hl, cl = recs[0]["header"], recs[0]["ctab"]
            else:
                lines = text.split("\n")[:-1]
                hl, cl = lines[:3], lines[3:]
            try:
                ph = ctfile.parse_header(hl)
            except ctfile.LayoutError as e:
                raise Fail("column_shift", "header block layout", None, str(e))
            want = {k: (time_text(v) if k == "time" else v) for k, v in h.items()}
            if ph != want:
                bad = sorted(k for k in want if ph.get(k) != want[k])
                raise Fail("file_content_" + "+".join(bad), "header fields in their columns", want, ph)
            try:
                p = ctfile.parse_ctab(cl)
            except ctfile.LayoutError as e:
                raise Fail("column_shift", "connection table after the header", None, str(e))
            if p["n_atoms"] != 2:
                raise Fail("file_content_count", "atoms in file", 2, p["n_atoms"])
        # ---- read back
        try:
            if mode == "sdf":
                g = molio.SDFile.read(io.StringIO(text))
                names = list(g.keys())
                if names != [h["mol_name"]]:
                    raise Fail("readback_records", "record names read back", [h["mol_name"]], names)
                rec = g[names[0]]
                got, back = rec.header, rec.get_structure()
            else:
                g = molio.MOLFile.read(io.StringIO(text))
                got, back = g.header, g.get_structure()
        except Fail as f:
            if either:
                raise Fail(f.mode, f.what, f.expected, f.observed)
            raise
        except Exception as e:  # noqa: BLE001
            if either:
                return "unspecified_refused", []
            raise Fail("unreadable_" + type(e).__name__, "biotite cannot read the file it wrote", "header + molecule",
                       "%s: %s" % (type(e).__name__, str(e)[:200]))
        check_readback(m2, back, "V2000", [])
        want = make_header(h)
        for fld in HEADER_FIELDS:
            if fld in overlong:
                continue
            if getattr(got, fld) != getattr(want, fld):
                raise Fail("readback_" + fld, "header field read back", repr(getattr(want, fld)), repr(getattr(got, fld)))
        if not overlong and got != want:
            raise Fail("readback_eq", "Header.__eq__ after round trip", str(want), str(got))
        return ("unspecified_exact" if either else "accepted"), []
    except Fail as f:
        return "fail", [(site, f.mode, f.what, f.expected, f.observed)]


def header_classes(case):
    h = header_fields(case)
    return "+".join(sorted(header_field_class(f, h[f]) for f, _ in case["devs"])) or "plain"


def run_header_case(ctx, case, pal, memo=None):
    for mode in ([case["mode"]] if "mode" in case else HEADER_MODES):
        res, fails = eval_header(case, mode, pal)
        ctx.ev(1, 1 if case["devs"] else 0)
        ctx.count(res) if res != "fail" else None
        ctx.outcome((res, json.dumps(header_fields(case)), mode))
        if not fails:
            continue
        # reduce to failing sub-cases
        subs = []
        if len(case["devs"]) >= 2:
            for k in range(1, len(case["devs"])):
                for sub in itertools.combinations(case["devs"], k):
                    sc = {"kind": "header", "base": case["base"], "devs": [list(x) for x in sub]}
                    key = (json.dumps(sc), mode)
                    if memo is not None and key in memo:
                        r = memo[key]
                    else:
                        r = eval_header(sc, mode, pal)[1]
                        if memo is not None:
                            memo[key] = r
                    if r:
                        subs.append((sc, r))
                if subs:
                    break
        for sc, fl in (subs or [(case, fails)]):
            for site, fmode, what, exp, obs in fl:
                ctx.violation("%s|%s|%s" % (site, fmode, header_classes(sc)), what,
                              dict(sc, mode=mode, pal=pal), exp, obs)


def run_header(shard, ctx):
    pal = ctx.seed % len(PALETTES)
    memo = {}
    for i, case in enumerate(header_cases(shard["order"])):
        if i % shard["of"] != shard["part"]:
            continue
        run_header_case(ctx, case, pal, memo)
        if i % 211 == 0:
            ctx.sample(case)


# ---------------------------------------------------------------------------
# kind "meta": metadata keys and values
# ---------------------------------------------------------------------------
ABSENT = "<absent>"
KEY_NAMES = [ABSENT, "a", "A.b_1", "9x", "DT5", "_a", "a b", "a>", ""]
KEY_NUMBERS = [ABSENT, 0, 42, "7", -1]
KEY_REGINT = [ABSENT, 5, 0, -2]
KEY_REGEXT = [ABSENT, "x", "x-1.2", "", "a b", "(x)"]
VALUES = ["x", "a\nb", "a\nb\nc", "x" * 200, "a>b", "a\tb", "M  END", "", " x", "a\n b", "a\n\nb", "\na", ">a",
          "a\n> <q>\nb", "$$$$", "a\n$$$$\nb"]
KEYS_R = [{"name": "a"}, {"name": "b"}, {"number": 1}, {"number": 2, "name": "a"}, {"name": "a", "registry_internal": 3},
          {"number": 1, "registry_external": "e"}, {"name": "A.b_1", "number": 0, "registry_internal": 0,
                                                     "registry_external": "x-1.2"}, {"name": "z9"}]
VALUES_R = ["x", "a\nb", "1 2  3", "a>b"]


def key_class(k):
    """-> (class, label)   class: accept / refuse / either"""
    name, num = k.get("name"), k.get("number")
    labels, cls = [], "accept"
    if name is None and num is None:
        return "refuse", "key_without_name_and_number"
    if name is not None:
        if name == "" or not all(c.isalnum() and c.isascii() or c in "_." for c in name):
            return "refuse", "key_name_invalid"
        if not (name[0].isalnum()):
            cls, labels = "either", labels + ["key_name_leading_underscore"]
    if num is not None and int(num) < 0:
        cls, labels = "either", labels + ["key_number_negative"]
    ri = k.get("registry_internal")
    if ri is not None and int(ri) < 0:
        cls, labels = "either", labels + ["key_regint_negative"]
    re_ = k.get("registry_external")
    if re_ is not None and not all(c.isalnum() and c.isascii() or c in "_.-" for c in re_):
        cls, labels = "either", labels + ["key_regext_special"]
    if not labels:
        labels = ["key_" + "".join(p[0] if k.get(p) is not None else "-" for p in
                                   ("number", "name", "registry_internal", "registry_external"))]
    return cls, "+".join(labels)


def value_class(v):
    lines = v.split("\n")
    if v == "":
        return "either", "value_empty"
    if any(ln.startswith("$$$$") for ln in lines):
        return "either", "value_line_is_record_delimiter"
    if any(ln.startswith(">") for ln in lines):
        return "either", "value_line_starts_with_gt"
    if any(ln.strip() == "" for ln in lines):
        return "either", "value_blank_line"
    if any(ln != ln.strip() for ln in lines):
        return "either", "value_line_edge_blank"
    return "accept", "value_multiline" if len(lines) > 1 else "value_plain"


def norm_key(k):
    out = {"number": None, "name": None, "registry_internal": None, "registry_external": None}
    out.update(k)
    for p in ("number", "registry_internal"):
        if out[p] is not None:
            out[p] = int(out[p])
    return out


def key_tuple(key):
    return {"number": key.number, "name": key.name, "registry_internal": key.registry_internal,
            "registry_external": key.registry_external}


def eval_meta(items, ctor, pal):
    """items: [(keydict, value)] in order.  -> (result, fails)"""
    from biotite.structure.io import mol as molio

    K = molio.Metadata.Key
    kc = [key_class(k) for k, _ in items]
    vc = [value_class(v) for _, v in items]
    site = "Metadata"
    try:
        keys = []
        for (k, _), (c, lab) in zip(items, kc):
            try:
                keys.append(K(**k))
            except Exception as e:  # noqa: BLE001
                if c == "accept":
                    raise Fail("unexpected_" + type(e).__name__, "valid metadata key refused", "a key",
                               "%s: %s" % (type(e).__name__, str(e)[:200]))
                return ("refused" if c == "refuse" else "unspecified_refused"), []
            if c == "refuse":
                raise Fail("not_refused", "metadata key outside the documented grammar accepted", "ValueError", str(keys[-1]))
        either = any(c == "either" for c, _ in kc) or any(c == "either" for c, _ in vc)
        m2 = apply_devs(base_mol(2, 1, pal), 2, 1, [])
        try:
            if ctor == "dict":
                md = molio.Metadata({k: v for k, (_, v) in zip(keys, items)})
            else:
                md = molio.Metadata()
                for k, (_, v) in zip(keys, items):
                    md[k] = v
            r = molio.SDRecord(metadata=md) if ctor != "assign" else molio.SDRecord()
            if ctor == "assign":
                r.metadata = md
            r.set_structure(build_atoms(m2))
            f = molio.SDFile()
            f["n"] = r
            buf = io.StringIO()
            f.write(buf)
            text = buf.getvalue()
        except Exception as e:  # noqa: BLE001
            if either:
                return "unspecified_refused", []
            raise Fail("unexpected_" + type(e).__name__, "metadata inside the grammar refused", "file written",
                       "%s: %s" % (type(e).__name__, str(e)[:200]))
        if not either:
            try:
                recs = ctfile.parse_sdf(text)
                if len(recs) != 1:
                    raise ctfile.LayoutError("sdf", "%d records" % len(recs))
                data = [(ctfile.parse_data_header(h), "\n".join(v)) for h, v in recs[0]["data"]]
            except ctfile.LayoutError as e:
                raise Fail("file_frame", "data items of the SD record", "> header / value lines / blank line", str(e))
            want = [(norm_key(k), v) for k, v in items]
            if data != want:
                raise Fail("file_content", "data items a conforming reader obtains", want, data)
        try:
            g = molio.SDFile.read(io.StringIO(text))
            names = list(g.keys())
            if names != ["n"]:
                raise Fail("readback_records", "record names read back (metadata broke the record framing)", ["n"], names)
            rec = g["n"]
            back_md = rec.metadata
            got = [(key_tuple(k), v) for k, v in back_md.items()]
            back = rec.get_structure()
        except Fail:
            raise
        except Exception as e:  # noqa: BLE001
            if either:
                return "unspecified_refused", []
            raise Fail("unreadable_" + type(e).__name__, "biotite cannot read the metadata it wrote", "metadata",
                       "%s: %s" % (type(e).__name__, str(e)[:200]))
        want = [(norm_key(k), v) for k, v in items]
        normalised = False
        if got != want:
            # blanks at the edges of value lines: the reader strips every line - a normalisation the statement
            # does not forbid (the SD format gives such blanks no meaning); exact or stripped are both accepted
            want_n = [(k, "\n".join(ln.strip() for ln in v.split("\n"))
                       if value_class(v)[1] == "value_line_edge_blank" else v) for k, v in want]
            if got != want_n:
                raise Fail("readback_changed", "metadata (keys in order, values) read back", want, got)
            normalised = True
        check_readback(m2, back, "V2000", [])
        if not either:
            # mapping laws
            for k, (kd, v) in zip(keys, items):
                if back_md[k] != v or k not in back_md:
                    raise Fail("mapping_lookup", "Metadata[key] after round trip", v, None)
                if list(kd) == ["name"] and back_md[kd["name"]] != v:
                    raise Fail("mapping_lookup_str", "Metadata['name'] after round trip", v, None)
            if back_md != md or len(back_md) != len(items):
                raise Fail("mapping_eq", "Metadata.__eq__/len after round trip", None, None)
        return ("unspecified_normalised" if normalised else "unspecified_exact" if either else "accepted"), []
    except Fail as f:
        return "fail", [(site, f.mode, f.what, f.expected, f.observed)]


def meta_single_cases():
    for nm in KEY_NAMES:
        for nu in KEY_NUMBERS:
            for ri in KEY_REGINT:
                for rx in KEY_REGEXT:
                    k = {}
                    if nu != ABSENT:
                        k["number"] = nu
                    if nm != ABSENT:
                        k["name"] = nm
                    if ri != ABSENT:
                        k["registry_internal"] = ri
                    if rx != ABSENT:
                        k["registry_external"] = rx
                    yield k


def meta_cases(tier):
    """(group, case): every key x value (single item; group = key index), every ordered pair of reduced keys x
    reduced value pairs, thorough: ordered triples"""
    grp = 0
    for k in meta_single_cases():
        cls = key_class(k)[0]
        vals = VALUES if cls != "refuse" else ["x"]
        grp += 1
        for v in vals:
            yield grp, {"kind": "meta", "items": [[k, v]]}
    for k1, k2 in itertools.permutations(KEYS_R, 2):
        grp += 1
        for v1 in VALUES_R:
            for v2 in (VALUES_R if tier != "quick" else VALUES_R[:2]):
                yield grp, {"kind": "meta", "items": [[k1, v1], [k2, v2]]}
    if tier != "quick":
        for ks in itertools.permutations(KEYS_R[:5], 3):
            grp += 1
            yield grp, {"kind": "meta", "items": [[k, VALUES_R[i]] for i, k in enumerate(ks)]}


def is_plain_key(k):
    return list(k) == ["name"] and key_class(k) == ("accept", "key_-n--")


def meta_classes(items):
    labs = set()
    for k, v in items:
        if not is_plain_key(k):
            labs.add(key_class(k)[1])
        if v != "x":
            labs.add(value_class(v)[1])
    if len(items) > 1:
        labs.add("items_%d" % len(items))
    return "+".join(sorted(labs)) or "plain"


def reduce_meta(items, ctor, pal):
    """Replace components by plain ones / drop items while the case keeps failing."""
    def failing(it):
        res, fl = eval_meta(it, ctor, pal)
        return fl

    cur = list(items)
    changed = True
    while changed:
        changed = False
        for i in range(len(cur)):
            if len(cur) > 1:
                t = cur[:i] + cur[i + 1:]
                if failing(t):
                    cur, changed = t, True
                    break
            k, v = cur[i]
            if not is_plain_key(k):
                t = cur[:i] + [({"name": "k%d" % i}, v)] + cur[i + 1:]
                if failing(t):
                    cur, changed = t, True
                    break
            if v != "x":
                t = cur[:i] + [(k, "x")] + cur[i + 1:]
                if failing(t):
                    cur, changed = t, True
                    break
    return cur


def run_meta_case(ctx, case, pal):
    items = [(dict(k), v) for k, v in case["items"]]
    for ctor in ([case["ctor"]] if "ctor" in case else ["dict", "setitem", "assign"]):
        res, fails = eval_meta(items, ctor, pal)
        if ctor == "setitem" and any(v == "" for _, v in items) and not fails \
                and res not in ("unspecified_refused", "refused"):
            # documented in the code: empty values are refused by __setitem__
            fails = [("Metadata", "not_refused", "empty value accepted by __setitem__", "ValueError", res)]
        nontriv = 0 if (len(items) == 1 and items[0][1] == "x" and is_plain_key(items[0][0])) else 1
        ctx.ev(1, nontriv)
        if res != "fail":
            ctx.count(res)
        ctx.outcome((res, json.dumps(case["items"]), ctor))
        if fails:
            red = reduce_meta(items, ctor, pal)
            if red != items:
                fails = eval_meta(red, ctor, pal)[1] or fails
            rcase = {"kind": "meta", "items": [[k, v] for k, v in red], "ctor": ctor, "pal": pal}
            for site, mode, what, exp, obs in fails:
                ctx.violation("%s|%s|%s" % (site, mode, meta_classes(red)), what, rcase, exp, obs)


def run_meta(shard, ctx):
    pal = ctx.seed % len(PALETTES)
    for i, (grp, case) in enumerate(meta_cases(ctx.tier)):
        if grp % shard["of"] != shard["part"]:
            continue
        run_meta_case(ctx, case, pal)
        if i % 1999 == 0:
            ctx.sample(case)


# ---------------------------------------------------------------------------
# kind "records": names and order of the records of a multi-record file
# ---------------------------------------------------------------------------
REC_NAMES = ["A", "B", "a b", "", "1", "M  END", "$$$$", "> <a>", "x" * 80, "ALA"]


def rec_name_class(nm):
    if nm.startswith("$$$$"):
        return "name_starts_with_record_delimiter"
    if nm.startswith("M  END"):
        return "name_starts_with_M__END"
    if nm.startswith(">"):
        return "name_starts_with_gt"
    if nm == "":
        return "name_empty"
    if len(nm) == 80:
        return "name_max_length"
    return "name_plain"


def record_cases(tier):
    for k in (1, 2, 3):
        for names in itertools.permutations(REC_NAMES, k):
            yield {"kind": "records", "names": list(names)}


def rec_mol(i, pal):
    n = i + 1
    return chain_mol(n, pal, {0: i + 1}, ["SINGLE", "DOUBLE"])


def eval_records(case, pal, api):
    from biotite.structure.io import mol as molio

    names = case["names"]
    either = any(nm.startswith("$$$$") for nm in names)
    site = "SDFile"
    try:
        try:
            f = molio.SDFile()
            for i, nm in enumerate(names):
                a = build_atoms(rec_mol(i, pal))
                if api == "records":
                    r = molio.SDRecord(metadata={"idx": str(i)})
                    r.set_structure(a, version="V3000" if i == 1 else None)
                    f[nm] = r
                else:
                    molio.set_structure(f, a, record_name=nm, version="V3000" if i == 1 else None)
                    f[nm].metadata = {"idx": str(i)}
            buf = io.StringIO()
            f.write(buf)
            text = buf.getvalue()
        except Exception as e:  # noqa: BLE001
            if either:
                return "unspecified_refused", []
            raise Fail("unexpected_" + type(e).__name__, "record names inside the limits refused", "file written",
                       "%s: %s" % (type(e).__name__, str(e)[:200]))
        if list(f.keys()) != names:
            raise Fail("mapping_order", "keys of the file object before writing", names, list(f.keys()))
        if not either:
            try:
                recs = ctfile.parse_sdf(text)
            except ctfile.LayoutError as e:
                raise Fail("file_frame", "SD framing", None, str(e))
            if [r["header"][0] for r in recs] != names:
                raise Fail("file_content_names", "record names in the text, in order", names, [r["header"][0] for r in recs])
            for i, r in enumerate(recs):
                try:
                    p = ctfile.parse_ctab(r["ctab"])
                except ctfile.LayoutError as e:
                    raise Fail("column_shift", "connection table of record %d" % i, None, str(e))
                if p["n_atoms"] != i + 1 or p["version"] != ("V3000" if i == 1 else "V2000"):
                    raise Fail("file_content_record", "record %d content" % i, (i + 1,), (p["n_atoms"], p["version"]))
        try:
            g = molio.SDFile.read(io.StringIO(text))
            got = list(g.keys())
            if got != names:
                raise Fail("readback_names", "record names and order read back", names, got)
            if len(g) != len(names):
                raise Fail("readback_len", "len(file)", len(names), len(g))
            for i, nm in enumerate(names):
                rec = g[nm]
                if rec.header.mol_name != nm:
                    raise Fail("readback_mol_name", "header.mol_name of the record", nm, rec.header.mol_name)
                check_readback(rec_mol(i, pal), rec.get_structure(), "V3000" if i == 1 else "V2000", [])
                check_readback(rec_mol(i, pal), molio.get_structure(g, record_name=nm), None, [])
                md = [(key_tuple(k), v) for k, v in rec.metadata.items()]
                if md != [(norm_key({"name": "idx"}), str(i))]:
                    raise Fail("readback_metadata", "metadata of record %d" % i, str(i), md)
            if len(names) == 1:
                if g.record is not g[names[0]]:
                    raise Fail("record_property", "SDFile.record on a single-record file", None, None)
            else:
                try:
                    g.record
                except ValueError:
                    pass
                else:
                    raise Fail("record_property", "SDFile.record on a multi-record file did not raise", "ValueError", None)
            # documented: MOLFile reads the first structure of an SD file
            site = "MOLFile.read(sdf)"
            first = molio.MOLFile.read(io.StringIO(text)).get_structure()
            check_readback(rec_mol(0, pal), first, "V2000", [])
            site = "SDFile"
            if molio.SDFile.read(io.StringIO(text)) != f:
                raise Fail("file_eq", "SDFile.__eq__ between written and read file", None, None)
        except Fail:
            raise
        except Exception as e:  # noqa: BLE001
            if either:
                return "unspecified_refused", []
            raise Fail("unreadable_" + type(e).__name__, "biotite cannot read the SD file it wrote", "records",
                       "%s: %s" % (type(e).__name__, str(e)[:200]))
        return ("unspecified_exact" if either else "accepted"), []
    except Fail as f:
        return "fail", [(site, f.mode, f.what, f.expected, f.observed)]


def run_records_case(ctx, case, pal):
    for api in ([case["api"]] if "api" in case else ["records", "convert"]):
        res, fails = eval_records(case, pal, api)
        ctx.ev(1, 1 if len(case["names"]) > 1 or case["names"][0] != "A" else 0)
        if res != "fail":
            ctx.count(res)
        ctx.outcome((res, json.dumps(case["names"]), api))
        if fails and len(case["names"]) > 1:
            # reduce: does a single awkward name fail on its own?
            subs = []
            for nm in case["names"]:
                r = eval_records({"kind": "records", "names": [nm]}, pal, api)[1]
                if r:
                    subs.append(({"kind": "records", "names": [nm]}, r))
            if subs:
                for sc, fl in subs:
                    for site, mode, what, exp, obs in fl:
                        ctx.violation("%s|%s|%s" % (site, mode, rec_name_class(sc["names"][0])), what,
                                      dict(sc, api=api, pal=pal), exp, obs)
                continue
        for site, mode, what, exp, obs in fails:
            klass = "+".join(sorted({rec_name_class(nm) for nm in case["names"]}))
            ctx.violation("%s|%s|%s" % (site, mode, klass), what, dict(case, api=api, pal=pal), exp, obs)


def run_records(shard, ctx):
    pal = ctx.seed % len(PALETTES)
    for i, case in enumerate(record_cases(ctx.tier)):
        if i % shard["of"] != shard["part"]:
            continue
        run_records_case(ctx, case, pal)
        if i % 199 == 0:
            ctx.sample(case)


# ---------------------------------------------------------------------------
# kind "rd": RDKit bridge
# ---------------------------------------------------------------------------
RD_KW = {"default": {}, "kekulize": {"kekulize": True}, "dative": {"use_dative_bonds": True}}
RD_EL = ["N", "O", "CL", "FE", "H"]
RD_XYZ = ["0", "0.00005", "1.2345", "123456.7", "-1e-30", "3.4e38"]
RD_CHG = [-15, -4, -1, 1, 3, 15]
RD_ANN = [["chain_id", "A"], ["chain_id", "AB"], ["res_id", -5], ["res_id", 9999], ["res_id", 123456],
          ["ins_code", "A"], ["res_name", "LIG"], ["res_name", "ABCDE"], ["hetero", True], ["atom_name", "CA"],
          ["atom_name", "C1'"], ["atom_name", "HG21"], ["b_factor", 12.5], ["occupancy", 0.5], ["label_alt_id", "B"]]
RD_DEPTHS = [0, 1, 2, 3]           # 0 = AtomArray, k = AtomArrayStack of k models
# to_mol's documented RDKit bond types
RD_TYPE = {"ANY": "UNSPECIFIED", "SINGLE": "SINGLE", "DOUBLE": "DOUBLE", "TRIPLE": "TRIPLE", "QUADRUPLE": "QUADRUPLE",
           "AROMATIC_SINGLE": "AROMATIC", "AROMATIC_DOUBLE": "AROMATIC", "AROMATIC_TRIPLE": "AROMATIC",
           "AROMATIC": "AROMATIC"}
KEKULE = {"AROMATIC_SINGLE": "SINGLE", "AROMATIC_DOUBLE": "DOUBLE", "AROMATIC_TRIPLE": "TRIPLE"}


def rd_devs_single(n, g, pal):
    ne = len(edges_of(n, g))
    base_el = PALETTES[pal]["el"]
    base = base_mol(n, 0, pal)["coord"]
    out = [["bt", e, t] for e in range(ne) for t in BT_DEV]
    out += [["chg", a, c] for a in range(n) for c in RD_CHG] + [["nochg"]]
    out += [["el", a, el] for a in range(n) for el in RD_EL if el != base_el]
    out += [["xyz", a, c, v] for a in range(n) for c in range(3) for v in RD_XYZ if f32(v) != base[a][c]]
    out += [["ann", a, i] for a in range(n) for i in range(len(RD_ANN))]
    return out


def rd_dev_class(d):
    if d[0] == "ann":
        return "ann_" + RD_ANN[d[2]][0]
    if d[0] == "xyz":
        return "xyz"
    return dev_class(d)


def rd_model(case):
    n, g, pal = case["n"], case["g"], case["pal"]
    if case.get("ring"):
        m = base_mol(n, 0, pal)
        m["bonds"] = {(min(i, (i + 1) % n), max(i, (i + 1) % n)): case["ring"][i] for i in range(n)}
        m["ann"] = []
        return m
    devs = case["devs"]
    m = apply_devs(base_mol(n, g, pal), n, g, [d for d in devs if d[0] != "ann"])
    m["ann"] = [(d[1], RD_ANN[d[2]][0], RD_ANN[d[2]][1]) for d in devs if d[0] == "ann"]
    return m


def rd_atoms(m, depth):
    import biotite.structure as struc

    a = build_atoms(m)
    for atom, field, value in m["ann"]:
        if field in ("b_factor", "occupancy"):
            if field not in a.get_annotation_categories():
                a.set_annotation(field, np.zeros(m["n"], dtype=float))
        elif field == "label_alt_id":
            if field not in a.get_annotation_categories():
                a.set_annotation(field, np.full(m["n"], ".", dtype="U4"))
        a.get_annotation(field)[atom] = value
    if depth == 0:
        return a
    models = []
    for k in range(depth):
        b = a.copy()
        b.coord = a.coord + np.float32(0.5 * k)
        models.append(b)
    return struc.stack(models)


def rd_expected_back(t, kw):
    """bond type names acceptable after to_mol -> from_mol"""
    if t in AROMATIC_FAMILY:
        if kw == "kekulize":
            return {KEKULE[t]} if t in KEKULE else {"ANY"} | set(AROMATIC_FAMILY)
        return set(AROMATIC_FAMILY)
    if t == "COORDINATION":
        return {"COORDINATION"} if kw == "dative" else {"SINGLE"}
    return {t}


def rd_check_atoms(m, got, model_coord, what):
    import biotite.structure as struc

    n = m["n"]
    if got.array_length() != n:
        raise Fail("count", "%s: atom count" % what, n, got.array_length())
    if got.element.tolist() != m["elem"]:
        raise Fail("element", "%s: elements" % what, m["elem"], got.element.tolist())
    ch = m["charge"] or [0] * n
    if "charge" not in got.get_annotation_categories() or got.charge.tolist() != list(ch):
        raise Fail("charge", "%s: formal charges" % what, list(ch), got.charge.tolist())
    if got.coord.dtype != np.float32 or got.coord.tobytes() != model_coord.tobytes():
        raise Fail("coord", "%s: coordinates (exact in float32)" % what, model_coord.tolist(), got.coord.tolist())
    for atom, field, value in m["ann"]:
        if field not in got.get_annotation_categories():
            raise Fail("ann_" + field, "%s: annotation missing" % what, field, None)
        exp = [value if i == atom else None for i in range(n)]
        g = got.get_annotation(field).tolist()
        if g[atom] != value:
            raise Fail("ann_" + field, "%s: residue information" % what, exp, g)
    for field, dflt in (("chain_id", ""), ("res_id", 0), ("ins_code", ""), ("res_name", ""), ("hetero", False),
                        ("atom_name", "")):
        g = got.get_annotation(field).tolist()
        for i in range(n):
            if not any(a == i and f == field for a, f, _ in m["ann"]) and g[i] != dflt:
                raise Fail("ann_" + field, "%s: default residue information changed" % what, dflt, g)


def rd_check_bonds(m, got, kw, what):
    import biotite.structure as struc

    if got.bonds is None:
        raise Fail("bonds", "%s: no BondList" % what, None, None)
    gb = {(int(i), int(j)): struc.BondType(int(t)).name for i, j, t in got.bonds.as_array()}
    if set(gb) != set(m["bonds"]) or got.bonds.get_bond_count() != len(m["bonds"]):
        raise Fail("bonds", "%s: bonded pairs" % what, sorted(m["bonds"]), sorted(gb))
    for e, t in m["bonds"].items():
        ok = rd_expected_back(t, kw)
        if gb[e] not in ok:
            raise Fail("bondtype_" + t, "%s: bond type" % what, sorted(ok), gb[e])


def eval_rd(case):
    """-> (result, fails)"""
    import biotite.structure as struc
    from biotite.interface.rdkit import from_mol, to_mol

    Chem = rdkit()
    m = rd_model(case)
    depth, kw = case["depth"], case["kw"]
    n = m["n"]
    atoms = rd_atoms(m, depth)
    has_h = "H" in m["elem"]
    coords = atoms.coord if depth else atoms.coord[None]
    site = "to_mol[%s]" % kw
    try:
        try:
            rm = to_mol(atoms, **RD_KW[kw])
        except Exception as e:  # noqa: BLE001
            raise Fail("unexpected_" + type(e).__name__, "to_mol refuses a valid molecule", "a Mol",
                       "%s: %s" % (type(e).__name__, str(e)[:200]))
        # ---- the RDKit object itself
        if rm.GetNumAtoms() != n:
            raise Fail("count", "atoms in the RDKit molecule", n, rm.GetNumAtoms())
        sym = [a.GetSymbol().upper() for a in rm.GetAtoms()]
        if sym != m["elem"]:
            raise Fail("element", "symbols in the RDKit molecule, in order", m["elem"], sym)
        fc = [a.GetFormalCharge() for a in rm.GetAtoms()]
        if fc != list(m["charge"] or [0] * n):
            raise Fail("charge", "formal charges in the RDKit molecule", m["charge"], fc)
        confs = list(rm.GetConformers())
        if len(confs) != len(coords):
            raise Fail("conformer_count", "models -> conformers", len(coords), len(confs))
        for k, cf in enumerate(confs):
            if not np.array_equal(np.asarray(cf.GetPositions()), coords[k].astype(np.float64)):
                raise Fail("conformer_coord", "conformer positions", coords[k].tolist(), cf.GetPositions().tolist())
        rb = {(min(b.GetBeginAtomIdx(), b.GetEndAtomIdx()), max(b.GetBeginAtomIdx(), b.GetEndAtomIdx())):
              str(b.GetBondType()) for b in rm.GetBonds()}
        if set(rb) != set(m["bonds"]) or rm.GetNumBonds() != len(m["bonds"]):
            raise Fail("bonds", "bonded pairs in the RDKit molecule", sorted(m["bonds"]), sorted(rb))
        for e, t in m["bonds"].items():
            if t == "COORDINATION":
                ok = {"DATIVE"} if kw == "dative" else {"SINGLE"}
            elif kw == "kekulize" and t in AROMATIC_FAMILY:
                ok = {KEKULE[t]} if t in KEKULE else {"UNSPECIFIED", "AROMATIC"}
            else:
                ok = {RD_TYPE[t]}
            if rb[e] not in ok:
                raise Fail("bondtype_" + t, "RDKit bond type (documented mapping)", sorted(ok), rb[e])
        # ---- back
        site = "from_mol(to_mol)[%s]" % kw
        hkw = {} if has_h else {"add_hydrogen": False}
        try:
            back = from_mol(rm, **hkw)
        except Exception as e:  # noqa: BLE001
            raise Fail("unexpected_" + type(e).__name__, "from_mol fails on to_mol's result", "atoms",
                       "%s: %s" % (type(e).__name__, str(e)[:200]))
        if not isinstance(back, struc.AtomArrayStack) or back.stack_depth() != len(coords):
            raise Fail("models", "conformers -> models", len(coords), getattr(back, "stack_depth", lambda: None)())
        rd_check_atoms(m, back, np.asarray(coords, dtype=np.float32), "round trip")
        rd_check_bonds(m, back, kw, "round trip")
        extra = []
        ids = [cf.GetId() for cf in confs]
        ks = range(len(confs))
        if ids != list(range(len(confs))):
            extra.append(("to_mol[%s]" % kw, "conformer_ids_not_0_to_k",
                          "conformer IDs (documented: starting from 0; from_mol(conformer_id=k) addresses model k)",
                          list(range(len(confs))), ids))
            ks = range(1)
        site = "from_mol(conformer_id)[%s]" % kw
        for k in ks:
            one = from_mol(rm, conformer_id=k, **hkw)
            if not isinstance(one, struc.AtomArray):
                raise Fail("type", "from_mol(conformer_id=int) type", "AtomArray", type(one).__name__)
            rd_check_atoms(m, one, np.asarray(coords[k], dtype=np.float32), "model %d" % k)
            rd_check_bonds(m, one, kw, "model %d" % k)
        if extra:
            return "fail", extra
        return "accepted", []
    except Fail as f:
        return "fail", [(site, f.mode, f.what, f.expected, f.observed)]


def eval_rd_direct(case):
    """from_mol on a molecule built with RDKit's own API (independent of to_mol)."""
    import biotite.structure as struc
    from biotite.interface.rdkit import from_mol

    Chem = rdkit()
    m = rd_model(case)
    n, depth = m["n"], max(1, case["depth"])
    rw = Chem.RWMol()
    for i in range(n):
        a = Chem.Atom(m["elem"][i].capitalize())
        a.SetNoImplicit(True)
        a.SetFormalCharge(int((m["charge"] or [0] * n)[i]))
        rw.AddAtom(a)
    bt = Chem.BondType
    tmap = {"ANY": bt.UNSPECIFIED, "SINGLE": bt.SINGLE, "DOUBLE": bt.DOUBLE, "TRIPLE": bt.TRIPLE,
            "QUADRUPLE": bt.QUADRUPLE, "COORDINATION": bt.DATIVE}
    for (i, j), t in m["bonds"].items():
        rw.AddBond(i, j, tmap.get(t, bt.AROMATIC))
    mol = rw.GetMol()
    base = np.array(m["coord"], dtype=np.float32).reshape(n, 3)
    coords = np.stack([base + np.float32(0.5 * k) for k in range(depth)])
    for k in range(depth):
        cf = Chem.Conformer(n)
        cf.SetPositions(np.ascontiguousarray(coords[k], dtype=np.float64))
        cf.SetId(k)
        mol.AddConformer(cf, assignId=False)
    site = "from_mol[direct]"
    try:
        try:
            back = from_mol(mol, add_hydrogen=False)
        except Exception as e:  # noqa: BLE001
            raise Fail("unexpected_" + type(e).__name__, "from_mol fails on a plain RDKit molecule", "atoms",
                       "%s: %s" % (type(e).__name__, str(e)[:200]))
        if not isinstance(back, struc.AtomArrayStack) or back.stack_depth() != depth:
            raise Fail("models", "conformers -> models", depth, getattr(back, "stack_depth", lambda: None)())
        mm = dict(m, ann=[])
        rd_check_atoms(mm, back, coords, "direct")
        rd_check_bonds(m, back, "dative", "direct")
        for k in range(depth):
            one = from_mol(mol, conformer_id=k, add_hydrogen=False)
            rd_check_atoms(mm, one, coords[k], "direct model %d" % k)
        return "accepted", []
    except Fail as f:
        return "fail", [(site, f.mode, f.what, f.expected, f.observed)]


def rd_classes(case):
    if case.get("ring"):
        return "ring%d" % case["n"]
    return "+".join(sorted({rd_dev_class(d) for d in case["devs"]})) or "plain"


STACK_MODES = ("models", "conformer_count", "conformer_coord")


def rd_sig(site, mode, case):
    if mode == "conformer_ids_not_0_to_k":
        return "to_mol|%s|stack_ge2" % mode
    k = rd_classes(case)
    if mode in STACK_MODES and case["depth"] >= 2:
        k += "+stack_ge2"
    return "%s|%s|%s" % (site, mode, k)


def rd_fails(case):
    res, fails = eval_rd(case)
    n_ev = 1
    m = None
    if case["kw"] == "default" and not any(d[0] == "ann" for d in case.get("devs", [])):
        m = rd_model(case)
        bonded = {i for e in m["bonds"] for i in e}
        # an unbonded hydrogen without residue information is outside the round trip (to_mol always sets it)
        if not any(el == "H" and i not in bonded for i, el in enumerate(m["elem"])):
            r2, f2 = eval_rd_direct(case)
            n_ev += 1
            fails = fails + f2
    return res, fails, n_ev


def run_rd_case(ctx, case):
    res, fails, n_ev = rd_fails(case)
    ctx.ev(n_ev, n_ev if (case.get("ring") or case["devs"] or case["depth"] >= 2) else 0)
    if not fails:
        ctx.count("accepted", n_ev)
    ctx.outcome((res, json.dumps(case)))
    if fails and len(case.get("devs", [])) >= 2:
        subs = []
        for d in case["devs"]:
            sc = dict(case, devs=[d])
            fl = rd_fails(sc)[1]
            if fl:
                subs.append((sc, fl))
        if subs:
            for sc, fl in subs:
                for site, mode, what, exp, obs in fl:
                    ctx.violation(rd_sig(site, mode, sc), what, sc, exp, obs)
            return
    for site, mode, what, exp, obs in fails:
        ctx.violation(rd_sig(site, mode, case), what, case, exp, obs)


RING_TYPES = ["AROMATIC_SINGLE", "AROMATIC_DOUBLE", "AROMATIC"]


def rd_cases(tier, pal):
    for n in (1, 2, 3, 4):
        for g in range(1 << len(pairs_of(n))):
            singles = rd_devs_single(n, g, pal)
            devsets_ = [[]] + [[d] for d in singles]
            if n <= 2 or (tier != "quick" and n == 3):
                devsets_ += [[a, b] for a, b in itertools.combinations(singles, 2)
                             if not (a[0] != "ann" and b[0] != "ann" and conflict(a, b))
                             and not (a[0] == "ann" and b[0] == "ann" and a[1] == b[1]
                                      and RD_ANN[a[2]][0] == RD_ANN[b[2]][0])]
            for devs in devsets_:
                for kw in RD_KW:
                    for depth in RD_DEPTHS:
                        if depth in (1, 3) and not (len(devs) == 0 or (len(devs) == 1 and devs[0][0] == "bt")):
                            continue
                        yield {"kind": "rd", "n": n, "g": g, "devs": devs, "kw": kw, "depth": depth, "pal": pal}
    for n in (3, 4, 5, 6):
        for ring in itertools.product(RING_TYPES, repeat=n):
            for kw in ("default", "kekulize"):
                yield {"kind": "rd", "n": n, "g": 0, "ring": list(ring), "devs": [], "kw": kw, "depth": 2, "pal": pal}


def run_rd(shard, ctx):
    pal = ctx.seed % len(PALETTES)
    for i, case in enumerate(rd_cases(ctx.tier, pal)):
        if i % shard["of"] != shard["part"]:
            continue
        run_rd_case(ctx, case)
        if i % 4999 == 0:
            ctx.sample(case)
    if shard["part"] == 0:
        run_rd_hydrogen(ctx, pal)


def run_rd_hydrogen(ctx, pal):
    """documented refusal: explicit_hydrogen=False although hydrogen atoms are present"""
    from biotite.interface.rdkit import to_mol

    for n in (2, 3):
        for a in range(n):
            m = apply_devs(base_mol(n, (1 << len(pairs_of(n))) - 1, pal), n, 0, [["el", a, "H"]])
            m["ann"] = []
            ctx.ev(1, 1)
            try:
                to_mol(rd_atoms(m, 0), explicit_hydrogen=False)
            except Exception:  # noqa: BLE001
                ctx.count("refused")
            else:
                ctx.violation("to_mol[explicit_hydrogen=False]|not_refused|el_H", "hydrogen present but accepted",
                              {"kind": "rd_h", "n": n, "atom": a, "pal": pal}, "BadStructureError", None)


# ---------------------------------------------------------------------------
# kind "reuse": ONE file object written several times (differential oracle against a fresh object)
# ---------------------------------------------------------------------------
REUSE_HEADERS = {
    "empty": HEADER_BASE["empty"],
    "full": HEADER_BASE["full"],
    "h2": dict(HEADER_BASE["empty"], mol_name="second", comments="c 2", dimensions="3D"),
    "h3": dict(HEADER_BASE["empty"], mol_name="m3", initials="XY", time=[1999, 12, 31, 23, 59], registry_number="77"),
}
REUSE_CONTENTS = {
    # id: atoms, charges (None = no annotation), bond types, version argument, header, metadata items
    "c0": {"n": 1, "chg": None, "types": ["SINGLE"], "ver": None, "h": "empty", "meta": []},
    "c1": {"n": 3, "chg": {1: -15, 2: 4}, "types": ["SINGLE", "DOUBLE"], "ver": None, "h": "full",
           "meta": [[{"name": "a"}, "x"]]},
    "c2": {"n": 2, "chg": {0: 1}, "types": ["AROMATIC"], "ver": "V3000", "h": "h2",
           "meta": [[{"number": 1, "name": "b"}, "l1\nl2"], [{"name": "a"}, "y"]]},
    "c3": {"n": 4, "chg": {}, "types": ["TRIPLE"], "ver": "V2000", "h": "h3", "meta": [[{"name": "z9"}, "z"]]},
    "n999": {"n": 999, "chg": {998: -1}, "types": ["SINGLE"], "ver": None, "h": "h2", "meta": []},
    "n1000": {"n": 1000, "chg": {999: 2}, "types": ["SINGLE"], "ver": None, "h": "empty",
              "meta": [[{"name": "big"}, "1"]]},
}
REUSE_BAD = {
    "nan": {"n": 2, "nan": True, "ver": None},
    "v2000_1000": {"n": 1000, "ver": "V2000"},
}
REUSE_SMALL = ["c0", "c1", "c2", "c3"]
REUSE_BIG = ["n999", "n1000"]


def reuse_mol(cid, pal):
    if cid in REUSE_BAD:
        b = REUSE_BAD[cid]
        m = chain_mol(b["n"], pal)
        p = PALETTES[pal]
        m["coord"] = [[f32(float(p["base"][c]) + (i % 97) * float(p["step"][c])) for c in range(3)]
                      for i in range(b["n"])]
        if b.get("nan"):
            m["coord"][0][0] = f32("nan")
        return m, b["ver"]
    c = REUSE_CONTENTS[cid]
    m = chain_mol(c["n"], pal, dict((int(k), v) for k, v in (c["chg"] or {}).items()), c["types"])
    if c["chg"] is None:
        m["charge"] = None
    p = PALETTES[pal]
    m["coord"] = [[f32(float(p["base"][k]) + (i % 97) * float(p["step"][k])) for k in range(3)] for i in range(c["n"])]
    return m, c["ver"]


_REUSE_ATOMS = {}


def reuse_atoms(cid, pal):
    k = (cid, pal)
    if k not in _REUSE_ATOMS:
        m, ver = reuse_mol(cid, pal)
        _REUSE_ATOMS[k] = (m, ver, build_atoms(m))
    return _REUSE_ATOMS[k]


def reuse_metadata(items):
    from biotite.structure.io import mol as molio

    return molio.Metadata({molio.Metadata.Key(**k): v for k, v in items})


def header_tuple(h):
    return tuple((f, getattr(h, f)) for f in HEADER_FIELDS)


def meta_list(md):
    return [(tuple(sorted(key_tuple(k).items(), key=str)), v) for k, v in md.items()]


def reuse_write(obj, cont, cid, mode, pal):
    """write content cid onto obj (MOLFile or SDRecord); mode 'hs' = header(+metadata) first, 'sh' = structure first"""
    c = REUSE_CONTENTS[cid]
    m, ver, atoms = reuse_atoms(cid, pal)
    kw = {} if ver is None else {"version": ver}

    def head():
        obj.header = make_header(REUSE_HEADERS[c["h"]])
        if cont == "rec":
            obj.metadata = reuse_metadata(c["meta"])

    if mode == "hs":
        head()
        obj.set_structure(atoms, **kw)
    else:
        obj.set_structure(atoms, **kw)
        head()


def reuse_new(cont):
    from biotite.structure.io import mol as molio

    return molio.MOLFile() if cont == "mol" else molio.SDRecord()


def reuse_text(obj, cont):
    if cont == "mol":
        buf = io.StringIO()
        obj.write(buf)
        return buf.getvalue()
    return obj.serialize()


def reuse_observe(obj, cont, text_first):
    """every getter + the serialized text; the getters run before or after serialising"""
    def getters():
        o = {"structure": snapshot(obj.get_structure()), "header": header_tuple(obj.header)}
        if cont == "rec":
            o["metadata"] = meta_list(obj.metadata)
        return o

    if text_first:
        t = reuse_text(obj, cont)
        o = getters()
    else:
        o = getters()
        t = reuse_text(obj, cont)
    o["text"] = t
    return o


def reuse_parse(text, cont):
    from biotite.structure.io import mol as molio

    if cont == "mol":
        return molio.MOLFile.read(io.StringIO(text))
    return molio.SDRecord.deserialize(text)


def eval_reuse_obj(case):
    """MOLFile / SDRecord written len(seq) times.  -> fails"""
    cont, seq, pal = case["cont"], case["seq"], case["pal"]
    modes = case["modes"]
    site = "reuse[%s]" % cont
    try:
        obj = reuse_new(cont)
        reuse_write(obj, cont, seq[0], modes[0], pal)
        if case["origin"] == "parsed":
            obj = reuse_parse(reuse_text(obj, cont), cont)
        last = seq[0]
        last_mode = modes[0]
        for step, cid in enumerate(seq[1:], 1):
            if case["touch"]:
                reuse_observe(obj, cont, case["text_first"])
            if cid in REUSE_BAD:
                before = reuse_observe(obj, cont, True)
                m, ver, atoms = reuse_atoms(cid, pal)
                try:
                    obj.set_structure(atoms, **({} if ver is None else {"version": ver}))
                except Exception:  # noqa: BLE001
                    pass
                else:
                    raise Fail("not_refused", "write of %s on an object holding valid content did not raise" % cid,
                               "an exception", None)
                after = reuse_observe(obj, cont, True)
                for k in before:
                    if before[k] != after[k]:
                        raise Fail("refusal_changed_" + k, "a refused write changed the object", str(before[k])[:300],
                                   str(after[k])[:300])
                continue
            try:
                reuse_write(obj, cont, cid, modes[step], pal)
            except Exception as e:  # noqa: BLE001
                raise Fail("unexpected_" + type(e).__name__, "valid content refused on a used object", "written",
                           "%s: %s" % (type(e).__name__, str(e)[:200]))
            last, last_mode = cid, modes[step]
        got = reuse_observe(obj, cont, case["text_first"])
        fresh = reuse_new(cont)
        reuse_write(fresh, cont, last, last_mode, pal)
        want = reuse_observe(fresh, cont, case["text_first"])
        for k in ("text", "structure", "header", "metadata"):
            if k in want and got[k] != want[k]:
                raise Fail(k + "_differs_from_fresh", "object written %d times differs from a fresh object given "
                           "only the last content (%s)" % (len(seq), k), str(want[k])[:400], str(got[k])[:400])
        if cont == "rec" and not (obj == fresh):
            raise Fail("eq_differs_from_fresh", "SDRecord.__eq__ with the fresh object", True, False)
        # the fresh object itself is held against the model (both-wrong guard)
        c = REUSE_CONTENTS[last]
        m, ver, _ = reuse_atoms(last, pal)
        vw = ver or ("V2000" if m["n"] < 1000 else "V3000")
        lines = got["text"].split("\n")[:-1]
        ctab = lines[3:lines.index("M  END", 3) + 1]
        check_file_content(m, ctab, vw, [])
        check_readback(m, obj.get_structure(), vw, [])
        if header_tuple(obj.header) != header_tuple(make_header(REUSE_HEADERS[c["h"]])):
            raise Fail("header_differs_from_model", "header after the last write", REUSE_HEADERS[c["h"]],
                       str(obj.header))
        if cont == "rec" and got["metadata"] != meta_list(reuse_metadata(c["meta"])):
            raise Fail("metadata_differs_from_model", "metadata after the last write", c["meta"], got["metadata"])
        return []
    except Fail as f:
        return [(site, f.mode, f.what, f.expected, f.observed)]


def reuse_obj_cases(tier):
    q = tier == "quick"
    conts = ["mol", "rec"]
    for cont in conts:
        for origin in ("fresh", "parsed"):
            for touch in (False, True):
                for text_first in (True, False):
                    pool = REUSE_SMALL + list(REUSE_BAD)[:1]
                    for a in REUSE_SMALL:
                        for b in pool:
                            for modes in (["hs", "hs"], ["sh", "sh"]) if q else (["hs", "hs"], ["sh", "sh"],
                                                                                 ["hs", "sh"], ["sh", "hs"]):
                                yield {"kind": "reuse", "fam": "obj", "cont": cont, "origin": origin, "touch": touch,
                                       "text_first": text_first, "seq": [a, b], "modes": modes}
                    if q and touch:
                        # other size on the same code path and back (shorter / longer), every getter and the
                        # serialisation touched in between
                        for a in REUSE_SMALL:
                            for b in REUSE_SMALL:
                                if a != b:
                                    yield {"kind": "reuse", "fam": "obj", "cont": cont, "origin": origin,
                                           "touch": touch, "text_first": text_first, "seq": [a, b, a],
                                           "modes": ["hs", "hs", "hs"]}
                    if q and not touch and text_first:
                        # error path: valid, refused, valid - the next valid write behaves as on a fresh object
                        for a in REUSE_SMALL:
                            for c in REUSE_SMALL:
                                yield {"kind": "reuse", "fam": "obj", "cont": cont, "origin": origin, "touch": touch,
                                       "text_first": text_first, "seq": [a, "nan", c], "modes": ["hs", "sh", "hs"]}
                    if not q:
                        for a in REUSE_SMALL:
                            for b in pool:
                                for c in REUSE_SMALL:
                                    yield {"kind": "reuse", "fam": "obj", "cont": cont, "origin": origin,
                                           "touch": touch, "text_first": text_first, "seq": [a, b, c],
                                           "modes": ["hs", "sh", "hs"]}
        # the 999/1000 switch on a used object (both directions, small <-> big), refusals on big content
        for origin in ("fresh", "parsed"):
            for touch in ((True,) if q else (False, True)):
                for a, b in [("n999", "n1000"), ("n1000", "n999"), ("c1", "n1000"), ("n1000", "c1"), ("c2", "n999"),
                             ("n999", "c2"), ("n999", "v2000_1000"), ("n1000", "v2000_1000"), ("c1", "v2000_1000"),
                             ("n1000", "nan")]:
                    yield {"kind": "reuse", "fam": "obj", "cont": cont, "origin": origin, "touch": touch,
                           "text_first": True, "seq": [a, b], "modes": ["hs", "hs"]}
                    if not q and b in REUSE_CONTENTS:
                        yield {"kind": "reuse", "fam": "obj", "cont": cont, "origin": origin, "touch": touch,
                               "text_first": False, "seq": [a, b, a], "modes": ["hs", "sh", "hs"]}


def reuse_obj_class(case):
    last = [c for c in case["seq"] if c in REUSE_CONTENTS][-1]
    prev = case["seq"][0] if len(case["seq"]) == 2 else case["seq"][-2]
    feats = []
    if any(c in REUSE_BAD for c in case["seq"][1:]):
        feats.append("refused_" + "+".join(c for c in case["seq"][1:] if c in REUSE_BAD))
    if prev in REUSE_CONTENTS:
        a, b = REUSE_CONTENTS[prev], REUSE_CONTENTS[last]
        feats.append("atoms_" + ("more" if b["n"] > a["n"] else "fewer" if b["n"] < a["n"] else "same"))
    feats.append(case["origin"])
    return "+".join(feats)


# ---- SDFile: records put / replaced / deleted / re-inserted on ONE file object -------------------------
SDF_NAMES = ["A", "B"]
SDF_CIDS = ["c0", "c1", "c2"]
SDF_INIT = [["A", "c1"], ["B", "c2"]]


def sdf_ops():
    ops = [["put", nm, c] for nm in SDF_NAMES for c in SDF_CIDS]
    ops += [["del", nm] for nm in SDF_NAMES]
    ops += [["setstruct", nm, c] for nm in SDF_NAMES for c in ("c0", "c2")]
    ops += [["setstruct_bad", nm] for nm in SDF_NAMES + ["C"]]
    return ops


def sdf_model_apply(model, op):
    """model: list of [name, {'h':..., 'meta':..., 'mol': cid}] -> (new model, refused?)"""
    names = [r[0] for r in model]
    k, nm = op[0], op[1]
    new = [[r[0], dict(r[1])] for r in model]
    if k == "put":
        c = REUSE_CONTENTS[op[2]]
        val = {"h": dict(REUSE_HEADERS[c["h"]], mol_name=nm), "meta": c["meta"], "mol": op[2]}
        if nm in names:
            new[names.index(nm)][1] = val
        else:
            new.append([nm, val])
        return new, False
    if k == "del":
        if nm not in names:
            return new, True
        del new[names.index(nm)]
        return new, False
    if k == "setstruct":
        if nm in names:
            new[names.index(nm)][1]["mol"] = op[2]
        else:
            new.append([nm, {"h": dict(HEADER_BASE["empty"], mol_name=nm), "meta": [], "mol": op[2]}])
        return new, False
    if k == "setstruct_bad":
        return new, True
    raise ValueError(op)


def sdf_put_record(f, nm, val, pal):
    from biotite.structure.io import mol as molio

    m, ver, atoms = reuse_atoms(val["mol"], pal)
    r = molio.SDRecord(header=make_header(val["h"]), metadata=reuse_metadata(val["meta"]))
    r.set_structure(atoms, **({} if ver is None else {"version": ver}))
    f[nm] = r


def sdf_real_apply(f, op, pal):
    from biotite.structure.io import mol as molio

    k, nm = op[0], op[1]
    if k == "put":
        c = REUSE_CONTENTS[op[2]]
        sdf_put_record(f, nm, {"h": REUSE_HEADERS[c["h"]], "meta": c["meta"], "mol": op[2]}, pal)
    elif k == "del":
        del f[nm]
    elif k == "setstruct":
        m, ver, atoms = reuse_atoms(op[2], pal)
        molio.set_structure(f, atoms, record_name=nm, **({} if ver is None else {"version": ver}))
    elif k == "setstruct_bad":
        m, ver, atoms = reuse_atoms("nan", pal)
        molio.set_structure(f, atoms, record_name=nm)


def sdf_observe(f, text_first):
    def getters():
        o = {"names": list(f.keys()), "len": len(f)}
        for nm in list(f.keys()):
            try:
                rec = f[nm]
                o["rec:" + nm] = (header_tuple(rec.header), meta_list(rec.metadata), snapshot(rec.get_structure()))
            except Exception as e:  # noqa: BLE001
                o["rec:" + nm] = ("exception", type(e).__name__)
        o["contains"] = [nm in f for nm in SDF_NAMES + ["C"]]
        o["lines"] = list(f.lines)          # cached-property style access; must follow the records
        return o

    if text_first:
        t = f.serialize()
        o = getters()
    else:
        o = getters()
        t = f.serialize()
    o["text"] = t
    return o


def sdf_fresh(model, pal):
    from biotite.structure.io import mol as molio

    f = molio.SDFile()
    for nm, val in model:
        sdf_put_record(f, nm, val, pal)
    return f


def sdf_op_label(model, op):
    names = [r[0] for r in model]
    return "%s_%s" % (op[0], "present" if op[1] in names else "absent")


def eval_reuse_sdf(case):
    from biotite.structure.io import mol as molio

    pal = case["pal"]
    site = "reuse[sdf]"
    try:
        model = []
        f = molio.SDFile()
        if case["origin"] == "parsed":
            for nm, cid in SDF_INIT:
                model, _ = sdf_model_apply(model, ["put", nm, cid])
            f = molio.SDFile.read(io.StringIO(sdf_fresh(model, pal).serialize()))
        for op in case["ops"]:
            if case["touch"]:
                sdf_observe(f, case["text_first"])
            new_model, refused = sdf_model_apply(model, op)
            if refused:
                before = sdf_observe(f, True)
                try:
                    sdf_real_apply(f, op, pal)
                except Exception:  # noqa: BLE001
                    pass
                else:
                    raise Fail("not_refused", "%s did not raise" % sdf_op_label(model, op), "an exception", None)
                after = sdf_observe(f, True)
                for k in sorted(set(before) | set(after)):
                    if before.get(k) != after.get(k):
                        fl = Fail("refusal_changed_state", "a refused %s changed the file object (%s)"
                                  % (sdf_op_label(model, op), k), str(before.get(k))[:300], str(after.get(k))[:300])
                        fl.klass = sdf_op_label(model, op)
                        raise fl
            else:
                try:
                    sdf_real_apply(f, op, pal)
                except Exception as e:  # noqa: BLE001
                    raise Fail("unexpected_" + type(e).__name__, "%s refused" % sdf_op_label(model, op), "applied",
                               "%s: %s" % (type(e).__name__, str(e)[:200]))
            model = new_model
        got = sdf_observe(f, case["text_first"])
        fresh = sdf_fresh(model, pal)
        want = sdf_observe(fresh, case["text_first"])
        for k in sorted(set(got) | set(want)):
            if got.get(k) != want.get(k):
                raise Fail(k.split(":")[0] + "_differs_from_fresh", "file object after %d operations differs from a "
                           "fresh file built from the final records only (%s)" % (len(case["ops"]), k),
                           str(want.get(k))[:400], str(got.get(k))[:400])
        if not (f == fresh):
            raise Fail("eq_differs_from_fresh", "SDFile.__eq__ with the fresh file", True, False)
        # model guard + the text read again
        if got["names"] != [r[0] for r in model]:
            raise Fail("names_differ_from_model", "record names and order", [r[0] for r in model], got["names"])
        g = molio.SDFile.read(io.StringIO(got["text"])) if got["text"] else molio.SDFile()
        if list(g.keys()) != got["names"]:
            raise Fail("names_reread", "record names after reading the text again", got["names"], list(g.keys()))
        for nm, val in model:
            m, ver, _ = reuse_atoms(val["mol"], pal)
            check_readback(m, g[nm].get_structure(), None, [])
            check_readback(m, f[nm].get_structure(), None, [])
            if header_tuple(f[nm].header) != header_tuple(make_header(val["h"])):
                raise Fail("header_differs_from_model", "record header", val["h"], str(f[nm].header))
            if meta_list(f[nm].metadata) != meta_list(reuse_metadata(val["meta"])):
                raise Fail("metadata_differs_from_model", "record metadata", val["meta"], meta_list(f[nm].metadata))
        return []
    except Fail as fl:
        return [(site, fl.mode, fl.what, fl.expected, fl.observed, getattr(fl, "klass", None))]


def reuse_sdf_cases(tier):
    ops = sdf_ops()
    depth = 2 if tier == "quick" else 3
    for origin in ("empty", "parsed"):
        for touch in (False, True):
            for d in range(1, depth + 1):
                for seq in itertools.product(ops, repeat=d):
                    # text-first / getters-first alternate deterministically with the sequence (both on every pair)
                    for text_first in ((True, False) if d <= 2 else (True,)):
                        yield {"kind": "reuse", "fam": "sdf", "origin": origin, "touch": touch,
                               "text_first": text_first, "ops": [list(o) for o in seq]}


def reuse_sdf_class(case):
    model = []
    if case["origin"] == "parsed":
        for nm, cid in SDF_INIT:
            model, _ = sdf_model_apply(model, ["put", nm, cid])
    labs = []
    for op in case["ops"]:
        labs.append(sdf_op_label(model, op))
        model, _ = sdf_model_apply(model, op)
    return ">".join(labs) + "+" + case["origin"]


def reduce_sdf(case):
    """smallest failing order-preserving sub-sequence of operations"""
    ops = case["ops"]
    for d in range(1, len(ops)):
        for idx in itertools.combinations(range(len(ops)), d):
            sc = dict(case, ops=[ops[i] for i in idx])
            fl = eval_reuse_sdf(sc)
            if fl:
                return sc, fl
    return case, None


# ---- RDKit bridge called repeatedly on the same Mol / the same stack -------------------------------------
REUSE_RD = {
    "chain": {"n": 3, "bonds": {(0, 1): "SINGLE", (1, 2): "DOUBLE"}, "elem": None, "chg": {1: 1, 2: -1}},
    "ring6": {"n": 6, "bonds": {(0, 1): "AROMATIC_SINGLE", (1, 2): "AROMATIC_DOUBLE", (2, 3): "AROMATIC_SINGLE",
                                (3, 4): "AROMATIC_DOUBLE", (4, 5): "AROMATIC_SINGLE", (0, 5): "AROMATIC_DOUBLE"},
              "elem": None, "chg": {}},
    "with_h": {"n": 3, "bonds": {(0, 1): "SINGLE", (1, 2): "SINGLE"}, "elem": {0: "H", 2: "H"}, "chg": {}},
    "dative": {"n": 2, "bonds": {(0, 1): "COORDINATION"}, "elem": {1: "FE"}, "chg": {1: 2}},
}


def rd_extract(mol):
    return {"sym": [a.GetSymbol() for a in mol.GetAtoms()], "chg": [a.GetFormalCharge() for a in mol.GetAtoms()],
            "bonds": sorted((b.GetBeginAtomIdx(), b.GetEndAtomIdx(), str(b.GetBondType())) for b in mol.GetBonds()),
            "ids": [c.GetId() for c in mol.GetConformers()],
            "pos": [np.asarray(c.GetPositions()).tobytes() for c in mol.GetConformers()]}


def stack_snapshot(s):
    return (s.coord.tobytes(), s.element.tolist(), s.bonds.as_array().tobytes(),
            s.charge.tolist() if "charge" in s.get_annotation_categories() else None, s.coord.shape)


def eval_reuse_rd(case):
    import biotite.structure as struc
    from biotite.interface.rdkit import from_mol, to_mol

    rdkit()
    spec, depth, pal, kw = REUSE_RD[case["mol"]], case["depth"], case["pal"], case["kw"]
    m = base_mol(spec["n"], 0, pal)
    m["bonds"] = dict(spec["bonds"])
    for a, e in (spec["elem"] or {}).items():
        m["elem"][a] = e
    for a, c in spec["chg"].items():
        m["charge"][a] = c
    m["ann"] = []
    S = rd_atoms(m, depth)
    k = max(1, depth)
    coords = S.coord if depth else S.coord[None]
    hkw = {} if "H" in m["elem"] else {"add_hydrogen": False}
    site = "reuse[rdkit]"

    def same(a, b, what):
        if stack_snapshot(a) != stack_snapshot(b):
            raise Fail(what, "repeated conversion gives a different result (%s)" % what, None, None)

    try:
        s0 = stack_snapshot(S)
        m1 = to_mol(S, **RD_KW[kw])
        if stack_snapshot(S) != s0:
            raise Fail("input_mutated", "to_mol changed its input", None, None)
        e1 = rd_extract(m1)
        if e1["ids"] != list(range(k)):
            raise Fail("conformer_ids", "conformer IDs of the first to_mol", list(range(k)), e1["ids"])
        b1 = from_mol(m1, **hkw)
        if rd_extract(m1) != e1:
            raise Fail("mol_mutated_by_from_mol", "from_mol changed the RDKit molecule", None, None)
        ones = [from_mol(m1, conformer_id=i, **hkw) for i in range(k)]
        b2 = from_mol(m1, **hkw)
        same(b1, b2, "second_from_mol_differs")
        if "H" not in m["elem"]:
            from_mol(m1, add_hydrogen=True)
            if rd_extract(m1) != e1:
                raise Fail("mol_mutated_by_add_hydrogen", "from_mol(add_hydrogen=True) changed the input molecule",
                           None, None)
            same(b1, from_mol(m1, **hkw), "from_mol_after_add_hydrogen_differs")
        if b1.stack_depth() != k or b1.coord.tobytes() != np.asarray(coords, dtype=np.float32).tobytes():
            raise Fail("model_order", "models after from_mol", "same order and coordinates", None)
        for i in range(k):
            if ones[i].coord.tobytes() != np.asarray(coords[i], dtype=np.float32).tobytes():
                raise Fail("conformer_id_model", "from_mol(conformer_id=%d)" % i, "model %d" % i, None)
        m2 = to_mol(S, **RD_KW[kw])
        if rd_extract(m2) != e1:
            raise Fail("second_to_mol_differs", "to_mol called twice on the same stack", e1["ids"], rd_extract(m2)["ids"])
        m3 = to_mol(b1, **RD_KW[kw])
        e3 = rd_extract(m3)
        if e3["ids"] != e1["ids"] or e3["pos"] != e1["pos"] or e3["sym"] != e1["sym"] or e3["chg"] != e1["chg"]:
            raise Fail("to_mol_of_round_trip_differs", "to_mol(from_mol(to_mol(x))): conformer ids / model order / atoms",
                       (e1["ids"], e1["sym"], e1["chg"]), (e3["ids"], e3["sym"], e3["chg"]))
        b4 = from_mol(m3, **hkw)
        if b4.coord.tobytes() != b1.coord.tobytes() or b4.element.tolist() != b1.element.tolist() \
                or b4.charge.tolist() != b1.charge.tolist() \
                or {(int(i), int(j)) for i, j, _ in b4.bonds.as_array()} != {(int(i), int(j)) for i, j, _ in b1.bonds.as_array()}:
            raise Fail("second_round_trip_differs", "from_mol(to_mol(from_mol(to_mol(x))))", None, None)
        mm = dict(m)
        rd_check_atoms(mm, b1, np.asarray(coords, dtype=np.float32), "first round trip")
        rd_check_bonds(m, b1, kw, "first round trip")
        rd_check_bonds(m, b4, kw, "second round trip")
        return []
    except Fail as f:
        return [(site, f.mode, f.what, f.expected, f.observed)]


def reuse_rd_cases(tier):
    for mol in REUSE_RD:
        for depth in (0, 1, 2, 3):
            for kw in RD_KW:
                yield {"kind": "reuse", "fam": "rd", "mol": mol, "depth": depth, "kw": kw}


# ---- driver ----------------------------------------------------------------------------------------------
def reuse_cases(tier):
    yield from reuse_obj_cases(tier)
    yield from reuse_sdf_cases(tier)
    yield from reuse_rd_cases(tier)


def run_reuse_case(ctx, case):
    fam = case["fam"]
    if fam == "obj":
        fails = eval_reuse_obj(case)
        klass = reuse_obj_class(case)
    elif fam == "sdf":
        fails = eval_reuse_sdf(case)
        if fails and len(case["ops"]) > 1:
            sc, fl = reduce_sdf(case)
            if fl:
                case, fails = sc, fl
        klass = reuse_sdf_class(case)
    else:
        fails = eval_reuse_rd(case)
        klass = "%s+%s" % (case["mol"], "stack_ge2" if case["depth"] >= 2 else "single_model")
    ctx.ev(1, 1)
    if not fails:
        ctx.count("accepted")
    ctx.outcome(json.dumps(case))
    for fl in fails:
        site, mode, what, exp, obs = fl[:5]
        k = fl[5] if len(fl) > 5 and fl[5] else klass
        ctx.violation("%s|%s|%s" % (site, mode, k), what, case, exp, obs)


def run_reuse(shard, ctx):
    pal = ctx.seed % len(PALETTES)
    for i, case in enumerate(reuse_cases(ctx.tier)):
        if i % shard["of"] != shard["part"]:
            continue
        case["pal"] = pal
        if not ctx.journal(json.dumps(case)):
            continue
        run_reuse_case(ctx, case)
        if i % 397 == 0:
            ctx.sample(case)


# ---------------------------------------------------------------------------
# kind "audit": dimension audit families  (alias, flavour, shape, lazy)
# ---------------------------------------------------------------------------
def obj_getters(obj, cont):
    o = {"structure": snapshot(obj.get_structure()), "header": header_tuple(obj.header)}
    if cont == "rec":
        o["metadata"] = meta_list(obj.metadata)
    return o


def consistent(obj, cont):
    """what the getters report == what a reader of the written text obtains (None if consistent)"""
    a = obj_getters(obj, cont)
    b = obj_getters(reuse_parse(reuse_text(obj, cont), cont), cont)
    for k in a:
        if a[k] != b[k]:
            return k, a[k], b[k]
    return None


def mutate_atoms(a):
    """change every mutable part of an AtomArray in place"""
    a.coord += np.float32(1.5)
    a.element[:] = "O"
    if "charge" in a.get_annotation_categories():
        a.charge[:] = 7
    if a.array_length() >= 2:
        a.bonds.add_bond(0, a.array_length() - 1, 3)
        a.bonds.remove_bond(0, 1)


ALIAS_SCENARIOS = ["args_after_write", "structure_from_getter", "header_arg", "header_from_getter", "metadata_dict_arg",
                   "metadata_obj_arg", "metadata_from_getter", "ctab_lines_arg", "record_in_file", "rd_atoms_arg",
                   "rd_result", "rd_mol_arg"]


def alias_cases(tier):
    for sc in ALIAS_SCENARIOS:
        for cid in ("c1", "c2", "c3"):
            if sc.startswith("rd_"):
                for depth in (0, 2):
                    yield {"kind": "audit", "fam": "alias", "sc": sc, "cid": cid, "depth": depth}
            elif sc in ("ctab_lines_arg",):
                yield {"kind": "audit", "fam": "alias", "sc": sc, "cid": cid}
            elif sc in ("metadata_dict_arg", "metadata_obj_arg", "metadata_from_getter", "record_in_file"):
                yield {"kind": "audit", "fam": "alias", "sc": sc, "cid": cid, "cont": "rec"}
            elif sc == "header_from_getter":
                for cont in ("mol", "rec"):
                    for parsed in (False, True):
                        yield {"kind": "audit", "fam": "alias", "sc": sc, "cid": cid, "cont": cont, "parsed": parsed}
            else:
                for cont in ("mol", "rec"):
                    yield {"kind": "audit", "fam": "alias", "sc": sc, "cid": cid, "cont": cont}


def eval_alias(case):
    import biotite.structure as struc
    from biotite.structure.io import mol as molio

    sc, cid, pal = case["sc"], case["cid"], case["pal"]
    cont = case.get("cont")
    c = REUSE_CONTENTS[cid]
    m, ver, atoms0 = reuse_atoms(cid, pal)
    atoms = atoms0.copy()
    kw = {} if ver is None else {"version": ver}
    site = "alias[%s]" % sc
    klass = cont or "rdkit" if sc.startswith("rd_") else (cont or "ctab")

    def must_be_independent(before, after, what):
        for k in before:
            if before[k] != after[k]:
                raise Fail("shares_state_" + k, what, str(before[k])[:300], str(after[k])[:300])

    def must_be_consistent(obj, what):
        r = consistent(obj, cont)
        if r:
            raise Fail("getter_vs_text_" + r[0], what + ": the getters report something else than a reader of the "
                       "written text obtains", str(r[2])[:300], str(r[1])[:300])

    try:
        if sc == "args_after_write":
            obj = reuse_new(cont)
            obj.header = make_header(REUSE_HEADERS[c["h"]])
            obj.set_structure(atoms, **kw)
            if snapshot(atoms) != snapshot(atoms0):
                raise Fail("input_mutated", "set_structure changed its argument", None, None)
            before = reuse_observe(obj, cont, True)
            mutate_atoms(atoms)
            must_be_independent(before, reuse_observe(obj, cont, True),
                                "mutating the AtomArray after set_structure changed the file object")
        elif sc == "structure_from_getter":
            obj = reuse_new(cont)
            reuse_write(obj, cont, cid, "hs", pal)
            before = reuse_observe(obj, cont, True)
            s1 = obj.get_structure()
            mutate_atoms(s1)
            must_be_independent(before, reuse_observe(obj, cont, True),
                                "mutating the AtomArray returned by get_structure changed the file object")
        elif sc == "header_arg":
            obj = reuse_new(cont)
            h = make_header(REUSE_HEADERS[c["h"]])
            if cont == "mol":
                obj.header = h
                obj.set_structure(atoms, **kw)
            else:
                obj = molio.SDRecord(header=h)
                obj.set_structure(atoms, **kw)
            h.comments = "changed afterwards"
            h.initials = "ZZ"
            # sharing the Header object is existing behaviour (unspecified); getters and text have to agree
            must_be_consistent(obj, "header object mutated after it was assigned")
        elif sc == "header_from_getter":
            obj = reuse_new(cont)
            reuse_write(obj, cont, cid, "hs", pal)
            if case.get("parsed"):
                obj = reuse_parse(reuse_text(obj, cont), cont)
            h = obj.header
            h.comments = "edited in place"
            h.program = "EDIT"
            must_be_consistent(obj, "header returned by the getter edited in place")
        elif sc == "metadata_dict_arg":
            d = {molio.Metadata.Key(**k): v for k, v in c["meta"]}
            obj = molio.SDRecord(metadata=d)
            obj.set_structure(atoms, **kw)
            before = reuse_observe(obj, cont, True)
            d[molio.Metadata.Key(name="later")] = "added afterwards"
            for k in list(d)[:1]:
                d[k] = "overwritten"
            must_be_independent(before, reuse_observe(obj, cont, True),
                                "mutating the dict passed as metadata changed the record")
            md = molio.Metadata(d)
            before = meta_list(md)
            d[molio.Metadata.Key(name="later2")] = "x"
            if meta_list(md) != before:
                raise Fail("shares_state_metadata", "mutating the dict passed to Metadata() changed the Metadata",
                           before, meta_list(md))
        elif sc == "metadata_obj_arg":
            md = reuse_metadata(c["meta"])
            obj = molio.SDRecord(metadata=md)
            obj.set_structure(atoms, **kw)
            md["later"] = "added afterwards"
            must_be_consistent(obj, "Metadata object mutated after it was assigned")
        elif sc == "metadata_from_getter":
            obj = molio.SDRecord()
            reuse_write(obj, "rec", cid, "hs", pal)
            obj = reuse_parse(reuse_text(obj, "rec"), "rec")
            obj.metadata["edited"] = "in place"
            must_be_consistent(obj, "metadata returned by the getter edited in place")
            if ("edited" in obj.metadata) != ("> <edited>" in obj.serialize()):
                raise Fail("getter_vs_text_metadata", "edit through the metadata getter", None, None)
        elif sc == "ctab_lines_arg":
            from biotite.structure.io.mol.ctab import read_structure_from_ctab, write_structure_to_ctab

            lines = write_structure_to_ctab(atoms, **kw)
            keep = list(lines)
            a1 = read_structure_from_ctab(lines)
            if lines != keep:
                raise Fail("input_mutated", "read_structure_from_ctab changed the list of lines", None, None)
            s1 = snapshot(a1)
            lines[1] = "garbage"
            mutate_atoms(atoms)
            if snapshot(a1) != s1 or write_structure_to_ctab(atoms0, **kw) != keep:
                raise Fail("shares_state_structure", "result of read_structure_from_ctab shares state with its input",
                           None, None)
        elif sc == "record_in_file":
            f = molio.SDFile()
            r = molio.SDRecord(header=make_header(REUSE_HEADERS[c["h"]]), metadata=reuse_metadata(c["meta"]))
            r.set_structure(atoms, **kw)
            f["A"] = r
            m2, ver2, atoms2 = reuse_atoms("c0", pal)
            r.set_structure(atoms2)          # the record object is shared with the file (existing, unspecified)
            r.metadata["later"] = "x"
            g = molio.SDFile.read(io.StringIO(f.serialize()))
            a = (snapshot(f["A"].get_structure()), meta_list(f["A"].metadata), header_tuple(f["A"].header))
            b = (snapshot(g["A"].get_structure()), meta_list(g["A"].metadata), header_tuple(g["A"].header))
            if a != b:
                raise Fail("getter_vs_text_record", "record mutated after it was put into the file: getters and text "
                           "disagree", str(b)[:300], str(a)[:300])
        else:
            from biotite.interface.rdkit import from_mol, to_mol

            Chem = rdkit()
            depth = case["depth"]
            mm = dict(m, ann=[])
            S = rd_atoms(mm, depth)
            hkw = {"add_hydrogen": False}
            if sc == "rd_atoms_arg":
                s0 = stack_snapshot(S)
                mol = to_mol(S)
                if stack_snapshot(S) != s0:
                    raise Fail("input_mutated", "to_mol changed its argument", None, None)
                e = rd_extract(mol)
                S.coord += np.float32(2.0)
                S.element[:] = "N"
                S.charge[:] = 3
                S.bonds.add_bond(0, S.array_length() - 1, 2)
                if rd_extract(mol) != e:
                    raise Fail("shares_state_mol", "mutating the atoms after to_mol changed the Mol", None, None)
            elif sc == "rd_result":
                mol = to_mol(S)
                e = rd_extract(mol)
                b = from_mol(mol, **hkw)
                s1 = stack_snapshot(b)
                b.coord += np.float32(2.0)
                b.element[:] = "N"
                b.charge[:] = 3
                if rd_extract(mol) != e:
                    raise Fail("shares_state_mol", "mutating the result of from_mol changed the Mol", None, None)
                if stack_snapshot(from_mol(mol, **hkw)) != s1:
                    raise Fail("shares_state_result", "a second from_mol sees the mutation of the first result", None, None)
            else:
                mol = to_mol(S)
                b = from_mol(mol, **hkw)
                one = from_mol(mol, conformer_id=0, **hkw)
                s1, s2 = stack_snapshot(b), stack_snapshot(one)
                for cf in mol.GetConformers():
                    cf.SetAtomPosition(0, (9.0, 9.0, 9.0))
                mol.GetAtomWithIdx(0).SetFormalCharge(5)
                if stack_snapshot(b) != s1 or stack_snapshot(one) != s2:
                    raise Fail("shares_state_result", "mutating the Mol changed atoms returned by from_mol earlier",
                               None, None)
        return []
    except Fail as f:
        return [(site, f.mode, f.what, f.expected, f.observed, cont or ("rdkit" if sc.startswith("rd_") else "ctab"))]


# ---- flavours: the same molecule handed over in other array flavours gives the same file / Mol ----------
COORD_FLAVOURS = ["float64", "readonly", "fortran", "strided", "stack_model"]
CHARGE_FLAVOURS = ["int8", "int16", "int32", "int64", "uint8", "float64", "bool", "python_list"]
ELEMENT_FLAVOURS = ["U3", "U10", "object", "capitalized", "lower"]
OTHER_FLAVOURS = ["dbt_int", "stack_refused", "key_numpy_int", "key_str_numbers", "time_date"]


def flavour_cases(tier):
    for fl in COORD_FLAVOURS:
        for target in ("ctab_V2000", "ctab_V3000", "mol", "rdkit"):
            yield {"kind": "audit", "fam": "flavour", "what": "coord", "fl": fl, "target": target}
    for fl in CHARGE_FLAVOURS:
        for target in ("ctab_V2000", "ctab_V3000", "rdkit"):
            yield {"kind": "audit", "fam": "flavour", "what": "charge", "fl": fl, "target": target}
    for fl in ELEMENT_FLAVOURS:
        for target in ("ctab_V2000", "ctab_V3000", "rdkit"):
            yield {"kind": "audit", "fam": "flavour", "what": "element", "fl": fl, "target": target}
    for fl in OTHER_FLAVOURS:
        yield {"kind": "audit", "fam": "flavour", "what": "other", "fl": fl, "target": "sdf"}


def flavour_base(pal):
    m = chain_mol(4, pal, {0: 1, 2: 0, 3: 2}, ["SINGLE", "DOUBLE", "AROMATIC"])
    m["elem"] = ["C", "CL", "N", "FE"]
    p = PALETTES[pal]
    m["coord"] = [[f32(float(p["base"][c]) + (3 * i + c) * float(p["step"][c])) for c in range(3)] for i in range(4)]
    return m


def flavour_output(atoms, target):
    """canonical observable of a write"""
    if target.startswith("ctab"):
        from biotite.structure.io.mol.ctab import write_structure_to_ctab

        return write_structure_to_ctab(atoms, version=target[5:])
    if target == "mol":
        from biotite.structure.io import mol as molio

        f = molio.MOLFile()
        f.set_structure(atoms)
        return list(f.lines)
    from biotite.interface.rdkit import to_mol

    rdkit()
    return rd_extract(to_mol(atoms))


def eval_flavour(case):
    import biotite.structure as struc
    from biotite.structure.io import mol as molio

    pal, fl, what, target = case["pal"], case["fl"], case["what"], case["target"]
    m = flavour_base(pal)
    site = "flavour[%s]" % what
    either = False
    try:
        canon = build_atoms(m)
        want = flavour_output(canon, target) if what != "other" else None
        a = build_atoms(m)
        c32 = np.array(m["coord"], dtype=np.float32).reshape(4, 3)
        if what == "coord":
            if fl == "float64":
                a.coord = c32.astype(np.float64)
            elif fl == "readonly":
                r = c32.copy()
                r.setflags(write=False)
                a.coord = r
            elif fl == "fortran":
                a.coord = np.asfortranarray(c32)
            elif fl == "strided":
                big = np.zeros((8, 6), dtype=np.float32)
                big[::2, ::2] = c32
                a.coord = big[::2, ::2]
            elif fl == "stack_model":
                st = struc.stack([canon, canon])
                st.coord[0] += 5
                a = st[1]
            if a.coord.dtype != np.float32 and target != "rdkit":
                pass
        elif what == "charge":
            ch = [int(x) for x in m["charge"]]
            if fl == "python_list":
                a.set_annotation("charge", ch)
            elif fl == "bool":
                ch = [1, 0, 0, 1]
                m["charge"] = ch
                want = flavour_output(build_atoms(m), target)
                a.set_annotation("charge", np.array(ch, dtype=bool))
                either = True
            elif fl == "float64":
                a.set_annotation("charge", np.array(ch, dtype=np.float64))
                either = True
            else:
                a.set_annotation("charge", np.array(ch, dtype=fl))
        elif what == "element":
            el = m["elem"]
            if fl in ("U3", "U10"):
                a.element = np.array(el, dtype=fl)
            elif fl == "object":
                a.element = np.array(el, dtype=object)
            elif fl == "capitalized":
                a.element = np.array([e.capitalize() for e in el], dtype="U2")
            elif fl == "lower":
                a.element = np.array([e.lower() for e in el], dtype="U2")
        else:
            return eval_flavour_other(case, m)
        try:
            got = flavour_output(a, target)
        except Exception as e:  # noqa: BLE001
            if either:
                return "unspecified_refused", []
            raise Fail("unexpected_" + type(e).__name__, "the %s flavour '%s' is refused" % (what, fl), "same output",
                       "%s: %s" % (type(e).__name__, str(e)[:200]))
        if got != want and either and target.startswith("ctab"):
            # unspecified flavour (non-integer charge dtype): a file biotite refuses to read back counts as refusal
            from biotite.structure.io.mol.ctab import read_structure_from_ctab

            try:
                read_structure_from_ctab(got)
            except Exception:  # noqa: BLE001
                return "unspecified_refused", []
        if got != want:
            raise Fail("differs_from_canonical", "the %s flavour '%s' changes what is written" % (what, fl),
                       str(want)[:400], str(got)[:400])
        if target.startswith("ctab"):
            from biotite.structure.io.mol.ctab import read_structure_from_ctab

            check_file_content(m, got, target[5:], [])
            check_readback(m, read_structure_from_ctab(got), target[5:], [])
        return ("unspecified_exact" if either else "accepted"), []
    except Fail as f:
        return "fail", [(site, f.mode, f.what, f.expected, f.observed, "%s+%s" % (fl, target))]


def eval_flavour_other(case, m):
    import datetime

    import biotite.structure as struc
    from biotite.structure.io import mol as molio

    fl = case["fl"]
    site = "flavour[other]"
    atoms = build_atoms(m)
    try:
        if fl == "dbt_int":
            m2 = dict(m, bonds=dict(m["bonds"]))
            m2["bonds"][(0, 1)] = "QUADRUPLE"
            a2 = build_atoms(m2)
            from biotite.structure.io.mol.ctab import write_structure_to_ctab

            want = write_structure_to_ctab(a2, default_bond_type=struc.BondType.SINGLE)
            try:
                got = write_structure_to_ctab(a2, default_bond_type=1)
            except Exception:  # noqa: BLE001
                return "unspecified_refused", []
            if got != want:
                raise Fail("differs_from_canonical", "default_bond_type given as int", want[:8], got[:8])
            return "unspecified_exact", []
        if fl == "stack_refused":
            st = struc.stack([atoms, atoms])
            for obj in (molio.MOLFile(), molio.SDRecord()):
                obj.set_structure(atoms)
                before = reuse_text(obj, "mol" if isinstance(obj, molio.MOLFile) else "rec")
                try:
                    obj.set_structure(st)
                except Exception:  # noqa: BLE001
                    pass
                else:
                    raise Fail("not_refused", "an AtomArrayStack is written although only one model can be", "TypeError", None)
                if reuse_text(obj, "mol" if isinstance(obj, molio.MOLFile) else "rec") != before:
                    raise Fail("refusal_changed_text", "refused stack changed the object", None, None)
            return "refused", []
        if fl in ("key_numpy_int", "key_str_numbers"):
            conv = (lambda x: np.int64(x)) if fl == "key_numpy_int" else str
            k1 = molio.Metadata.Key(number=conv(12), name="a", registry_internal=conv(7))
            k0 = molio.Metadata.Key(number=12, name="a", registry_internal=7)
            if k1 != k0 or hash(k1) != hash(k0) or k1.serialize() != k0.serialize():
                raise Fail("differs_from_canonical", "key built from %s differs from the key built from int" % fl,
                           str(k0), str(k1))
            r = molio.SDRecord(metadata={k1: "v"})
            r.set_structure(atoms)
            back = molio.SDRecord.deserialize(r.serialize())
            if [key_tuple(k) for k in back.metadata] != [key_tuple(k0)] or back.metadata[k0] != "v":
                raise Fail("readback_changed", "metadata key flavour", key_tuple(k0), [key_tuple(k) for k in back.metadata])
            return "accepted", []
        if fl == "time_date":
            h = molio.Header(mol_name="d", time=datetime.date(2020, 2, 29))
            r = molio.SDRecord(header=h)
            r.set_structure(atoms)
            try:
                back = molio.SDRecord.deserialize(r.serialize()).header
            except Exception:  # noqa: BLE001
                return "unspecified_refused", []
            if back.time != datetime.datetime(2020, 2, 29, 0, 0) or back.mol_name != "d":
                raise Fail("readback_time", "header time given as date (documented) comes back as another day",
                           "2020-02-29 00:00", str(back.time))
            return "unspecified_exact", []
        raise ValueError(fl)
    except Fail as f:
        return "fail", [(site, f.mode, f.what, f.expected, f.observed, fl)]


# ---- shape: empty / singleton pieces, many items, order independence ----------------------------------
def shape_cases(tier):
    for ver in VERSIONS:
        for cont in CONTAINERS:
            yield {"kind": "audit", "fam": "shape", "sub": "zero_atoms", "ver": ver, "cont": cont}
    yield {"kind": "audit", "fam": "shape", "sub": "record_without_structure"}
    yield {"kind": "audit", "fam": "shape", "sub": "empty_sdfile"}
    for k in (1, 2, 3):
        for mask in range(1 << k):
            yield {"kind": "audit", "fam": "shape", "sub": "bare_records", "k": k, "mask": mask}
    for order in itertools.permutations([10, 9, 2]):
        yield {"kind": "audit", "fam": "shape", "sub": "numbered_keys", "numbers": list(order)}
    yield {"kind": "audit", "fam": "shape", "sub": "numbered_keys", "numbers": list(range(12, 0, -1))}
    for order in itertools.permutations(["10", "9", "2"]):
        yield {"kind": "audit", "fam": "shape", "sub": "numbered_names", "names": list(order)}
    for depth in (9, 10, 11, 12):
        yield {"kind": "audit", "fam": "shape", "sub": "many_models", "depth": depth}
    for perm in itertools.permutations(range(4)):
        for ver in ("V2000", "V3000"):
            yield {"kind": "audit", "fam": "shape", "sub": "atom_order", "perm": list(perm), "ver": ver}
        yield {"kind": "audit", "fam": "shape", "sub": "atom_order", "perm": list(perm), "ver": "rdkit"}
    for rows in itertools.permutations(range(3)):
        for flip in range(8):
            yield {"kind": "audit", "fam": "shape", "sub": "bond_rows", "rows": list(rows), "flip": flip}


def order_base(pal):
    m = flavour_base(pal)
    m["elem"] = ["C", "N", "O", "S"]
    m["charge"] = [1, 0, -2, 3]
    m["bonds"] = {(0, 1): "SINGLE", (1, 2): "DOUBLE", (0, 3): "AROMATIC"}
    return m


def permute_mol(m, perm):
    """atom i of the result is atom perm[i] of m"""
    inv = {old: new for new, old in enumerate(perm)}
    out = dict(m)
    out["elem"] = [m["elem"][p] for p in perm]
    out["charge"] = [m["charge"][p] for p in perm]
    out["coord"] = [list(m["coord"][p]) for p in perm]
    out["bonds"] = {(min(inv[i], inv[j]), max(inv[i], inv[j])): t for (i, j), t in m["bonds"].items()}
    return out


def eval_shape(case):
    import biotite.structure as struc
    from biotite.structure.io import mol as molio

    sub, pal = case["sub"], case["pal"]
    site = "shape[%s]" % sub
    klass = sub
    try:
        if sub == "zero_atoms":
            m = {"n": 0, "elem": [], "coord": [], "charge": [], "bonds": {}, "dbt": None}
            fails = eval_mol_either(m, case["ver"], case["cont"], pal)
            return fails[0], fails[1]
        if sub == "record_without_structure":
            r = molio.SDRecord(metadata={"k": "v"})
            f = molio.SDFile()
            f["n"] = r
            try:
                g = molio.SDFile.read(io.StringIO(f.serialize()))
                if list(g.keys()) != ["n"] or meta_list(g["n"].metadata) != meta_list(reuse_metadata([[{"name": "k"}, "v"]])):
                    raise Fail("readback_changed", "record without structure", None, list(g.keys()))
                s = g["n"].get_structure()
                if s.array_length() != 0:
                    raise Fail("readback_count", "record without structure read back with atoms", 0, s.array_length())
            except Fail:
                raise
            except Exception:  # noqa: BLE001
                return "unspecified_refused", []
            return "unspecified_exact", []
        if sub == "empty_sdfile":
            f = molio.SDFile()
            text = f.serialize()
            try:
                g = molio.SDFile.read(io.StringIO(text))
            except Exception:  # noqa: BLE001
                return "unspecified_refused", []
            if len(g) != 0 or list(g.keys()) != []:
                raise Fail("readback_names", "empty SD file read back with records", [], list(g.keys()))
            return "unspecified_exact", []
        if sub == "bare_records":
            k, mask = case["k"], case["mask"]
            f = molio.SDFile()
            exp = []
            for i in range(k):
                bare = bool(mask >> i & 1)
                cid = "c0" if bare else ("c1", "c2", "c3")[i]
                c = REUSE_CONTENTS[cid]
                mm, ver, atoms = reuse_atoms(cid, pal)
                r = molio.SDRecord() if bare else molio.SDRecord(header=make_header(REUSE_HEADERS[c["h"]]),
                                                                  metadata=reuse_metadata(c["meta"]))
                r.set_structure(atoms, **({} if ver is None else {"version": ver}))
                f["r%d" % i] = r
                exp.append(("r%d" % i, mm, [] if bare else c["meta"]))
            text = f.serialize()
            recs = ctfile.parse_sdf(text)
            if [r["header"][0] for r in recs] != [e[0] for e in exp]:
                raise Fail("file_content_names", "record names in text", [e[0] for e in exp], [r["header"][0] for r in recs])
            g = molio.SDFile.read(io.StringIO(text))
            if list(g.keys()) != [e[0] for e in exp]:
                raise Fail("readback_names", "record names read back", [e[0] for e in exp], list(g.keys()))
            for (nm, mm, meta), rec in zip(exp, recs):
                if len(rec["data"]) != len(meta):
                    raise Fail("file_content_data", "data items of record %s in text" % nm, len(meta), len(rec["data"]))
                check_readback(mm, g[nm].get_structure(), None, [])
                if meta_list(g[nm].metadata) != meta_list(reuse_metadata(meta)):
                    raise Fail("readback_metadata", "metadata of record %s" % nm, meta, meta_list(g[nm].metadata))
            klass = "bare_%s" % "".join("b" if mask >> i & 1 else "f" for i in range(k))
            return "accepted", []
        if sub == "numbered_keys":
            items = [[{"number": n, "name": "k%d" % n}, "v%d" % n] for n in case["numbers"]]
            res, fails = eval_meta([(dict(k), v) for k, v in items], "setitem", pal)
            return res, [f + (sub,) for f in fails]
        if sub == "numbered_names":
            res, fails = eval_records({"kind": "records", "names": case["names"]}, pal, "records")
            return res, [f + (sub,) for f in fails]
        if sub == "many_models":
            from biotite.interface.rdkit import from_mol, to_mol

            rdkit()
            depth = case["depth"]
            mm = dict(order_base(pal), ann=[])
            a = build_atoms(mm)
            models = []
            for k in range(depth):
                b = a.copy()
                b.coord = a.coord + np.float32(k)
                models.append(b)
            S = struc.stack(models)
            mol = to_mol(S)
            ids = [c.GetId() for c in mol.GetConformers()]
            if ids != list(range(depth)):
                raise Fail("conformer_ids", "conformer IDs of %d models" % depth, list(range(depth)), ids)
            back = from_mol(mol, add_hydrogen=False)
            if back.stack_depth() != depth or back.coord.tobytes() != S.coord.tobytes():
                raise Fail("model_order", "models of a %d-model stack after to_mol/from_mol" % depth, "same order",
                           [float(back.coord[k, 0, 0] - S.coord[0, 0, 0]) for k in range(back.stack_depth())])
            for k in range(depth):
                if from_mol(mol, conformer_id=k, add_hydrogen=False).coord.tobytes() != S.coord[k].tobytes():
                    raise Fail("conformer_id_model", "from_mol(conformer_id=%d)" % k, None, None)
            klass = "many_models_%s" % ("ge10" if depth > 10 else "le10")
            return "accepted", []
        if sub == "atom_order":
            base = order_base(pal)
            m = permute_mol(base, case["perm"])
            if case["ver"] == "rdkit":
                from biotite.interface.rdkit import from_mol, to_mol

                rdkit()
                mm = dict(m, ann=[])
                back = from_mol(to_mol(build_atoms(m)), add_hydrogen=False)
                rd_check_atoms(mm, back, np.array(m["coord"], dtype=np.float32).reshape(1, 4, 3), "permuted atoms")
                rd_check_bonds(m, back, "default", "permuted atoms")
                return "accepted", []
            fails = eval_mol(m, case["ver"], "ctab", pal)
            return ("fail" if fails else "accepted"), [f + ("atom_order",) for f in fails]
        if sub == "bond_rows":
            base = order_base(pal)
            rows = [(i, j, t) for (i, j), t in base["bonds"].items()]
            rows = [rows[k] for k in case["rows"]]
            rows = [((j, i, t) if case["flip"] >> n & 1 else (i, j, t)) for n, (i, j, t) in enumerate(rows)]
            a = build_atoms(base)
            a.bonds = struc.BondList(4, np.array([(i, j, int(getattr(struc.BondType, t))) for i, j, t in rows],
                                                  dtype=np.int64))
            from biotite.structure.io.mol.ctab import read_structure_from_ctab, write_structure_to_ctab

            for ver in ("V2000", "V3000"):
                lines = write_structure_to_ctab(a, version=ver)
                check_file_content(base, lines, ver, [])
                check_readback(base, read_structure_from_ctab(lines), ver, [])
            from biotite.interface.rdkit import from_mol, to_mol

            rdkit()
            rd_check_bonds(base, from_mol(to_mol(a), add_hydrogen=False), "default", "bond rows")
            return "accepted", []
        raise ValueError(sub)
    except Fail as f:
        return "fail", [(site, f.mode, f.what, f.expected, f.observed, klass)]


def eval_mol_either(m, ver, cont, pal):
    """a molecule outside the quantifier (0 atoms): clean exception anywhere, or exact"""
    import biotite.structure as struc

    a = struc.AtomArray(0)
    a.bonds = struc.BondList(0)
    try:
        text, lines, _ = write_container(a, m, ver, cont)
        back = read_container(text, lines, cont)
    except Fail as f:
        return "fail", [("shape[zero_atoms]", f.mode, f.what, f.expected, f.observed, "zero_atoms")]
    except Exception:  # noqa: BLE001
        return "unspecified_refused", []
    if back.array_length() != 0 or (back.bonds is not None and back.bonds.get_bond_count() != 0):
        return "fail", [("shape[zero_atoms]", "readback_count", "empty molecule read back with atoms", 0,
                         back.array_length(), "zero_atoms")]
    return "unspecified_exact", []


# ---- lazy: SD files parse lazily; == and text before/after forcing, in all combinations -----------------
FORCE_LEVELS = ["none", "getitem", "header", "metadata", "structure", "all"]


def lazy_cases(tier):
    for fa in FORCE_LEVELS:
        for fb in FORCE_LEVELS:
            for diff in ("same", "metadata_value", "header_comment", "structure", "record_name"):
                yield {"kind": "audit", "fam": "lazy", "fa": fa, "fb": fb, "diff": diff}


def lazy_text(pal, diff):
    from biotite.structure.io import mol as molio

    f = molio.SDFile()
    for nm, cid in (("A", "c1"), ("B", "c2")):
        c = REUSE_CONTENTS[cid]
        meta = [[dict(k), v] for k, v in c["meta"]]
        h = dict(REUSE_HEADERS[c["h"]])
        cid2 = cid
        if nm == "B":
            if diff == "metadata_value":
                meta[-1][1] = "other value"
            elif diff == "header_comment":
                h["comments"] = "other comment"
            elif diff == "structure":
                cid2 = "c3"
            elif diff == "record_name":
                nm = "B2"
        mm, ver, atoms = reuse_atoms(cid2, pal)
        r = molio.SDRecord(header=make_header(h), metadata=reuse_metadata(meta))
        r.set_structure(atoms, **({} if ver is None else {"version": ver}))
        f[nm] = r
    return f.serialize()


def force(g, level):
    for nm in list(g.keys()):
        if level == "none":
            return
        rec = g[nm]
        if level in ("header", "all"):
            rec.header
        if level in ("metadata", "all"):
            rec.metadata
        if level in ("structure", "all"):
            rec.get_structure()


def eval_lazy(case):
    from biotite.structure.io import mol as molio

    pal = case["pal"]
    site = "lazy"
    try:
        ta, tb = lazy_text(pal, "same"), lazy_text(pal, case["diff"])
        ga, gb = molio.SDFile.read(io.StringIO(ta)), molio.SDFile.read(io.StringIO(tb))
        force(ga, case["fa"])
        force(gb, case["fb"])
        want = case["diff"] == "same"
        for x, y, lab in ((ga, gb, "a==b"), (gb, ga, "b==a")):
            if (x == y) != want:
                raise Fail("eq_wrong_" + ("unequal" if want else "equal"), "SDFile.__eq__ (%s) of files that %s" %
                           (lab, "are equal" if want else "differ in " + case["diff"]), want, not want)
        # comparing must not change what is written; forcing must not change the text
        if ga.serialize() != ta or gb.serialize() != tb:
            raise Fail("text_changed_by_forcing", "serialize() after partial deserialisation / comparison differs from "
                       "the text that was read", None, None)
        if case["diff"] != "record_name":
            ra, rb = ga["B"], gb["B"]
            if (ra == rb) != want or (rb == ra) != want:
                raise Fail("record_eq_wrong_" + ("unequal" if want else "equal"), "SDRecord.__eq__ of records that %s"
                           % ("are equal" if want else "differ in " + case["diff"]), want, not want)
        return []
    except Fail as f:
        return [(site, f.mode, f.what, f.expected, f.observed, "%s+forced_%s_%s" % (case["diff"], case["fa"], case["fb"]))]


# ===========================================================================
# second dimension audit: identity (A), combo (B + C), derived (E); D extends "reuse"
# ===========================================================================
IDENTITY_SCENARIOS = ["metadata_of_metadata", "metadata_of_empty", "sdfile_of_dict", "sdfile_of_empty_dict",
                      "ctab_lines_twice", "sdfile_lines", "get_structure_twice", "header_twice", "from_mol_twice",
                      "from_mol_single_conformer", "deserialize_twice"]


def identity_cases(tier):
    for sc in IDENTITY_SCENARIOS:
        for cid in ("c0", "c1", "c2"):
            yield {"kind": "audit", "fam": "identity", "sc": sc, "cid": cid}


def eval_identity(case):
    """an operation that yields a NEW object must not hand out its operand (or its internal dict/list), also when
    there is nothing to do; after a re-binding edit of the result the operand still equals its model"""
    from biotite.structure.io import mol as molio

    sc, cid, pal = case["sc"], case["cid"], case["pal"]
    c = REUSE_CONTENTS[cid]
    m, ver, atoms = reuse_atoms(cid, pal)
    kw = {} if ver is None else {"version": ver}
    site = "identity[%s]" % sc

    def rec():
        r = molio.SDRecord(header=make_header(REUSE_HEADERS[c["h"]]), metadata=reuse_metadata(c["meta"]))
        r.set_structure(atoms, **kw)
        return r

    try:
        if sc in ("metadata_of_metadata", "metadata_of_empty"):
            src = reuse_metadata(c["meta"] if sc == "metadata_of_metadata" else [])
            want = meta_list(src)
            new = molio.Metadata(src)
            if new is src or new._metadata is src._metadata:
                raise Fail("result_is_operand", "Metadata(metadata) hands out its operand / its internal dict", None, None)
            new["added"] = "x"
            for k in list(new)[:1]:
                del new[k]
            if meta_list(src) != want:
                raise Fail("operand_changed", "editing Metadata(metadata) changed the operand", want, meta_list(src))
        elif sc in ("sdfile_of_dict", "sdfile_of_empty_dict"):
            d = {"A": rec(), "B": rec()} if sc == "sdfile_of_dict" else {}
            keys = list(d)
            f = molio.SDFile(d)
            f["C"] = rec()
            if "A" in f:
                del f["A"]
            if list(d) != keys:
                raise Fail("operand_changed", "editing SDFile(records) changed the dict that was passed", keys, list(d))
            d["Z"] = rec()
            if "Z" in f:
                raise Fail("result_shares_operand", "SDFile(records) shares the dict that was passed", None, None)
        elif sc == "ctab_lines_twice":
            from biotite.structure.io.mol.ctab import write_structure_to_ctab

            l1 = write_structure_to_ctab(atoms, **kw)
            keep = list(l1)
            l1.append("garbage")
            l1[0] = "garbage"
            l2 = write_structure_to_ctab(atoms, **kw)
            if l2 != keep or l2 is l1:
                raise Fail("result_shared_between_calls", "editing the list returned by write_structure_to_ctab "
                           "changes the next result", keep[:3], l2[:3])
            e1 = write_structure_to_ctab(atoms[:0], **kw)
            e1.append("x")
            if write_structure_to_ctab(atoms[:0], **kw)[-1] != "M  END":
                raise Fail("result_shared_between_calls", "empty molecule: result list shared between calls", None, None)
        elif sc == "sdfile_lines":
            f = molio.SDFile({"A": rec()})
            text = f.serialize()
            ln = f.lines
            ln.append("garbage")
            ln[0] = "garbage"
            mf = molio.MOLFile()
            mf.set_structure(atoms, **kw)
            keep = list(mf.lines)
            if f.serialize() != text or f.lines != text.splitlines():
                raise Fail("operand_changed", "editing SDFile.lines changed the file", None, None)
            ctab = molio.MOLFile.read(io.StringIO("\n".join(keep) + "\n"))
            if ctab.lines != keep:
                raise Fail("operand_changed", "MOLFile.read", None, None)
        elif sc == "get_structure_twice":
            for obj in (molio.MOLFile(), molio.SDRecord()):
                obj.set_structure(atoms, **kw)
                a1, a2 = obj.get_structure(), obj.get_structure()
                if a1 is a2 or a1.bonds is a2.bonds or a1.coord is a2.coord:
                    raise Fail("result_shared_between_calls", "get_structure() returns the same object twice", None, None)
                want = snapshot(a2)
                a1.set_annotation("extra", np.zeros(a1.array_length()))
                a1.bonds = None
                a1.coord = np.zeros((a1.array_length(), 3), dtype=np.float32)
                if snapshot(a2) != want or snapshot(obj.get_structure()) != want:
                    raise Fail("operand_changed", "editing one result of get_structure() changed another", None, None)
        elif sc == "header_twice":
            for cont in ("mol", "rec"):
                obj = reuse_new(cont)
                reuse_write(obj, cont, cid, "hs", pal)
                obj2 = reuse_parse(reuse_text(obj, cont), cont)
                want = header_tuple(obj2.header)
                h = obj2.header
                # re-binding the attribute of the file object must not be needed for a consistent view
                r = consistent(obj2, cont)
                if r or header_tuple(h) != want:
                    raise Fail("getter_vs_text_" + (r[0] if r else "header"), "header getter", want, header_tuple(h))
        elif sc in ("from_mol_twice", "from_mol_single_conformer"):
            from biotite.interface.rdkit import from_mol, to_mol

            rdkit()
            mm = dict(m, ann=[])
            S = rd_atoms(mm, 0 if sc == "from_mol_single_conformer" else 2)
            mol = to_mol(S)
            e = rd_extract(mol)
            b1 = from_mol(mol, add_hydrogen=False)
            b2 = from_mol(mol, add_hydrogen=False)
            if b1 is b2 or b1.bonds is b2.bonds or b1.coord is b2.coord or b1.element is b2.element:
                raise Fail("result_shared_between_calls", "from_mol returns shared objects", None, None)
            want = stack_snapshot(b2)
            b1.bonds = None
            b1.set_annotation("charge", np.full(b1.array_length(), 9))
            b1.del_annotation("b_factor")
            one = from_mol(mol, conformer_id=0, add_hydrogen=False)
            one.coord = np.zeros_like(one.coord)
            if stack_snapshot(b2) != want or rd_extract(mol) != e or stack_snapshot(from_mol(mol, add_hydrogen=False)) != want:
                raise Fail("operand_changed", "re-binding edits of one from_mol result reach the Mol / another result",
                           None, None)
        elif sc == "deserialize_twice":
            text = rec().serialize()
            r1, r2 = molio.SDRecord.deserialize(text), molio.SDRecord.deserialize(text)
            r1.metadata["added"] = "x"
            r1.header.comments = "edited"
            r1.set_structure(reuse_atoms("c3", pal)[2])
            if r2.serialize() != text or meta_list(r2.metadata) != meta_list(reuse_metadata(c["meta"])):
                raise Fail("result_shared_between_calls", "two SDRecord.deserialize results share state", None, None)
            f1 = molio.SDFile.deserialize(text + "$$$$\n")
            f2 = molio.SDFile.deserialize(text + "$$$$\n")
            nm = list(f1.keys())[0]
            f1[nm].metadata["added"] = "x"
            del f1[nm]
            if list(f2.keys()) != [nm] or f2.serialize() != text + "$$$$\n":
                raise Fail("result_shared_between_calls", "two SDFile.deserialize results share state", None, None)
        return []
    except Fail as f:
        return [(site, f.mode, f.what, f.expected, f.observed, case["sc"])]


# ---- combo: values by which the code branches (independent of the seed) and two awkward features in one value
COMBO_ELEMENTS = ["R#", "C'", 'C"', "'\"", "D", "T", "X", "*"]      # Rgroup marker, quote characters (V3000 tokeniser)
COMBO_VALUES = [" >a", "a\n > <q>\nb", ">a\n$$$$", "$$$$ x\n>", " \n>a", "a \n\n b", "a\rb", "a\r\nb", "a\x0cb",
                "a b", "\t>a", "> <k>\n$$$$\n\n x "]
COMBO_HEADERS = [{"mol_name": "M  END" + "x" * 74}, {"mol_name": "M  END" + "x" * 75}, {"comments": "$$$$" + "x" * 77},
                 {"mol_name": "> <a> $$$$", "comments": "M  END $$$$"}, {"comments": "M  END", "mol_name": "M  END"}]


def combo_cases(tier):
    for el in COMBO_ELEMENTS:
        for ver in VERSIONS:
            for atom in (0, 1):
                yield {"kind": "audit", "fam": "combo", "sub": "element", "el": el, "ver": ver, "atom": atom}
    for v in COMBO_VALUES:
        for ctor in ("dict", "setitem"):
            yield {"kind": "audit", "fam": "combo", "sub": "value", "v": v, "ctor": ctor}
    for i in range(len(COMBO_HEADERS)):
        for mode in HEADER_MODES:
            yield {"kind": "audit", "fam": "combo", "sub": "header", "i": i, "mode": mode}
    for n in (999, 1000):
        for ver in VERSIONS:
            yield {"kind": "audit", "fam": "combo", "sub": "index_and_charge_width", "n": n, "ver": ver}
    for opt in ("3D", "2D", "explicit_h_true", "explicit_h_true_no_h", "add_hydrogen_true_with_h"):
        for depth in (0, 2):
            yield {"kind": "audit", "fam": "combo", "sub": "rd_option", "opt": opt, "depth": depth}


def norm_breaks(v):
    return "\n".join(ln.strip() for ln in v.splitlines())


def eval_combo(case):
    import biotite.structure as struc
    from biotite.structure.io import mol as molio

    sub, pal = case["sub"], case["pal"]
    site = "combo[%s]" % sub
    try:
        if sub == "element":
            # symbols the readers treat by value: unspecified (exception anywhere or exact)
            m = chain_mol(2, pal)
            m["elem"][case["atom"]] = case["el"]
            a = build_atoms(m)
            try:
                text, lines, _ = write_container(a, m, case["ver"], "ctab")
                back = read_container(text, lines, "ctab")
            except Fail:
                raise
            except Exception:  # noqa: BLE001
                return "unspecified_refused", []
            check_readback(m, back, ctfile.version_of(lines[0]), [])
            return "unspecified_exact", []
        if sub == "value":
            v = case["v"]
            r = molio.SDRecord()
            try:
                if case["ctor"] == "dict":
                    r.metadata = molio.Metadata({"k": v, "z": "end"})
                else:
                    r.metadata["k"] = v
                    r.metadata["z"] = "end"
                r.set_structure(build_atoms(chain_mol(2, pal)))
                f = molio.SDFile()
                f["n"] = r
                text = f.serialize()
                g = molio.SDFile.read(io.StringIO(text))
                names = list(g.keys())
                got = [(key_tuple(k)["name"], val) for k, val in g[names[0]].metadata.items()] if names else None
            except Exception:  # noqa: BLE001
                return "unspecified_refused", []
            if names != ["n"]:
                raise Fail("readback_records", "value combining two awkward features broke the record framing", ["n"], names)
            if got not in ([("k", v), ("z", "end")], [("k", norm_breaks(v)), ("z", "end")]):
                raise Fail("readback_changed", "value combining two awkward features changed silently (beyond the "
                           "accepted normalisation of line ends / line edge blanks)", [("k", v), ("z", "end")], got)
            return ("unspecified_exact" if got[0][1] == v else "unspecified_normalised"), []
        if sub == "header":
            h = dict(HEADER_BASE["empty"], **COMBO_HEADERS[case["i"]])
            res, fails = eval_header({"kind": "header", "base": "empty", "devs": [], "fields": h}, case["mode"], pal)
            return res, [f + ("header_%d" % case["i"],) for f in fails]
        if sub == "index_and_charge_width":
            n = case["n"]
            m = chain_mol(n, pal, {n - 1: -15, n - 2: 15, 0: -15, 99: -10, 9: -1})
            p = PALETTES[pal]
            m["coord"] = [[f32(float(p["base"][c]) + (i % 97) * float(p["step"][c])) for c in range(3)] for i in range(n)]
            if n >= 1000 and case["ver"] == "V2000":
                return "refused", []
            fails = eval_mol(m, case["ver"], "ctab", pal)
            return ("fail" if fails else "accepted"), [f + ("index_and_charge_width",) for f in fails]
        if sub == "rd_option":
            from biotite.interface.rdkit import from_mol, to_mol

            Chem = rdkit()
            opt, depth = case["opt"], case["depth"]
            m = chain_mol(3, pal, {1: 1}, ["SINGLE", "DOUBLE"])
            if opt in ("explicit_h_true", "add_hydrogen_true_with_h"):
                m["elem"][2] = "H"
                m["bonds"][(1, 2)] = "SINGLE"
            mm = dict(m, ann=[])
            S = rd_atoms(mm, depth)
            k = max(1, depth)
            coords = np.asarray(S.coord if depth else S.coord[None], dtype=np.float32)
            if opt in ("3D", "2D"):
                mol = to_mol(S)
                b = from_mol(mol, conformer_id=opt, add_hydrogen=False)
                if not isinstance(b, struc.AtomArrayStack):
                    raise Fail("type", "from_mol(conformer_id='%s')" % opt, "AtomArrayStack", type(b).__name__)
                if opt == "3D":
                    rd_check_atoms(mm, b, coords, "conformer_id='3D'")
                    rd_check_bonds(m, b, "default", "conformer_id='3D'")
                else:
                    if b.stack_depth() != 1 or not np.isnan(b.coord).all() or b.element.tolist() != m["elem"]:
                        raise Fail("no_2d_conformer", "documented: one model of NaN when no conformer matches", "1 x NaN",
                                   (b.stack_depth(), b.coord.tolist()))
            else:
                mol = to_mol(S, explicit_hydrogen=True) if opt.startswith("explicit") else to_mol(S)
                if opt.startswith("explicit") and not all(a.GetNoImplicit() for a in mol.GetAtoms()):
                    raise Fail("no_implicit_flag", "explicit_hydrogen=True: atoms not marked NoImplicit", True, False)
                b = from_mol(mol, add_hydrogen=(True if opt == "add_hydrogen_true_with_h" else False))
                if opt == "add_hydrogen_true_with_h":
                    # hydrogens are explicit already and marked NoImplicit: nothing may be added
                    pass
                rd_check_atoms(mm, b, coords, opt)
                rd_check_bonds(m, b, "default", opt)
            return "accepted", []
        raise ValueError(sub)
    except Fail as f:
        return "fail", [(site, f.mode, f.what, f.expected, f.observed, case.get("el") or case.get("opt") or sub)]


# ---- derived: objects the library hands out, fed into every writing operation --------------------------
DERIVE_OPS = ["file_v2000", "file_v3000", "sdf_record", "rdkit_model", "rdkit_stack_model", "mask", "reverse", "fancy",
              "stack_model", "copy", "plus", "strided_slice"]
DERIVE_TARGETS = ["ctab_V2000", "ctab_V3000", "mol", "sdf", "rdkit"]


def derived_cases(tier):
    for op in DERIVE_OPS:
        for target in DERIVE_TARGETS:
            yield {"kind": "audit", "fam": "derived", "op": op, "target": target}
    for op in ("metadata", "header", "record", "record_forced"):
        yield {"kind": "audit", "fam": "derived", "op": op, "target": "sdf_objects"}


def model_from_atoms(a):
    import biotite.structure as struc

    n = a.array_length()
    return {"n": n, "elem": [str(e) for e in a.element], "coord": [[np.float32(x) for x in row] for row in a.coord],
            "charge": [int(c) for c in a.charge] if "charge" in a.get_annotation_categories() else None,
            "bonds": {(int(i), int(j)): struc.BondType(int(t)).name for i, j, t in a.bonds.as_array()}, "dbt": None}


def derive(op, pal):
    """-> (derived AtomArray, model it must represent)"""
    import biotite.structure as struc
    from biotite.structure.io import mol as molio

    base = order_base(pal)
    base["bonds"] = {(0, 1): "SINGLE", (1, 2): "DOUBLE", (0, 3): "TRIPLE", (2, 3): "SINGLE"}
    a = build_atoms(base)
    if op in ("file_v2000", "file_v3000"):
        f = molio.MOLFile()
        f.set_structure(a, version="V2000" if op == "file_v2000" else "V3000")
        d = f.get_structure()
        return d, model_from_atoms(d)           # what the file holds (4-decimal coordinates) is the new input
    if op == "sdf_record":
        f = molio.SDFile()
        molio.set_structure(f, a, record_name="x")
        d = molio.SDFile.read(io.StringIO(f.serialize()))["x"].get_structure()
        return d, model_from_atoms(d)
    if op in ("rdkit_model", "rdkit_stack_model"):
        from biotite.interface.rdkit import from_mol, to_mol

        rdkit()
        if op == "rdkit_model":
            d = from_mol(to_mol(a), conformer_id=0, add_hydrogen=False)
        else:
            d = from_mol(to_mol(struc.stack([a, a])), add_hydrogen=False)[1]
        return d, base
    sel = {"mask": [0, 1, 3], "reverse": [3, 2, 1, 0], "fancy": [2, 0, 3]}
    if op in sel:
        idx = sel[op]
        d = a[np.array([i in idx for i in range(4)])] if op == "mask" else (a[::-1] if op == "reverse" else a[np.array(idx)])
        pos = {old: new for new, old in enumerate(idx)}
        m = {"n": len(idx), "elem": [base["elem"][i] for i in idx], "coord": [base["coord"][i] for i in idx],
             "charge": [base["charge"][i] for i in idx], "dbt": None,
             "bonds": {(min(pos[i], pos[j]), max(pos[i], pos[j])): t for (i, j), t in base["bonds"].items()
                       if i in pos and j in pos}}
        return d, m
    if op == "stack_model":
        st = struc.stack([a, a, a])
        st.coord[0] += 3
        return st[2], base
    if op == "copy":
        return a.copy(), base
    if op == "strided_slice":
        big = a + a
        d = big[::2]                                # atoms 0, 2 of each half: 0, 2, 4(=0'), 6(=2')
        idx = [0, 2]
        m = {"n": 4, "elem": [base["elem"][i] for i in idx] * 2, "coord": [base["coord"][i] for i in idx] * 2,
             "charge": [base["charge"][i] for i in idx] * 2, "dbt": None, "bonds": {}}
        return d, m
    if op == "plus":
        d = a + a[np.array([True, True, False, False])]
        m = dict(base, n=6, elem=base["elem"] + base["elem"][:2], coord=base["coord"] + base["coord"][:2],
                 charge=base["charge"] + base["charge"][:2], bonds=dict(base["bonds"]))
        m["bonds"][(4, 5)] = "SINGLE"
        return d, m
    raise ValueError(op)


def eval_derived(case):
    import biotite.structure as struc
    from biotite.structure.io import mol as molio

    op, target, pal = case["op"], case["target"], case["pal"]
    site = "derived[%s]" % op
    try:
        if target == "sdf_objects":
            c = REUSE_CONTENTS["c2"]
            m, ver, atoms = reuse_atoms("c2", pal)
            r = molio.SDRecord(header=make_header(REUSE_HEADERS[c["h"]]), metadata=reuse_metadata(c["meta"]))
            r.set_structure(atoms, version=ver)
            f = molio.SDFile()
            f["A"] = r
            text = f.serialize()
            g = molio.SDFile.read(io.StringIO(text))
            f2 = molio.SDFile()
            if op == "metadata":
                r2 = molio.SDRecord(header=make_header(dict(REUSE_HEADERS[c["h"]])), metadata=g["A"].metadata)
                r2.set_structure(atoms, version=ver)
                f2["A"] = r2
            elif op == "header":
                r2 = molio.SDRecord(header=g["A"].header, metadata=reuse_metadata(c["meta"]))
                r2.set_structure(g["A"].get_structure(), version=ver)
                f2["A"] = r2
                mf = molio.MOLFile()
                mf.header = g["A"].header
                mf.set_structure(atoms)
                if header_tuple(molio.MOLFile.read(io.StringIO(reuse_text(mf, "mol"))).header) != header_tuple(g["A"].header):
                    raise Fail("readback_header", "parsed header assigned to a MOLFile", None, None)
            else:
                # a record taken from a parsed file (header / metadata still text, or forced) goes into another
                # file under another name; the direct file holds the same record under that name
                rr = g["A"]
                if op == "record_forced":
                    rr.header, rr.metadata, rr.get_structure()
                f2["B"] = rr
                fb = molio.SDFile()
                rb = molio.SDRecord(header=make_header(REUSE_HEADERS[c["h"]]), metadata=reuse_metadata(c["meta"]))
                rb.set_structure(atoms, version=ver)
                fb["B"] = rb
                text = fb.serialize()
                if list(molio.SDFile.read(io.StringIO(f2.serialize())).keys()) != ["B"]:
                    raise Fail("readback_names", "record of a parsed file stored under another name", ["B"],
                               list(molio.SDFile.read(io.StringIO(f2.serialize())).keys()))
            if f2.serialize() != text:
                raise Fail("differs_from_direct", "SD file built from parsed %s differs from the file built directly" % op,
                           text[:300], f2.serialize()[:300])
            return "accepted", []
        d, m = derive(op, pal)
        snap = snapshot(d)
        if target == "rdkit":
            from biotite.interface.rdkit import from_mol, to_mol

            rdkit()
            mm = dict(m, ann=[])
            back = from_mol(to_mol(d), add_hydrogen=False)
            rd_check_atoms(mm, back, np.array(m["coord"], dtype=np.float32).reshape(1, m["n"], 3), "derived input")
            rd_check_bonds(m, back, "default", "derived input")
            fails = []
        else:
            ver, cont = (target[5:], "ctab") if target.startswith("ctab") else (None, target)
            fails = eval_mol(m, ver, cont, pal, None, d)
        if snapshot(d) != snap:
            raise Fail("input_mutated", "derived input changed by the operation", None, None)
        return ("fail" if fails else "accepted"), [f + (target,) for f in fails]
    except Fail as f:
        return "fail", [(site, f.mode, f.what, f.expected, f.observed, target)]


# ===========================================================================
# third dimension audit: options (F operands of other size, H precedence, I selection boundaries), ambient (G)
# ===========================================================================
def options_cases(tier):
    for kind in ("metadata", "record", "file"):
        for rel in ("equal", "other_larger", "other_smaller", "other_disjoint"):
            yield {"kind": "audit", "fam": "options", "sub": "eq_size", "obj": kind, "rel": rel}
    for depth in (0, 1, 3):
        for beyond in (0, 1, 5):
            yield {"kind": "audit", "fam": "options", "sub": "conformer_beyond", "depth": depth, "beyond": beyond}
    yield {"kind": "audit", "fam": "options", "sub": "key_lookup"}
    for n_rec in (0, 1, 2, 3):
        for api in ("get", "set"):
            yield {"kind": "audit", "fam": "options", "sub": "default_record", "n": n_rec, "api": api}
    for how in ("setitem", "constructor"):
        for hname in ("", "other", "A"):
            yield {"kind": "audit", "fam": "options", "sub": "name_precedence", "how": how, "hname": hname}
    for prop in ("charge", "element", "both"):
        yield {"kind": "audit", "fam": "options", "sub": "prop_precedence", "prop": prop}
    yield {"kind": "audit", "fam": "options", "sub": "extra_annotations"}
    for pattern in itertools.product("23", repeat=2):
        for cid in (None, "2D", "3D"):
            yield {"kind": "audit", "fam": "options", "sub": "mixed_conformers", "pattern": "".join(pattern), "cid": cid}
    for pattern in ("2", "3", "232"):
        for cid in (None, "2D", "3D"):
            yield {"kind": "audit", "fam": "options", "sub": "mixed_conformers", "pattern": pattern, "cid": cid}


def eval_options(case):
    import biotite.structure as struc
    from biotite.structure.io import mol as molio

    sub, pal = case["sub"], case["pal"]
    site = "options[%s]" % sub
    klass = sub

    def rec(cid, meta=None):
        c = REUSE_CONTENTS[cid]
        m, ver, atoms = reuse_atoms(cid, pal)
        r = molio.SDRecord(header=make_header(REUSE_HEADERS[c["h"]]),
                           metadata=reuse_metadata(c["meta"] if meta is None else meta))
        r.set_structure(atoms, **({} if ver is None else {"version": ver}))
        return r

    try:
        if sub == "eq_size":
            items = [[{"name": "a"}, "x"], [{"number": 1, "name": "b"}, "y"]]
            more = items + [[{"name": "c"}, "z"]]
            other_items = {"equal": items, "other_larger": more, "other_smaller": items[:1],
                           "other_disjoint": [[{"name": "q"}, "x"], [{"name": "r"}, "y"]]}[case["rel"]]
            if case["obj"] == "metadata":
                a, b = reuse_metadata(items), reuse_metadata(other_items)
            elif case["obj"] == "record":
                a, b = rec("c1", items), rec("c1", other_items)
            else:
                a, b = molio.SDFile(), molio.SDFile()
                for k, _ in items:
                    a[k.get("name")] = rec("c1")
                for k, _ in other_items:
                    b[k.get("name")] = rec("c1")
            want = case["rel"] == "equal"
            klass = "%s_%s" % (case["obj"], case["rel"])
            for x, y, lab in ((a, b, "self==other"), (b, a, "other==self")):
                if (x == y) != want or (x != y) == want:
                    raise Fail("eq_wrong", "%s of %ss where the other operand is '%s'" % (lab, case["obj"], case["rel"]),
                               want, not want)
            return "accepted", []
        if sub == "conformer_beyond":
            from biotite.interface.rdkit import from_mol, to_mol

            rdkit()
            mm = dict(chain_mol(2, pal), ann=[])
            molobj = to_mol(rd_atoms(mm, case["depth"]))
            k = max(1, case["depth"]) + case["beyond"]
            try:
                r = from_mol(molobj, conformer_id=k, add_hydrogen=False)
            except Exception:  # noqa: BLE001
                return "refused", []
            raise Fail("not_refused", "from_mol(conformer_id=%d) on a Mol with %d conformers returns atoms" %
                       (k, max(1, case["depth"])), "an exception", r.coord.tolist())
        if sub == "key_lookup":
            K = molio.Metadata.Key
            md = molio.Metadata({K(number=1, name="a"): "v1", "b": "v2"})
            checks = [("a" in md, False), (K(number=1, name="a") in md, True), ("b" in md, True), (K(name="b") in md, True),
                      (K(number=1, name="b") in md, False), (K(number=2, name="a") in md, False),
                      (K(number=1) in md, False), (md[K(number=1, name="a")], "v1"), (md["b"], "v2"), (len(md), 2)]
            for i, (got, want) in enumerate(checks):
                if got != want:
                    raise Fail("lookup_%d" % i, "Metadata lookup with a key that has more / fewer parts (documented: a "
                               "string only addresses keys that consist of a name)", want, got)
            for k in ("a", K(name="a"), K(number=1, name="a", registry_internal=3)):
                try:
                    md[k]
                except KeyError:
                    continue
                raise Fail("lookup_not_refused", "lookup of a key the metadata lacks", "KeyError", str(k))
            return "accepted", []
        if sub == "default_record":
            n, api = case["n"], case["api"]
            f = molio.SDFile()
            cids = ["c1", "c2", "c3"][:n]
            for i, cid in enumerate(cids):
                f["r%d" % i] = rec(cid)
            klass = "default_record_%s_%s" % (api, "empty" if n == 0 else "single" if n == 1 else "multi")
            if api == "get":
                if n == 0:
                    try:
                        molio.get_structure(f)
                    except Exception:  # noqa: BLE001
                        return "refused", []
                    raise Fail("not_refused", "get_structure of an empty SD file", "an exception", None)
                try:
                    got = molio.get_structure(f)
                except Exception as e:  # noqa: BLE001
                    raise Fail("raises_" + type(e).__name__, "mol.get_structure(sd_file) without record_name (documented: "
                               "'By default, the first record is used')", "structure of the first record",
                               "%s: %s" % (type(e).__name__, e))
                check_readback(reuse_atoms(cids[0], pal)[0], got, None, [])
                return "accepted", []
            m3, _, atoms3 = reuse_atoms("c0", pal)
            before = {nm: f[nm].serialize() for nm in f}
            molio.set_structure(f, atoms3)
            names = list(f.keys())
            if n == 0:
                if names != ["Molecule"]:
                    raise Fail("default_name", "set_structure on an empty SD file (documented: a new record is created)",
                               ["Molecule"], names)
                check_readback(m3, f["Molecule"].get_structure(), None, [])
                return "accepted", []
            if names != ["r%d" % i for i in range(n)]:
                raise Fail("names_changed", "set_structure without record_name changed the record names", None, names)
            check_readback(m3, f[names[0]].get_structure(), None, [])
            for nm in names[1:]:
                if f[nm].serialize() != before[nm]:
                    raise Fail("other_record_changed", "set_structure without record_name (documented: first record) "
                               "changed record %s" % nm, None, None)
            return "accepted", []
        if sub == "name_precedence":
            r = rec("c1")
            r.header.mol_name = case["hname"]
            f = molio.SDFile({"A": r}) if case["how"] == "constructor" else molio.SDFile()
            if case["how"] == "setitem":
                f["A"] = r
            recs = ctfile.parse_sdf(f.serialize())
            g = molio.SDFile.read(io.StringIO(f.serialize()))
            got = (recs[0]["header"][0], list(g.keys()), f["A"].header.mol_name)
            if got != ("A", ["A"], "A"):
                raise Fail("record_name_vs_header_name", "record name given explicitly and another mol_name in the header: "
                           "the record name wins", ("A", ["A"], "A"), got)
            klass = "%s_%s" % (case["how"], "same" if case["hname"] == "A" else "differs" if case["hname"] else "empty")
            return "accepted", []
        if sub in ("prop_precedence", "extra_annotations"):
            from biotite.interface.rdkit import from_mol, to_mol

            rdkit()
            m = chain_mol(3, pal, {0: 1, 2: -2}, ["SINGLE", "DOUBLE"])
            m["elem"] = ["C", "N", "O"]
            mm = dict(m, ann=[])
            a = build_atoms(m)
            coords = np.array(m["coord"], dtype=np.float32).reshape(1, 3, 3)
            if sub == "prop_precedence":
                molobj = to_mol(a)
                for at in molobj.GetAtoms():
                    if case["prop"] in ("charge", "both"):
                        at.SetIntProp("charge", 7)
                    if case["prop"] in ("element", "both"):
                        at.SetProp("element", "S")
                back = from_mol(molobj, add_hydrogen=False)
                klass = "prop_" + case["prop"]
                rd_check_atoms(mm, back, coords, "atom properties named like the dedicated attributes (documented: "
                               "element and charge come from the dedicated attributes)")
                return "accepted", []
            extra = {"foo": np.array([3, 4, 5]), "bar": np.array(["x", "y", "zz"]), "flt": np.array([0.5, 1.5, -2.25]),
                     "flag": np.array([True, False, True])}
            for k, v in extra.items():
                a.set_annotation(k, v)
            back = from_mol(to_mol(a, include_extra_annotations=list(extra) + ["charge", "element"]), add_hydrogen=False)
            rd_check_atoms(mm, back, coords, "extra annotations")
            for k, v in extra.items():
                if k not in back.get_annotation_categories() or back.get_annotation(k).tolist() != v.tolist():
                    raise Fail("extra_annotation_" + k, "annotation passed through include_extra_annotations",
                               v.tolist(), back.get_annotation(k).tolist() if k in back.get_annotation_categories() else None)
            return "accepted", []
        if sub == "mixed_conformers":
            from biotite.interface.rdkit import from_mol

            Chem = rdkit()
            pattern, cid = case["pattern"], case["cid"]
            rw = Chem.RWMol()
            for el in ("C", "O"):
                at = Chem.Atom(el)
                at.SetNoImplicit(True)
                rw.AddAtom(at)
            rw.AddBond(0, 1, Chem.BondType.DOUBLE)
            molobj = rw.GetMol()
            pos = []
            for k, dim in enumerate(pattern):
                cf = Chem.Conformer(2)
                p = np.array([[k, 0, 0 if dim == "2" else 1], [k + 0.5, 1, 0 if dim == "2" else 2]], dtype=np.float64)
                cf.SetPositions(p)
                cf.Set3D(dim == "3")
                molobj.AddConformer(cf, assignId=True)
                pos.append(p.astype(np.float32))
            sel = [p for p, dim in zip(pos, pattern) if cid is None or dim == cid[0]]
            back = from_mol(molobj, conformer_id=cid, add_hydrogen=False)
            klass = "conformers_%s_select_%s" % ("mixed" if len(set(pattern)) > 1 else "uniform", cid)
            if not sel:
                if back.stack_depth() != 1 or not np.isnan(back.coord).all():
                    raise Fail("no_match", "no conformer of the requested kind (documented: one model of NaN)", "1 x NaN",
                               back.coord.tolist())
            elif back.stack_depth() != len(sel) or back.coord.tobytes() != np.stack(sel).tobytes():
                raise Fail("selection", "conformers selected by kind (all of that kind, in order, none else)",
                           [p.tolist() for p in sel], back.coord.tolist())
            if back.element.tolist() != ["C", "O"]:
                raise Fail("element", "elements", ["C", "O"], back.element.tolist())
            return "accepted", []
        raise ValueError(sub)
    except Fail as f:
        return "fail", [(site, f.mode, f.what, f.expected, f.observed, klass)]


# ---- ambient: state outside the objects as an event between / around the operations -----------------------
AMBIENT_STATES = ["default", "warnings_error", "np_errstate_raise", "np_printoptions", "cwd_changed", "decimal_context"]
AMBIENT_OPS = ["ctab_v2000", "ctab_v3000", "sdf", "rdkit", "header_time"]
PATH_ARGS = ["str_path", "pathlib", "text_handle", "stringio", "relative_after_chdir"]


def ambient_cases(tier):
    for op in AMBIENT_OPS:
        for state in AMBIENT_STATES:
            for when in ("during", "between_write_and_read"):
                if state != "default" or when == "during":
                    yield {"kind": "audit", "fam": "ambient", "sub": "state", "op": op, "state": state, "when": when}
    for cls in ("MOLFile", "SDFile"):
        for arg in PATH_ARGS:
            yield {"kind": "audit", "fam": "ambient", "sub": "path", "cls": cls, "arg": arg}
        yield {"kind": "audit", "fam": "ambient", "sub": "binary_handle", "cls": cls}


class _Ambient:
    """enter: change one piece of ambient state; exit: restore it"""

    def __init__(self, state, tmpdir):
        self.state, self.tmpdir = state, tmpdir

    def __enter__(self):
        import decimal
        import os

        s = self.state
        if s == "warnings_error":
            self.cm = warnings.catch_warnings()
            self.cm.__enter__()
            warnings.simplefilter("error")
        elif s == "np_errstate_raise":
            self.cm = np.errstate(all="raise")
            self.cm.__enter__()
        elif s == "np_printoptions":
            self.cm = np.printoptions(precision=1, suppress=True, threshold=2, floatmode="fixed")
            self.cm.__enter__()
        elif s == "cwd_changed":
            self.old = os.getcwd()
            os.chdir(self.tmpdir)
        elif s == "decimal_context":
            self.old = decimal.getcontext().prec
            decimal.getcontext().prec = 3
        return self

    def __exit__(self, *exc):
        import decimal
        import os

        s = self.state
        if s in ("warnings_error", "np_errstate_raise", "np_printoptions"):
            self.cm.__exit__(*exc)
        elif s == "cwd_changed":
            os.chdir(self.old)
        elif s == "decimal_context":
            decimal.getcontext().prec = self.old
        return False


def ambient_op(op, pal, state, when, tmpdir):
    """-> observable (text + read-back); the ambient change is active during everything or only between write and read"""
    import contextlib
    import datetime

    from biotite.structure.io import mol as molio

    m = flavour_base(pal)
    m["coord"][0][0] = f32("-9999.999")
    m["coord"][1][1] = f32("0.00005")
    a = build_atoms(m)
    amb = lambda: _Ambient(state, tmpdir)          # noqa: E731
    whole = amb() if when == "during" else contextlib.nullcontext()
    part = amb() if when != "during" else contextlib.nullcontext()
    with whole:
        if op.startswith("ctab"):
            from biotite.structure.io.mol.ctab import read_structure_from_ctab, write_structure_to_ctab

            lines = write_structure_to_ctab(a, version=op[5:].upper())
            with part:
                back = read_structure_from_ctab(lines)
            return (lines, snapshot(back))
        if op in ("sdf", "header_time"):
            h = molio.Header(mol_name="n", time=datetime.datetime(2001, 2, 3, 4, 5), energy="1.5")
            r = molio.SDRecord(header=h, metadata={"k": "v\nw"})
            r.set_structure(a)
            f = molio.SDFile()
            f["n"] = r
            text = f.serialize()
            with part:
                g = molio.SDFile.read(io.StringIO(text))
                rec = g["n"]
                return (text, header_tuple(rec.header), meta_list(rec.metadata), snapshot(rec.get_structure()))
        from biotite.interface.rdkit import from_mol, to_mol

        rdkit()
        molobj = to_mol(a)
        e = rd_extract(molobj)
        with part:
            back = from_mol(molobj, add_hydrogen=False)
        return (e, stack_snapshot(back))


def eval_ambient(case):
    import os
    import shutil
    import tempfile

    from biotite.structure.io import mol as molio
    from mc import loader

    pal = case["pal"]
    site = "ambient[%s]" % case["sub"]
    loader.BUILD.mkdir(parents=True, exist_ok=True)
    tmpdir = tempfile.mkdtemp(prefix="c18-ambient-", dir=str(loader.BUILD))
    cwd0 = os.getcwd()
    try:
        if case["sub"] == "state":
            want = ambient_op(case["op"], pal, "default", "during", tmpdir)
            try:
                got = ambient_op(case["op"], pal, case["state"], case["when"], tmpdir)
            except Exception:  # noqa: BLE001
                return "unspecified_refused", []       # e.g. a warning turned into an error: not forbidden
            if got != want:
                raise Fail("depends_on_" + case["state"], "result of %s depends on ambient state (%s, %s)" %
                           (case["op"], case["state"], case["when"]), str(want)[:300], str(got)[:300])
            return "accepted", []
        m, ver, atoms = reuse_atoms("c1", pal)
        if case["cls"] == "MOLFile":
            f = molio.MOLFile()
            f.header = make_header(REUSE_HEADERS["full"])
            f.set_structure(atoms)
            cls = molio.MOLFile
        else:
            f = molio.SDFile()
            r = molio.SDRecord(header=make_header(REUSE_HEADERS["full"]), metadata={"k": "v"})
            r.set_structure(atoms)
            f["name"] = r
            cls = molio.SDFile
        ref = io.StringIO()
        f.write(ref)
        text = ref.getvalue()
        if case["sub"] == "binary_handle":
            p = os.path.join(tmpdir, "b.sdf")
            for mode, action in (("wb", lambda h: f.write(h)), ("rb", lambda h: cls.read(h))):
                if mode == "rb":
                    with open(p, "w") as h:
                        h.write(text)
                with open(p, mode) as h:
                    try:
                        action(h)
                    except TypeError:
                        continue
                    except Exception as e:  # noqa: BLE001
                        raise Fail("wrong_exception", "binary handle (documented: TypeError)", "TypeError", type(e).__name__)
                    raise Fail("not_refused", "file object in binary mode accepted (%s)" % mode, "TypeError", None)
            return "refused", []
        arg = case["arg"]
        import pathlib

        p = os.path.join(tmpdir, "x.sdf")
        if arg == "str_path":
            f.write(p)
            g = cls.read(p)
        elif arg == "pathlib":
            f.write(pathlib.Path(p))
            g = cls.read(pathlib.Path(p))
        elif arg == "text_handle":
            with open(p, "w") as h:
                f.write(h)
            with open(p) as h:
                g = cls.read(h)
        elif arg == "stringio":
            g = cls.read(io.StringIO(text))
            with open(p, "w") as h:
                h.write(text)
        else:
            os.chdir(tmpdir)
            f.write("x.sdf")
            sub = os.path.join(tmpdir, "sub")
            os.mkdir(sub)
            os.chdir(sub)                                   # the event: cwd changes between write and read
            try:
                cls.read("x.sdf")
            except Exception:  # noqa: BLE001
                pass
            else:
                raise Fail("stale_cwd", "relative path resolved against an earlier working directory", "not found", None)
            g = cls.read(os.path.join("..", "x.sdf"))
        with open(p) as h:
            on_disk = h.read()
        if on_disk != text:
            raise Fail("file_text", "text written through %s differs from the text written to a StringIO" % arg,
                       text[:200], on_disk[:200])
        out = io.StringIO()
        g.write(out)
        if out.getvalue() != text:
            raise Fail("reread_text", "object read through %s serialises differently" % arg, text[:200], out.getvalue()[:200])
        return "accepted", []
    except Fail as fl:
        return "fail", [(site, fl.mode, fl.what, fl.expected, fl.observed, case.get("state") or case.get("arg") or case["sub"])]
    finally:
        os.chdir(cwd0)
        shutil.rmtree(tmpdir, ignore_errors=True)


# ---- driver ------------------------------------------------------------------------------------------------
def audit_cases(tier):
    yield from alias_cases(tier)
    yield from flavour_cases(tier)
    yield from shape_cases(tier)
    yield from lazy_cases(tier)
    yield from identity_cases(tier)
    yield from combo_cases(tier)
    yield from derived_cases(tier)
    yield from options_cases(tier)
    yield from ambient_cases(tier)


def run_audit_case(ctx, case):
    fam = case["fam"]
    res = None
    if fam == "alias":
        fails = eval_alias(case)
    elif fam == "flavour":
        res, fails = eval_flavour(case)
    elif fam == "shape":
        res, fails = eval_shape(case)
    elif fam == "identity":
        fails = eval_identity(case)
    elif fam == "combo":
        res, fails = eval_combo(case)
    elif fam == "derived":
        res, fails = eval_derived(case)
    elif fam == "options":
        res, fails = eval_options(case)
    elif fam == "ambient":
        res, fails = eval_ambient(case)
    else:
        fails = eval_lazy(case)
    ctx.ev(1, 1)
    if not fails:
        ctx.count(res or "accepted")
    ctx.outcome(json.dumps(case))
    for fl in fails:
        site, mode, what, exp, obs = fl[:5]
        klass = fl[5] if len(fl) > 5 else fam
        ctx.violation("%s|%s|%s" % (site, mode, klass), what, case, exp, obs)


def run_audit(shard, ctx):
    pal = ctx.seed % len(PALETTES)
    for i, case in enumerate(audit_cases(ctx.tier)):
        if case["fam"] != shard["fam"]:
            continue
        case["pal"] = pal
        if not ctx.journal(json.dumps(case)):
            continue
        run_audit_case(ctx, case)
        if i % 53 == 0:
            ctx.sample(case)


# ---------------------------------------------------------------------------
# module contract
# ---------------------------------------------------------------------------
def bounds(tier):
    q = tier == "quick"
    return {
        "mol_graphs": "all labelled graphs on 1..4 atoms (1+2+8+64)",
        "mol_single_deviations": {"bond_types": BT_DEV, "charges": CHG_DEV, "elements": EL_DEV, "coordinates": XYZ_DEV,
                                  "default_bond_type": DBT_DEV},
        "mol_specs(n, order, reduced ladder, containers)": [list(s[:3]) + [s[3]] for s in mol_specs(tier)],
        "versions": ["None", "V2000", "V3000"],
        "containers": CONTAINERS,
        "chg": "10-atom chain: all 1024 charged subsets x 2 value patterns; prefixes/suffixes of %s-atom chains; "
               "all 31x31 charge pairs on 2 atoms" % ("20" if q else "20 and 33"),
        "big": [c for c in big_cases(tier)],
        "header_orders": [0, 1, 2] if q else [0, 1, 2, 3],
        "header_palette_sizes": {k: len(v) for k, v in HEADER_PALETTE.items()},
        "meta_keys": len(list(meta_single_cases())), "meta_values": len(VALUES),
        "record_names": REC_NAMES, "records_per_file": "1..3 (all ordered selections of distinct names)",
        "rdkit": "graphs on 1..4 atoms x single deviations (pairs on n<=%d) x kw %s x depth %s (depth 1 and 3 only for "
                 "the plain molecule and bond-type deviations); aromatic rings 3..6 "
                 "over %s" % (2 if q else 3, list(RD_KW), RD_DEPTHS, RING_TYPES),
        "reuse": {"contents": list(REUSE_CONTENTS), "refused_contents": list(REUSE_BAD),
                  "writes_per_object": 2 if q else 3, "sdfile_ops": len(sdf_ops()),
                  "sdfile_ops_per_sequence": "1..%d" % (2 if q else 3), "rdkit_molecules": list(REUSE_RD),
                  "cases": sum(1 for _ in reuse_cases(tier))},
        "audit": {"alias_scenarios": ALIAS_SCENARIOS, "coord_flavours": COORD_FLAVOURS,
                  "charge_flavours": CHARGE_FLAVOURS, "element_flavours": ELEMENT_FLAVOURS,
                  "other_flavours": OTHER_FLAVOURS, "force_levels": FORCE_LEVELS,
                  "cases": sum(1 for _ in audit_cases(tier))},
        "palettes": len(PALETTES),
    }


def shards(tier, seed):
    q = tier == "quick"
    out = [{"kind": "big", "case": c} for c in big_cases(tier)]
    out += mol_shards(tier)
    k = 4 if q else 24
    out += [{"kind": "chg", "part": p, "of": k} for p in range(k)]
    out += [{"kind": "header", "order": o, "part": 0, "of": 1} for o in (0, 1)]
    out += [{"kind": "header", "order": 2, "part": p, "of": 4} for p in range(4)]
    if not q:
        out += [{"kind": "header", "order": 3, "part": p, "of": 24} for p in range(24)]
    k = 8 if q else 12
    out += [{"kind": "meta", "part": p, "of": k} for p in range(k)]
    out += [{"kind": "records", "part": p, "of": 4} for p in range(4)]
    k = 32 if q else 96
    out += [{"kind": "rd", "part": p, "of": k} for p in range(k)]
    k = 4 if q else 16
    out += [{"kind": "reuse", "part": p, "of": k} for p in range(k)]
    out += [{"kind": "audit", "fam": fam} for fam in ("alias", "flavour", "shape", "lazy", "identity", "combo", "derived", "options", "ambient")]
    big = [s for s in out if s["kind"] == "big" and s["case"]["n"] >= 900]
    rest = [s for s in out if s not in big]
    r = seed % max(1, len(rest))
    return big + rest[r:] + rest[:r]


def run_shard(shard, ctx):
    warnings.simplefilter("ignore")
    k = shard["kind"]
    {"mol": run_mol, "chg": run_chg, "big": run_big, "header": run_header, "meta": run_meta,
     "records": run_records, "rd": run_rd, "reuse": run_reuse, "audit": run_audit}[k](shard, ctx)


def crash_class(case):
    if isinstance(case, dict):
        return str(case.get("kind", "unclassified"))
    return "unclassified"


def replay(case, ctx):
    warnings.simplefilter("ignore")
    k = case["kind"]
    pal = case.get("pal", 0)
    if k == "mol":
        n, g, devs = case["n"], case["g"], case["devs"]
        for ver in ([case["ver"]] if "ver" in case else VERSIONS):
            for cont in ([case["cont"]] if "cont" in case else CONTAINERS):
                fails = mol_case_fails(n, g, devs, ver, cont, pal, ctx)
                ctx.ev(1, 1)
                for site, mode, what, exp, obs in fails:
                    ctx.violation("%s|%s|%s" % (site, mode, classes_of(devs)), what,
                                  dict(case, ver=ver, cont=cont), exp, obs)
    elif k == "chg":
        run_simple_case(ctx, {x: case[x] for x in case if x not in ("ver", "cont", "pal")}, chg_mol(case, pal),
                        case["ver"], case["cont"], pal, chg_class(case))
    elif k == "big":
        base = {x: case[x] for x in case if x not in ("ver", "cont", "pal")}
        m = big_mol(case, pal)
        if (m["n"] >= 1000 or len(m["bonds"]) >= 1000) and case["ver"] == "V2000":
            run_too_big(ctx, base, m, case["cont"], pal)
        else:
            run_simple_case(ctx, base, m, case["ver"], case["cont"], pal, big_class(m))
    elif k == "header":
        run_header_case(ctx, case, pal)
    elif k == "meta":
        run_meta_case(ctx, case, pal)
    elif k == "records":
        run_records_case(ctx, case, pal)
    elif k == "rd":
        run_rd_case(ctx, case)
    elif k == "rd_h":
        run_rd_hydrogen(ctx, pal)
    elif k == "reuse":
        run_reuse_case(ctx, case)
    elif k == "audit":
        run_audit_case(ctx, case)
    else:
        raise ValueError(case)
