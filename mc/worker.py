"""Long-lived worker: receives shards over a pipe, runs them, returns results.

usage: worker.py <prop_id> <tier> <seed> <req_fd> <resp_fd> <journal_path>
"""

import importlib
import os
import pickle
import struct
import sys
import traceback

sys.path.insert(0, os.path.dirname(os.path.dirname(os.path.abspath(__file__))))


def _read_msg(f):
    hdr = f.read(8)
    if len(hdr) < 8:
        return None
    (n,) = struct.unpack(">Q", hdr)
    return pickle.loads(f.read(n))


def _write_msg(f, obj):
    data = pickle.dumps(obj, protocol=4)
    f.write(struct.pack(">Q", len(data)))
    f.write(data)
    f.flush()


def main():
    prop_id, tier, seed, req_fd, resp_fd, journal_path = sys.argv[1:7]
    seed = int(seed)
    req = os.fdopen(int(req_fd), "rb")
    resp = os.fdopen(int(resp_fd), "wb")
    # anything the property code prints goes to stderr
    os.dup2(2, 1)
    from mc import loader

    loader.install()
    from mc.ctx import Ctx

    mod = importlib.import_module("props." + prop_id.lower())
    jfd = os.open(journal_path, os.O_RDWR | os.O_CREAT, 0o644)
    _write_msg(resp, {"ready": True})
    while True:
        msg = _read_msg(req)
        if msg is None or msg.get("quit"):
            break
        shard = msg["shard"]
        os.pwrite(jfd, b"\0\0\0\0", 0)
        ctx = Ctx(prop_id, tier, seed, shard=shard, journal_fd=jfd, skip=msg.get("skip", ()))
        try:
            mod.run_shard(shard, ctx)
            out = ctx.result()
            out["error"] = None
        except BaseException as e:  # noqa: BLE001
            from mc.ctx import unguarded_violation

            tb = traceback.format_exc()[-4000:]
            reported = isinstance(e, Exception) and unguarded_violation(ctx, e, getattr(ctx, "last_case", None))
            out = ctx.result()
            out["error"] = None if reported else tb
        _write_msg(resp, {"shard": shard, "result": out})


if __name__ == "__main__":
    main()
