"""Per-shard context handed to property code: counters, journal, violations,
isolated (forked) execution of dangerous calls."""

import hashlib
import json
import os
import pickle
import select
import signal
import time
import traceback

MAX_VIOL_PER_SIG = 3
MAX_SAMPLES = 6


def h64(obj):
    """Stable 64-bit hash of a JSON-able / repr-able object."""
    if not isinstance(obj, (bytes, str)):
        obj = repr(obj)
    if isinstance(obj, str):
        obj = obj.encode("utf-8", "backslashreplace")
    return int.from_bytes(hashlib.blake2b(obj, digest_size=8).digest(), "big")


def jsonable(x, depth=0):
    """Best-effort conversion to something json.dumps accepts."""
    import numpy as np

    if depth > 14:
        return repr(x)
    if x is None or isinstance(x, (bool, int, str)):
        return x
    if isinstance(x, float):
        return x if x == x and abs(x) != float("inf") else repr(x)
    if isinstance(x, bytes):
        return {"__bytes__": x.decode("latin-1")}
    if isinstance(x, np.generic):
        return jsonable(x.item(), depth + 1)
    if isinstance(x, np.ndarray):
        return {"__ndarray__": jsonable(x.tolist(), depth + 1), "dtype": str(x.dtype)}
    if isinstance(x, dict):
        return {str(k): jsonable(v, depth + 1) for k, v in x.items()}
    if isinstance(x, (list, tuple)):
        return [jsonable(v, depth + 1) for v in x]
    if isinstance(x, (set, frozenset)):
        return sorted((jsonable(v, depth + 1) for v in x), key=repr)
    return repr(x)


class Ctx:
    def __init__(self, prop_id, tier, seed, shard=None, journal_fd=None, skip=()):
        self.prop_id = prop_id
        self.tier = tier
        self.seed = seed
        self.shard = shard
        self.journal_fd = journal_fd
        self.skip = set(skip)
        self.evaluations = 0
        self.nontrivial = 0
        self.counters = {}
        self.outcomes = set()
        self.states = set()
        self.transitions = 0
        self.traces = 0
        self.violations = []
        self._viol_per_sig = {}
        self.viol_total = 0
        self.samples = []
        self.notes = []

    # ---- bookkeeping -------------------------------------------------
    def journal(self, case_id):
        """Record the case about to be executed (crash / hang attribution).
        Returns False if the case is poisoned and must be skipped."""
        s = case_id if isinstance(case_id, str) else json.dumps(jsonable(case_id))
        if s in self.skip:
            return False
        self.last_case = s
        if self.journal_fd is not None:
            b = s.encode("utf-8", "backslashreplace")[:8000]
            os.pwrite(self.journal_fd, len(b).to_bytes(4, "big") + b, 0)
        return True

    def ev(self, n=1, nontrivial=0):
        self.evaluations += n
        self.nontrivial += nontrivial

    def count(self, key, n=1):
        self.counters[key] = self.counters.get(key, 0) + n

    def outcome(self, obj):
        if len(self.outcomes) < 200000:
            self.outcomes.add(h64(obj))

    def state(self, canon):
        """Register a canonical state; returns True if new in this shard."""
        k = h64(canon)
        if k in self.states:
            return False
        self.states.add(k)
        return True

    def transition(self, n=1):
        self.transitions += n

    def trace(self, n=1):
        self.traces += n

    def sample(self, case):
        if len(self.samples) < MAX_SAMPLES:
            self.samples.append(jsonable(case))

    def note(self, text):
        if text not in self.notes:
            self.notes.append(text)

    def violation(self, sig, what, case, expected=None, observed=None):
        """sig: stable signature (call site | failure mode | input class)."""
        self.viol_total += 1
        n = self._viol_per_sig.get(sig, 0)
        self._viol_per_sig[sig] = n + 1
        if n < MAX_VIOL_PER_SIG:
            self.violations.append(
                {
                    "sig": sig,
                    "what": what,
                    "case": jsonable(case),
                    "expected": jsonable(expected),
                    "observed": jsonable(observed),
                }
            )

    # ---- isolated execution -----------------------------------------
    def isolated(self, fn, *args, timeout=20.0):
        """Run fn(*args) in a forked child.  Returns one of
        ('ok', value) / ('exc', class_name, message) / ('signal', signo) /
        ('timeout',) / ('exit', code).  Nothing the child does can corrupt
        this process."""
        r, w = os.pipe()
        pid = os.fork()
        if pid == 0:
            code = 0
            try:
                try:
                    import resource

                    resource.setrlimit(resource.RLIMIT_CORE, (0, 0))
                except Exception:  # noqa: BLE001
                    pass
                os.close(r)
                try:
                    val = ("ok", fn(*args))
                except BaseException as e:  # noqa: BLE001
                    val = ("exc", type(e).__name__, str(e)[:500])
                try:
                    data = pickle.dumps(val)
                except Exception as e:  # noqa: BLE001
                    data = pickle.dumps(("exc", "UnpicklableResult", repr(e)))
                with os.fdopen(w, "wb") as f:
                    f.write(data)
            except BaseException:  # noqa: BLE001
                code = 99
            finally:
                os._exit(code)
        os.close(w)
        chunks = []
        deadline = time.monotonic() + timeout
        timed_out = False
        while True:
            left = deadline - time.monotonic()
            if left <= 0:
                timed_out = True
                break
            rl, _, _ = select.select([r], [], [], left)
            if not rl:
                timed_out = True
                break
            b = os.read(r, 1 << 16)
            if not b:
                break
            chunks.append(b)
        os.close(r)
        if timed_out:
            try:
                os.kill(pid, signal.SIGKILL)
            except ProcessLookupError:
                pass
            os.waitpid(pid, 0)
            return ("timeout",)
        _, status = os.waitpid(pid, 0)
        if os.WIFSIGNALED(status):
            return ("signal", os.WTERMSIG(status))
        data = b"".join(chunks)
        if not data:
            return ("exit", os.WEXITSTATUS(status))
        try:
            return pickle.loads(data)
        except Exception:  # noqa: BLE001
            return ("exit", os.WEXITSTATUS(status))

    def isolated_batch(self, fn, items, timeout=60.0, per_item_timeout=20.0):
        """Run fn(item) for every item inside forked children, as few as
        possible: the whole list in one child; when a child dies the list is
        bisected until the offending items are isolated.  Returns a list with
        one entry per item: ('ok', value) or the failure tuple of isolated()."""
        items = list(items)
        if not items:
            return []
        if len(items) == 1:
            return [self.isolated(fn, items[0], timeout=per_item_timeout)]

        def run_all(chunk):
            out = []
            for it in chunk:
                try:
                    out.append(("ok", fn(it)))
                except BaseException as e:  # noqa: BLE001
                    out.append(("exc", type(e).__name__, str(e)[:300]))
            return out

        r = self.isolated(run_all, items, timeout=timeout)
        if r[0] == "ok":
            return r[1]
        mid = len(items) // 2
        return self.isolated_batch(fn, items[:mid], timeout, per_item_timeout) + self.isolated_batch(
            fn, items[mid:], timeout, per_item_timeout
        )

    # ---- result ------------------------------------------------------
    def result(self):
        return {
            "evaluations": self.evaluations,
            "nontrivial": self.nontrivial,
            "counters": self.counters,
            "outcomes": self.outcomes,
            "states": self.states,
            "transitions": self.transitions,
            "traces": self.traces,
            "violations": self.violations,
            "viol_total": self.viol_total,
            "viol_per_sig": self._viol_per_sig,
            "samples": self.samples,
            "notes": self.notes,
        }


def format_exc():
    return traceback.format_exc()[-2000:]



def subject_exception(exc):
    """An exception that escaped a property module.  If it was raised inside the library under test
    (a frame below the last harness frame lies in <repo>/src or in a compiled biotite module), the
    harness called the library where it expected success and the library raised: that is an
    observation about the subject, not a harness error.  Returns (exception class, site) or None."""
    import traceback

    from mc import loader

    frames = traceback.extract_tb(exc.__traceback__)
    verif = str(loader.VERIF)
    src = str(loader.REPO / "src")
    last_h = -1
    for i, f in enumerate(frames):
        if f.filename.startswith(verif + "/props") or f.filename.startswith(verif + "/mc"):
            last_h = i
    for f in frames[last_h + 1:]:
        fn = f.filename
        if fn.startswith(src) or ("biotite/" in fn and fn.endswith(".pyx")):
            return type(exc).__name__, "%s:%s" % (os.path.basename(fn), f.name)
    return None


def unguarded_violation(ctx, exc, case):
    """Report a subject exception that no oracle of the module anticipated.  Returns True if reported."""
    se = subject_exception(exc)
    if se is None:
        return False
    if isinstance(case, str):
        try:
            case = json.loads(case)
        except ValueError:
            pass
    ctx.violation("unguarded_exception|%s|%s" % se,
                  "the library raised %s (%s) in a call that every oracle of this check expects to succeed; the rest "
                  "of the shard was not explored" % (se[0], str(exc)[:200]), case, "no exception", "%s at %s" % se)
    return True
