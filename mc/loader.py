"""Bind the checks to /repo's *current* working tree.

Python sources are imported straight from /repo/src.  Compiled modules are
rebuilt from the generated C/C++ that sits next to every .pyx (no Cython
compiler exists in this image; if one is importable it is used to regenerate
the C from a changed .pyx first) into /verif/build/ext and served from there
by a meta-path finder, so that an edit to generated code is picked up without
writing anything under /repo.
"""

import hashlib
import importlib.abc
import importlib.machinery
import importlib.util
import json
import os
import subprocess
import sys
import sysconfig
from concurrent.futures import ThreadPoolExecutor
from pathlib import Path

REPO = Path(os.environ.get("VERIF_REPO", "/repo"))
SRC = REPO / "src"
VERIF = Path(__file__).resolve().parent.parent
BUILD = Path(os.environ.get("VERIF_BUILD", str(VERIF / "build")))
EXT = BUILD / "ext"
STAMPS = EXT / "stamps.json"
PYX_BASE = VERIF / "fixtures" / "pyx_baseline.json"  # committed; refreshed with --rebaseline


def _sha(path):
    h = hashlib.sha256()
    h.update(Path(path).read_bytes())
    return h.hexdigest()


def _sources():
    out = []
    for pyx in sorted(SRC.glob("biotite/**/*.pyx")):
        c = pyx.with_suffix(".c")
        cpp = pyx.with_suffix(".cpp")
        gen = cpp if cpp.exists() else c
        dotted = ".".join(pyx.relative_to(SRC).with_suffix("").parts)
        out.append((dotted, pyx, gen))
    return out


def _numpy_include():
    import numpy

    return numpy.get_include()


def _compile(dotted, gen):
    out = EXT / (dotted + ".so")
    tmp = EXT / (dotted + ".so.tmp%d" % os.getpid())
    cxx = gen.suffix == ".cpp"
    cmd = [
        "g++" if cxx else "gcc",
        "-O1",
        "-fPIC",
        "-shared",
        "-w",
        "-DNPY_NO_DEPRECATED_API=NPY_1_7_API_VERSION",
        "-I" + sysconfig.get_paths()["include"],
        "-I" + _numpy_include(),
        "-I" + str(gen.parent),
        str(gen),
        "-o",
        str(tmp),
    ]
    if cxx:
        cmd.insert(1, "-std=c++11")
    r = subprocess.run(cmd, capture_output=True, text=True)
    if r.returncode != 0:
        if tmp.exists():
            tmp.unlink()
        raise RuntimeError("compile failed for %s:\n%s" % (gen, r.stderr[-3000:]))
    os.replace(tmp, out)
    return out


def _try_cythonize(pyx, gen):
    """If a Cython compiler is importable, regenerate `gen` in the build dir."""
    try:
        import Cython  # noqa: F401
    except Exception:
        return None
    target = EXT / "gen" / pyx.relative_to(SRC)
    target.parent.mkdir(parents=True, exist_ok=True)
    out = target.with_suffix(gen.suffix)
    cmd = [sys.executable, "-m", "cython", "-3", str(pyx), "-o", str(out), "-I", str(SRC)]
    if gen.suffix == ".cpp":
        cmd.insert(4, "--cplus")
    r = subprocess.run(cmd, capture_output=True, text=True)
    if r.returncode != 0:
        raise RuntimeError("cython failed for %s:\n%s" % (pyx, r.stderr[-3000:]))
    return out


def ensure_built(verbose=False):
    """Compile every generated source whose hash changed. Returns notes."""
    EXT.mkdir(parents=True, exist_ok=True)
    stamps = json.loads(STAMPS.read_text()) if STAMPS.exists() else {}
    pyx_base = json.loads(PYX_BASE.read_text()) if PYX_BASE.exists() else {}
    notes = []
    jobs = []
    for dotted, pyx, gen in _sources():
        if not gen.exists():
            raise RuntimeError("generated source missing for %s" % pyx)
        hp = _sha(pyx)
        hc = _sha(gen)
        use = gen
        if dotted in pyx_base and pyx_base[dotted]["pyx"] != hp and pyx_base[dotted]["gen"] == hc:
            # .pyx edited, generated C untouched
            regen = _try_cythonize(pyx, gen)
            if regen is not None:
                use = regen
                hc = _sha(regen)
            else:
                notes.append(
                    "%s.pyx changed but its generated C did not; Cython unavailable, "
                    "compiled behaviour taken from the generated C" % dotted
                )
        so = EXT / (dotted + ".so")
        if stamps.get(dotted) != hc or not so.exists():
            jobs.append((dotted, use, hc, hp))
    if jobs:
        if verbose:
            print("[loader] compiling %d extension module(s)" % len(jobs), flush=True)
        with ThreadPoolExecutor(max_workers=min(16, len(jobs))) as ex:
            list(ex.map(lambda j: _compile(j[0], j[1]), jobs))
        for dotted, use, hc, hp in jobs:
            stamps[dotted] = hc
        tmp = STAMPS.with_suffix(".tmp%d" % os.getpid())
        tmp.write_text(json.dumps(stamps, indent=1))
        os.replace(tmp, STAMPS)
    return notes


def rebaseline():
    """Record the current (.pyx, generated C) hash pairs as being in sync."""
    base = {}
    for dotted, pyx, gen in _sources():
        base[dotted] = {"pyx": _sha(pyx), "gen": _sha(gen)}
    PYX_BASE.parent.mkdir(parents=True, exist_ok=True)
    PYX_BASE.write_text(json.dumps(base, indent=1, sort_keys=True) + "\n")


class _Finder(importlib.abc.MetaPathFinder):
    def __init__(self):
        self.names = {p.name[:-3] for p in EXT.glob("*.so")}

    def find_spec(self, fullname, path=None, target=None):
        if fullname in self.names:
            so = str(EXT / (fullname + ".so"))
            loader = importlib.machinery.ExtensionFileLoader(fullname, so)
            return importlib.util.spec_from_file_location(fullname, so, loader=loader)
        return None


_installed = False


def install():
    """Make `import biotite` use /repo/src + /verif/build/ext."""
    global _installed
    if _installed:
        return
    if "biotite" in sys.modules:
        raise RuntimeError("loader.install() must run before biotite is imported")
    sys.meta_path.insert(0, _Finder())
    src = str(SRC)
    if src in sys.path:
        sys.path.remove(src)
    sys.path.insert(0, src)
    _installed = True


def prepare(verbose=False):
    notes = ensure_built(verbose=verbose)
    install()
    return notes


if __name__ == "__main__":
    if "--rebaseline" in sys.argv:
        rebaseline()
        print("[loader] baseline written to", PYX_BASE)
    n = ensure_built(verbose=True)
    for x in n:
        print("[loader] note:", x)
    print("[loader] ok:", len(list(EXT.glob("*.so"))), "modules in", EXT)
