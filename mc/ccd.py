"""Synthetic chemical component dictionary (the tree ships none and nothing can
be downloaded).  Written with biotite's own BinaryCIF writer and installed via
the public info.set_ccd_path().  Components: ALA, GLY, SER (L-peptide linking),
A / DA (RNA / DNA linking, truncated to a few atoms), HOH, LIG (a small ligand
with single/double/triple/aromatic bonds), NA (ion, no bonds)."""

import os

import numpy as np

from mc import loader

CCD_PATH = loader.BUILD / "ccd_synth.bcif"

# comp_id -> (name, type, one_letter, formula_weight, atoms, bonds)
# atom: (atom_id, element, charge, leaving_flag, (x,y,z))
# bond: (a1, a2, order, aromatic_flag)
COMPONENTS = {
    "ALA": ("ALANINE", "L-PEPTIDE LINKING", "A", 89.093, [
        ("N", "N", 0, "N", (-0.966, 0.493, 1.500)),
        ("CA", "C", 0, "N", (0.257, 0.418, 0.692)),
        ("C", "C", 0, "N", (-0.094, 0.017, -0.716)),
        ("O", "O", 0, "N", (-1.056, -0.682, -0.923)),
        ("CB", "C", 0, "N", (1.204, -0.620, 1.296)),
        ("OXT", "O", 0, "Y", (0.661, 0.439, -1.742)),
    ], [("N", "CA", "SING", "N"), ("CA", "C", "SING", "N"), ("CA", "CB", "SING", "N"),
        ("C", "O", "DOUB", "N"), ("C", "OXT", "SING", "N")]),
    "GLY": ("GLYCINE", "PEPTIDE LINKING", "G", 75.067, [
        ("N", "N", 0, "N", (1.931, 0.090, -0.034)),
        ("CA", "C", 0, "N", (0.761, -0.799, -0.008)),
        ("C", "C", 0, "N", (-0.498, 0.029, -0.005)),
        ("O", "O", 0, "N", (-0.429, 1.235, -0.023)),
        ("OXT", "O", 0, "Y", (-1.697, -0.574, 0.018)),
    ], [("N", "CA", "SING", "N"), ("CA", "C", "SING", "N"), ("C", "O", "DOUB", "N"), ("C", "OXT", "SING", "N")]),
    "SER": ("SERINE", "L-PEPTIDE LINKING", "S", 105.093, [
        ("N", "N", 0, "N", (1.525, 0.493, -0.608)),
        ("CA", "C", 0, "N", (0.100, 0.469, -0.252)),
        ("C", "C", 0, "N", (-0.053, 0.004, 1.173)),
        ("O", "O", 0, "N", (0.751, -0.760, 1.649)),
        ("CB", "C", 0, "N", (-0.642, -0.489, -1.184)),
        ("OG", "O", 0, "N", (-0.496, -0.049, -2.535)),
        ("OXT", "O", 0, "Y", (-1.084, 0.440, 1.913)),
    ], [("N", "CA", "SING", "N"), ("CA", "C", "SING", "N"), ("CA", "CB", "SING", "N"), ("C", "O", "DOUB", "N"),
        ("C", "OXT", "SING", "N"), ("CB", "OG", "SING", "N")]),
    "A": ("ADENOSINE-5'-MONOPHOSPHATE", "RNA LINKING", "A", 347.221, [
        ("P", "P", 0, "N", (2.0, 0.0, 0.0)),
        ("OP1", "O", 0, "N", (3.0, 1.0, 0.0)),
        ("O5'", "O", 0, "N", (1.0, 1.0, 0.0)),
        ("C5'", "C", 0, "N", (0.0, 2.0, 0.0)),
        ("O3'", "O", 0, "N", (-1.0, 3.0, 0.0)),
        ("N9", "N", 0, "N", (-2.0, 1.0, 1.0)),
        ("C8", "C", 0, "N", (-3.0, 1.0, 2.0)),
    ], [("P", "OP1", "DOUB", "N"), ("P", "O5'", "SING", "N"), ("O5'", "C5'", "SING", "N"), ("C5'", "O3'", "SING", "N"),
        ("C5'", "N9", "SING", "N"), ("N9", "C8", "SING", "Y")]),
    "DA": ("2'-DEOXYADENOSINE-5'-MONOPHOSPHATE", "DNA LINKING", "A", 331.222, [
        ("P", "P", 0, "N", (2.0, 0.0, 0.0)),
        ("O5'", "O", 0, "N", (1.0, 1.0, 0.0)),
        ("C5'", "C", 0, "N", (0.0, 2.0, 0.0)),
        ("O3'", "O", 0, "N", (-1.0, 3.0, 0.0)),
    ], [("P", "O5'", "SING", "N"), ("O5'", "C5'", "SING", "N"), ("C5'", "O3'", "SING", "N")]),
    "HOH": ("WATER", "NON-POLYMER", "?", 18.015, [
        ("O", "O", 0, "N", (0.0, 0.0, 0.0)),
        ("H1", "H", 0, "N", (0.8, 0.6, 0.0)),
        ("H2", "H", 0, "N", (-0.8, 0.6, 0.0)),
    ], [("O", "H1", "SING", "N"), ("O", "H2", "SING", "N")]),
    "LIG": ("SYNTHETIC LIGAND", "NON-POLYMER", "?", 100.0, [
        ("C1", "C", 0, "N", (0.0, 0.0, 0.0)),
        ("C2", "C", 0, "N", (1.4, 0.0, 0.0)),
        ("C3", "C", 0, "N", (2.1, 1.2, 0.0)),
        ("N1", "N", 1, "N", (1.4, 2.4, 0.0)),
        ("O1", "O", -1, "N", (0.0, 2.4, 0.0)),
        ("C4", "C", 0, "N", (-0.7, 1.2, 0.0)),
        ("C5", "C", 0, "N", (-2.1, 1.2, 0.0)),
    ], [("C1", "C2", "DOUB", "Y"), ("C2", "C3", "SING", "Y"), ("C3", "N1", "DOUB", "N"), ("N1", "O1", "SING", "N"),
        ("O1", "C4", "SING", "N"), ("C4", "C1", "SING", "Y"), ("C4", "C5", "TRIP", "N")]),
    "NA": ("SODIUM ION", "NON-POLYMER", "?", 22.990, [("NA", "NA", 1, "N", (0.0, 0.0, 0.0))], []),
}


def _build():
    from biotite.structure.io.pdbx import BinaryCIFBlock, BinaryCIFCategory, BinaryCIFFile

    cc = {k: [] for k in ("id", "name", "type", "formula_weight", "one_letter_code", "three_letter_code")}
    at = {k: [] for k in ("comp_id", "atom_id", "alt_atom_id", "type_symbol", "charge", "pdbx_align",
                          "pdbx_aromatic_flag", "pdbx_leaving_atom_flag", "pdbx_stereo_config",
                          "model_Cartn_x", "model_Cartn_y", "model_Cartn_z",
                          "pdbx_model_Cartn_x_ideal", "pdbx_model_Cartn_y_ideal", "pdbx_model_Cartn_z_ideal",
                          "pdbx_component_atom_id", "pdbx_component_comp_id", "pdbx_ordinal")}
    bo = {k: [] for k in ("comp_id", "atom_id_1", "atom_id_2", "value_order", "pdbx_aromatic_flag",
                          "pdbx_stereo_config", "pdbx_ordinal")}
    for comp, (name, typ, olc, fw, atoms, bonds) in COMPONENTS.items():
        cc["id"].append(comp)
        cc["name"].append(name)
        cc["type"].append(typ)
        cc["formula_weight"].append(fw)
        cc["one_letter_code"].append(olc)
        cc["three_letter_code"].append(comp)
        arom_atoms = {a for b in bonds if b[3] == "Y" for a in b[:2]}
        for i, (aid, el, ch, leave, xyz) in enumerate(atoms):
            at["comp_id"].append(comp)
            at["atom_id"].append(aid)
            at["alt_atom_id"].append(aid)
            at["type_symbol"].append(el)
            at["charge"].append(ch)
            at["pdbx_align"].append(1)
            at["pdbx_aromatic_flag"].append("Y" if aid in arom_atoms else "N")
            at["pdbx_leaving_atom_flag"].append(leave)
            at["pdbx_stereo_config"].append("N")
            for k, v in zip("xyz", xyz):
                at["model_Cartn_" + k].append(v)
                at["pdbx_model_Cartn_%s_ideal" % k].append(v)
            at["pdbx_component_atom_id"].append(aid)
            at["pdbx_component_comp_id"].append(comp)
            at["pdbx_ordinal"].append(i + 1)
        for i, (a1, a2, order, arom) in enumerate(bonds):
            bo["comp_id"].append(comp)
            bo["atom_id_1"].append(a1)
            bo["atom_id_2"].append(a2)
            bo["value_order"].append(order)
            bo["pdbx_aromatic_flag"].append(arom)
            bo["pdbx_stereo_config"].append("N")
            bo["pdbx_ordinal"].append(i + 1)

    def cat(d):
        c = BinaryCIFCategory()
        for k, v in d.items():
            c[k] = np.array(v)
        return c

    block = BinaryCIFBlock()
    block["chem_comp"] = cat(cc)
    block["chem_comp_atom"] = cat(at)
    block["chem_comp_bond"] = cat(bo)
    f = BinaryCIFFile()
    f["components"] = block
    return f


def ensure_ccd():
    """Write the synthetic CCD (idempotent, atomic)."""
    if CCD_PATH.exists():
        return CCD_PATH
    CCD_PATH.parent.mkdir(parents=True, exist_ok=True)
    f = _build()
    tmp = str(CCD_PATH) + ".tmp%d" % os.getpid()
    f.write(tmp)
    os.replace(tmp, CCD_PATH)
    return CCD_PATH


def install_ccd():
    """Make biotite.structure.info use the synthetic dictionary (per process)."""
    import biotite.structure.info as info

    ensure_ccd()
    info.set_ccd_path(CCD_PATH)
    return CCD_PATH
