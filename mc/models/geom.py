"""Naive reference geometry shared by C14 (cell list) and C15 (geometry / box
helpers).  Everything is float64 brute force or exact integer arithmetic and
shares no code with biotite.

Conventions: a box is a (3,3) array whose ROWS are the box vectors; a lattice
vector is n @ box for an integer row vector n.
"""

import itertools
import math

import numpy as np


# ---------------------------------------------------------------------------
# lattices / enumeration helpers
# ---------------------------------------------------------------------------
def lattice(values, dim=3):
    """All points of values^dim, lexicographic order, float64 (k^dim, dim)."""
    return np.array(list(itertools.product(values, repeat=dim)), dtype=np.float64)


def multisets(n_points, k):
    """All multisets of size k over range(n_points) as index tuples (sorted)."""
    return itertools.combinations_with_replacement(range(n_points), k)


def n_multisets(n_points, k):
    return math.comb(n_points + k - 1, k)


def all_graphs(n):
    """Every simple graph on n labelled vertices as a list of edges (i<j)."""
    pairs = list(itertools.combinations(range(n), 2))
    for bits in itertools.product((0, 1), repeat=len(pairs)):
        yield [p for p, b in zip(pairs, bits) if b]


def components(n, edges):
    """Connected components (sorted lists of vertices) by naive flooding."""
    comp = list(range(n))
    changed = True
    while changed:
        changed = False
        for i, j in edges:
            m = min(comp[i], comp[j])
            if comp[i] != m or comp[j] != m:
                comp[i] = comp[j] = m
                changed = True
    out = {}
    for v, c in enumerate(comp):
        out.setdefault(c, []).append(v)
    return sorted(out.values())


# ---------------------------------------------------------------------------
# distances
# ---------------------------------------------------------------------------
def sq_dist_matrix(a, b):
    """(len(a), len(b)) squared Euclidean distances in float64.  Exact when the
    coordinates are dyadic rationals of moderate size."""
    a = np.asarray(a, dtype=np.float64).reshape(-1, 3)
    b = np.asarray(b, dtype=np.float64).reshape(-1, 3)
    d = a[:, None, :] - b[None, :, :]
    return (d * d).sum(axis=-1)


def image_shifts(box, k):
    """All lattice vectors n @ box with n in {-k..k}^3: ((2k+1)^3, 3) float64
    and the integer triples."""
    box = np.asarray(box, dtype=np.float64)
    ns = np.array(list(itertools.product(range(-k, k + 1), repeat=3)), dtype=np.float64)
    return ns @ box, ns.astype(int)


def sq_min_image_matrix(a, b, box, k=2):
    """Minimum over the (2k+1)^3 periodic images of the squared distance between
    every a[i] and b[j]: (len(a), len(b)) float64."""
    a = np.asarray(a, dtype=np.float64).reshape(-1, 3)
    b = np.asarray(b, dtype=np.float64).reshape(-1, 3)
    shifts, _ = image_shifts(box, k)
    best = None
    for s in shifts:
        d = a[:, None, :] - (b[None, :, :] + s)
        d2 = (d * d).sum(axis=-1)
        best = d2 if best is None else np.minimum(best, d2)
    return best


def image_count_matrix(a, b, box, r2, k=2):
    """Number of periodic images (within {-k..k}^3) of b[j] whose squared
    distance to a[i] is <= r2."""
    a = np.asarray(a, dtype=np.float64).reshape(-1, 3)
    b = np.asarray(b, dtype=np.float64).reshape(-1, 3)
    shifts, _ = image_shifts(box, k)
    cnt = np.zeros((len(a), len(b)), dtype=int)
    for s in shifts:
        d = a[:, None, :] - (b[None, :, :] + s)
        cnt += ((d * d).sum(axis=-1) <= r2)
    return cnt


def min_image_vectors(diff, box, k=3):
    """For every difference vector the shortest of diff + n@box, n in {-k..k}^3.
    Returns (vectors, squared lengths)."""
    diff = np.asarray(diff, dtype=np.float64).reshape(-1, 3)
    shifts, _ = image_shifts(box, k)
    best_v = diff.copy()
    best = (diff * diff).sum(axis=-1)
    for s in shifts:
        v = diff + s
        d2 = (v * v).sum(axis=-1)
        m = d2 < best
        best = np.where(m, d2, best)
        best_v[m] = v[m]
    return best_v, best


# ---------------------------------------------------------------------------
# boxes
# ---------------------------------------------------------------------------
def box_heights(box):
    """Distances between opposite faces: volume / area of the face spanned by
    the two other vectors."""
    box = np.asarray(box, dtype=np.float64)
    vol = abs(np.dot(box[0], np.cross(box[1], box[2])))
    return np.array([
        vol / np.linalg.norm(np.cross(box[1], box[2])),
        vol / np.linalg.norm(np.cross(box[2], box[0])),
        vol / np.linalg.norm(np.cross(box[0], box[1])),
    ])


def lattice_coefficients(vec, box):
    """Solve f @ box = vec for f (float64); vec (...,3)."""
    box = np.asarray(box, dtype=np.float64)
    vec = np.asarray(vec, dtype=np.float64)
    # f @ B = v  <=>  B^T f^T = v^T
    return np.linalg.solve(box.T, vec.reshape(-1, 3).T).T.reshape(vec.shape)


def lattice_residual(vec, box):
    """Distance of vec from the nearest lattice vector (by rounding the
    coefficients); returns (residual norm, rounded integer coefficients)."""
    f = lattice_coefficients(vec, box)
    n = np.rint(f)
    res = vec - n @ np.asarray(box, dtype=np.float64)
    return np.sqrt((res * res).sum(axis=-1)), n


def unitcell_vectors(a, b, c, alpha, beta, gamma):
    """Textbook lower-triangular box from unit cell parameters (radians),
    a along x, b in the xy plane; float64.  Returns None when the parameters do
    not span a positive volume."""
    ca, cb, cg = math.cos(alpha), math.cos(beta), math.cos(gamma)
    sg = math.sin(gamma)
    vol2 = 1 - ca * ca - cb * cb - cg * cg + 2 * ca * cb * cg
    if vol2 <= 1e-9 or sg <= 1e-9:
        return None
    cx = c * cb
    cy = c * (ca - cb * cg) / sg
    cz = c * math.sqrt(vol2) / sg
    return np.array([[a, 0.0, 0.0], [b * cg, b * sg, 0.0], [cx, cy, cz]])


def unitcell_of(box):
    """(|a|,|b|,|c|, alpha, beta, gamma) of a box by dot products, float64."""
    box = np.asarray(box, dtype=np.float64)
    la, lb, lc = (math.sqrt(float(np.dot(v, v))) for v in box)

    def ang(u, v, lu, lv):
        return math.acos(max(-1.0, min(1.0, float(np.dot(u, v)) / (lu * lv))))

    return (la, lb, lc, ang(box[1], box[2], lb, lc), ang(box[0], box[2], la, lc), ang(box[0], box[1], la, lb))


# ---------------------------------------------------------------------------
# rotations
# ---------------------------------------------------------------------------
def cube_rotations():
    """The 24 proper rotations of the cube: signed permutation matrices with
    determinant +1 (integer matrices, act on row vectors as x @ R.T)."""
    out = []
    for perm in itertools.permutations(range(3)):
        for signs in itertools.product((1, -1), repeat=3):
            m = np.zeros((3, 3), dtype=int)
            for r in range(3):
                m[r, perm[r]] = signs[r]
            if round(np.linalg.det(m)) == 1:
                out.append(m)
    assert len(out) == 24
    return out


def rot_axis(axis, angle):
    """Rodrigues rotation matrix (float64) for column vectors: x' = R x."""
    ax = np.asarray(axis, dtype=np.float64)
    ax = ax / math.sqrt(float(np.dot(ax, ax)))
    kx = np.array([[0, -ax[2], ax[1]], [ax[2], 0, -ax[0]], [-ax[1], ax[0], 0]])
    return np.eye(3) + math.sin(angle) * kx + (1 - math.cos(angle)) * (kx @ kx)


def rot_xyz(angles):
    """Rotation about x, then y, then z (fixed axes): R = Rz Ry Rx."""
    rx = rot_axis([1, 0, 0], angles[0])
    ry = rot_axis([0, 1, 0], angles[1])
    rz = rot_axis([0, 0, 1], angles[2])
    return rz @ ry @ rx


def apply_rot(x, rot):
    """Rotate row vectors x (...,3) with the matrix for column vectors."""
    return np.asarray(x, dtype=np.float64) @ np.asarray(rot, dtype=np.float64).T


# ---------------------------------------------------------------------------
# textbook measurements (float64)
# ---------------------------------------------------------------------------
def tb_distance(p, q):
    d = np.asarray(q, dtype=np.float64) - np.asarray(p, dtype=np.float64)
    return np.sqrt((d * d).sum(axis=-1))


def tb_angle_cos(p1, p2, p3):
    """cos of the angle at p2 between p1 and p3 and a validity mask (both arms
    non-zero)."""
    u = np.asarray(p1, dtype=np.float64) - np.asarray(p2, dtype=np.float64)
    v = np.asarray(p3, dtype=np.float64) - np.asarray(p2, dtype=np.float64)
    uu = (u * u).sum(axis=-1)
    vv = (v * v).sum(axis=-1)
    ok = (uu > 0) & (vv > 0)
    with np.errstate(invalid="ignore", divide="ignore"):
        c = (u * v).sum(axis=-1) / np.sqrt(uu * vv)
    return np.clip(c, -1.0, 1.0), ok


def tb_dihedral(p0, p1, p2, p3):
    """IUPAC dihedral by the atan2 form
        phi = atan2(|b2| b1.(b2 x b3), (b1 x b2).(b2 x b3)),   b_i consecutive bond vectors
    and a validity mask (both normals non-zero)."""
    p0, p1, p2, p3 = (np.asarray(p, dtype=np.float64) for p in (p0, p1, p2, p3))
    b1, b2, b3 = p1 - p0, p2 - p1, p3 - p2
    n1 = np.cross(b1, b2)
    n2 = np.cross(b2, b3)
    x = (n1 * n2).sum(axis=-1)
    y = np.sqrt((b2 * b2).sum(axis=-1)) * (b1 * n2).sum(axis=-1)
    ok = ((n1 * n1).sum(axis=-1) > 0) & ((n2 * n2).sum(axis=-1) > 0)
    return np.arctan2(y, x), ok


def ang_diff(a, b):
    """Absolute difference of two angles on the circle."""
    d = np.abs(np.asarray(a, dtype=np.float64) - np.asarray(b, dtype=np.float64)) % (2 * math.pi)
    return np.minimum(d, 2 * math.pi - d)
